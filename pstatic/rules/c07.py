"""C07 -- phase references (virtual-Z) are additive and applied to every pulse."""
from __future__ import annotations

import ast

from ..absval import abstractor
from ..engine import SCHED, SEQ, Engine
from ..model import AnalysisError, dotted, norm
from ..report import Report
from .. import sym
from .symutil import S, all_of, any_lit, arg, elem_of, has, is_, mentions, sh, unobj

EXPLANATION = (
    "FLOW/PASS over the phase-reference bookkeeping: _PhaseTracker._format is `phi % (2*pi)` and is applied at every write of the phase list (constructor and __setitem__); increment_phase writes "
    "last_phase + phi at last_used; in Sequence._add the phase reference is read from last_phase of the targets and reaches the scheduled pulse additively (pulse.phase + phase_ref in "
    "_validate_and_adjust_pulse, whose result is the scheduled pulse); the phase barriers are read from last_time of the targets and handed to the scheduler; after the pulse is added, update_last_used(new slot end) "
    "runs for each target and _phase_shift(post_phase_shift [- drift], *targets, basis=basis) is applied to the same targets and basis; _phase_shift increments every target id; multi-target pulses/targets with "
    "different references are rejected; Pulse.__init__ reduces phase and post_phase_shift modulo 2*pi. NOT decided: the emulated z-rotation (runtime physics). FLOW (added): the pulse re-created by the scheduler for the drift correction keeps amplitude, detuning and post_phase_shift; the post-phase-shift applied by _add is read from the pulse handed to the scheduler; the drift window of enable_eom_mode/modify_eom_setpoint starts where the EOM buffer starts. Round 3 (added): update_last_used runs whenever the pulse was added (not only with a post-phase-shift); every phase-reference table stored in _basis_ref is {q: _QubitRef() for q in ids} (one object per atom); every Pulse classmethod constructor uses each of its parameters in the pulse it returns."
    ' Round 5 (added): phase references are compared modulo 2pi within a tolerance, not as a set of raw floats (KNOWN finding, 3 sites); the drift window of enable_eom_mode may be read from the scheduled buffer slot.'
    ' Round 6 (added after the fifth independent round of breaking changes): _PhaseTracker.__setitem__ records every assignment (no early return for an equal phase: the time of the last reference is part of the state).'
)
ASSUMPTIONS = ["formulas and guards are matched on the symbolic normal form (pstatic/sym.py)", "the order of two calls is the order in which the symbolic evaluation meets them (program order on every path)"]

BR = "pulser.sequence._basis_ref"


MOD2PI = "Q_x % (2 * Q_np.pi)"


def _stores_to(Sf, fn_short: str, attr: str) -> list:
    """(value term, logged entry) for every write into ``self.<attr>`` (assignment, item store, insert/append)."""
    out = []
    for l in Sf.log:
        if l.fn != fn_short:
            continue
        if l.kind == "store" and l.target is not None:
            t = l.target
            if t == ("attr", ("name", "self"), attr):
                vals = l.value[1:] if l.value is not None and l.value[0] == "list" else (l.value,)
                out += [(v, l) for v in vals]
            elif t[0] == "idx" and t[1] == ("attr", ("name", "self"), attr):
                out.append((l.value, l))
        elif l.kind == "call" and l.target is not None and l.target[0] == "attr" and l.target[2] in ("insert", "append") and l.target[1] == ("attr", ("name", "self"), attr):
            out.append((l.value[2][-1], l))
    return out


def run(E: Engine, rep: Report, tier: str) -> dict:
    pt = E.cls(BR + "._PhaseTracker")
    fmt = E.method(BR + "._PhaseTracker", "_format")
    # ------------------------------------------------------------ _format
    r = S(E, fmt).ret
    m = is_(r, MOD2PI)
    rep.check(m is not None and m["Q_x"] == ("name", fmt.params[1]), "FLOW", "_PhaseTracker._format|mod-2pi", "phase stored modulo 2*pi", f"_PhaseTracker._format is no longer `phi % (2*pi)`: {sh(r)}", E.where(fmt))
    # every write of _phases stores a value reduced modulo 2*pi
    n_w = 0
    for mname in ("__init__", "__setitem__"):
        f = E.method(BR + "._PhaseTracker", mname)
        for v, l in _stores_to(S(E, f), f.short, "_phases"):
            n_w += 1
            rep.check(is_(v, MOD2PI) is not None, "FLOW", f"_PhaseTracker.{mname}|stores-formatted|{n_w}", "stored phase is reduced modulo 2*pi", f"`{sh(v)}` is stored in _phases without being reduced modulo 2*pi (_format)", E.where(f, l.node))
    if n_w < 3:
        rep.error(f"only {n_w} writes of _PhaseTracker._phases found (expected 3)")
    # times and phases are inserted at the same index
    si = E.method(BR + "._PhaseTracker", "__setitem__")
    ins = [l for l in S(E, si).calls("insert") if l.fn == si.short]
    on = {l.target[1][2]: arg(l, 0) for l in ins if l.target[1][0] == "attr"}
    rep.check(set(on) == {"_times", "_phases"} and on["_times"] == on["_phases"] and len(ins) == 2, "FLOW", "_PhaseTracker.__setitem__|paired-insert", "times and phases inserted at the same index", f"times and phases are no longer inserted at the same index: {[(k, sh(v, 60)) for k, v in on.items()]}", E.where(si))
    # increment_phase
    inc = E.method(BR + "._QubitRef", "increment_phase")
    st = [l for l in S(E, inc).logged("store") if l.fn == inc.short]
    ok = len(st) == 1 and st[0].target == sym.Pattern("self.phase[self.last_used]").term and is_(st[0].value, "self.phase.last_phase + phi") is not None
    rep.check(ok, "FLOW", "_QubitRef.increment_phase|additive-at-last-used", "phase[last_used] = last_phase + phi", f"increment_phase is no longer `self.phase[self.last_used] = self.phase.last_phase + phi`: {[(sh(l.target, 50), sh(l.value, 80)) for l in st]}", E.where(inc))
    ulu = E.method(BR + "._QubitRef", "update_last_used")
    st = [l for l in S(E, ulu).logged("store") if l.fn == ulu.short and l.target == ("attr", ("name", "self"), "last_used")]
    mono = bool(st)
    for l_ in st:
        as_max = is_(l_.value, "max(self.last_used, new_t)") is not None
        guarded = l_.value == ("name", "new_t") and any(is_(x, "self.last_used < new_t") is not None or is_(x, "self.last_used <= new_t") is not None for x in sym.conj_of(l_.cond))
        mono = mono and (as_max or guarded)
    rep.check(mono, "FLOW", "_QubitRef.update_last_used|monotone", "last_used = max(last_used, new_t)", "update_last_used is no longer monotone (max)", E.where(ulu))
    lp = [f for f in pt.methods.get("last_phase", [])][0]
    lt = [f for f in pt.methods.get("last_time", [])][0]
    rep.check(is_(S(E, lp).ret, "self._phases[-1]") is not None and is_(S(E, lt).ret, "self._times[-1]") is not None, "FLOW", "_PhaseTracker|last-entries", "last_phase/last_time read the last entries", "last_phase/last_time no longer read the last entry", E.where(lp))

    # ------------------------------------------------------ Sequence._add
    add = E.method(SEQ, "_add")
    vadj = E.method(SEQ, "_validate_and_adjust_pulse")
    ps = E.method(SEQ, "_phase_shift")
    Sadd = S(E, add)
    own = [l for l in Sadd.log if l.fn == add.short]
    c_v = [l for l in own if l.kind == "call" and l.target == ("attr", ("name", "self"), "_validate_and_adjust_pulse")]
    c_ap = [l for l in own if l.kind == "call" and l.target is not None and l.target[0] == "attr" and l.target[2] == "add_pulse"]
    if not c_v or not c_ap:
        raise AnalysisError("anchor: _add no longer calls _validate_and_adjust_pulse / add_pulse")
    ch_p = ("name", "channel")
    last = sym.Pattern("self._schedule[channel][-1]").term
    basis = ("attr", ("attr", ("idx", ("attr", ("name", "self"), "_schedule"), ch_p), "channel_obj"), "basis")

    def ref_comp(t, field: str):
        """t is a comprehension over the last slot's targets of _basis_ref[basis][q].phase.<field>."""
        if t is None or t[0] != "comp" or len(t[3]) != 1:
            return False
        m = is_(t[2], f"self._basis_ref[Q_b][Q_q].phase.{field}") or is_(t[2], f"float(self._basis_ref[Q_b][Q_q].phase.{field})")
        return m is not None and m["Q_b"] == basis and t[3][0][0] == ("attr", last, "targets") and elem_of(m["Q_q"], t[3][0][0])

    pr = arg(c_v[-1], 2, "phase_ref")
    m = has(pr, "Q_c.pop()")
    rep.check(m is not None and ref_comp(unobj(m["Q_c"]), "last_phase"), "FLOW", "Sequence._add|phase_ref-from-targets-last_phase", "phase_ref = last_phase of the targets of the channel's last slot (in the channel's basis)", f"phase_ref is no longer the common last_phase of the last slot's targets in the channel's basis: {sh(pr, 220)}", E.where(add, c_v[-1].node))
    # inside _validate_and_adjust_pulse: returned pulse phase = pulse.phase + phase_ref
    rv = S(E, vadj).ret
    pulses = [c for c in sym.subterms(rv) if c[0] == "call" and c[1] == ("name", "Pulse")]
    from .symutil import push_ifexp as _push

    want_ph = _push(sym.Pattern("pulse.phase + (phase_ref if phase_ref else 0)").term)
    ok = bool(pulses) and all(_kwarg(c, 2, "phase") is not None and (_push(_kwarg(c, 2, "phase")) == want_ph or is_(_kwarg(c, 2, "phase"), "pulse.phase + phase_ref") is not None) for c in pulses)
    rep.check(ok, "FLOW", "_validate_and_adjust_pulse|phase=pulse.phase+phase_ref", "scheduled phase = programmed phase + reference", f"the returned pulse's phase is no longer pulse.phase + phase_ref: {[sh(_kwarg(c, 2, 'phase'), 80) for c in pulses]}", E.where(vadj))
    ok = all(_kwarg(c, 3, "post_phase_shift") == sym.Pattern("pulse.post_phase_shift").term for c in pulses) and bool(pulses)
    rep.check(ok, "FLOW", "_validate_and_adjust_pulse|keeps-post_phase_shift", "the adjusted pulse keeps the programmed post_phase_shift", "the adjusted pulse no longer carries pulse.post_phase_shift", E.where(vadj))
    pb = arg(c_ap[-1], 2, "phase_barrier_ts")
    rep.check(ref_comp(pb, "last_time"), "FLOW", "Sequence._add|barriers-from-targets-last_time", "phase barriers = last_time of the targets", f"the phase barriers are no longer the last_time of the last slot's targets in the channel's basis: {sh(pb, 200)}", E.where(add, c_ap[-1].node))
    # same basis for ref and barriers and the post shift
    bases = set()
    for l in own:
        for t in (l.target, l.value):
            for x in sym.subterms(t) if t is not None else ():
                if x[0] == "idx" and x[1] == ("attr", ("name", "self"), "_basis_ref"):
                    bases.add(x[2])
    rep.check(bases == {basis}, "FLOW", "Sequence._add|single-basis", "all phase bookkeeping indexes _basis_ref[basis] of the channel", f"_add indexes _basis_ref with {[sh(b, 60) for b in bases]}", E.where(add))
    # update_last_used(new slot tf) for qubit in last.targets, after add_pulse
    ulu_calls = [l for l in own if l.kind == "call" and l.target is not None and l.target[0] == "attr" and l.target[2] == "update_last_used"]
    ok = bool(ulu_calls)
    for l in ulu_calls:
        recv = is_(l.target[1], "self._basis_ref[Q_b][Q_q]")
        ok = ok and recv is not None and recv["Q_b"] == basis and elem_of(recv["Q_q"], ("attr", last, "targets")) and arg(l, 0) == ("attr", last, "tf") and own.index(l) > own.index(c_ap[-1])
        # ... whenever the pulse was added: not only when it carries a post-phase-shift
        ok = ok and set(sym.conj_of(l.cond)) <= set(sym.conj_of(c_ap[-1].cond))
    rep.check(ok, "FLOW", "Sequence._add|update_last_used(new-slot-end)", "each target's last_used is advanced to the new pulse's end", "last_used is no longer advanced, for each target of the pulse, to the end of the channel's last slot read after add_pulse", E.where(add))
    c_ps = [l for l in own if l.kind == "call" and l.target == ("attr", ("name", "self"), "_phase_shift")]
    ok = bool(c_ps)
    for l in c_ps:
        a0 = arg(l, 0)
        stars = [a for a in l.value[2][1:] if a[0] == "star"]
        bs = arg(l, -1, "basis")
        sched_pulse = arg(c_ap[-1], 0, "pulse")
        # ... on every alternative of the value (with and without a drift correction the pulse's own shift is part of it)
        from .symutil import branches as _br7

        ok = ok and a0 is not None and all(sym.contains(leaf_, ("attr", sched_pulse, "post_phase_shift")) for _c7, leaf_ in _br7(a0)) and len(stars) == 1 and len(l.value[2]) == 2 and stars[0][1] == ("attr", last, "targets") and bs == basis and own.index(l) > own.index(c_ap[-1])
    rep.check(ok, "FLOW", "Sequence._add|post_phase_shift-applied-to-targets", "_phase_shift(post_phase_shift [- drift], *last.targets, basis=basis)", "the post-phase-shift is no longer applied (after the pulse is added) to the pulse's targets in the channel's basis", E.where(add))
    # one reference object per atom: every table stored into _basis_ref is {q: _QubitRef() for q in <qubit ids>}
    # (dict.fromkeys(ids, _QubitRef()) would make all atoms share one reference)
    n_tab = 0
    for g in E.P.all_functions():
        if g.module.name != "pulser.sequence.sequence" or g.kind == "overload" or "_basis_ref" not in norm(g.node):
            continue
        for l in S(E, g, inline=False).logged("store"):
            if l.target is None or l.target[0] != "idx" or l.target[1] != ("attr", ("name", "self"), "_basis_ref") or l.fn != g.short:
                continue
            n_tab += 1
            v = unobj(l.value)
            fresh = v[0] == "comp" and v[1] == "dict" and len(v[3]) == 1 and v[2][0] == "tuple" and unobj(v[2][2]) == ("call", ("name", "_QubitRef"), (), ()) and v[2][1] == ("elem", v[3][0][0], 0)
            rep.check(fresh, "FLOW", f"{g.short}|one-_QubitRef-per-atom", "the reference table is {q: _QubitRef() for q in ids}: one object per atom", f"{g.short} stores `{sh(v, 100)}` as the phase-reference table of a basis: every atom must get its own _QubitRef (a shared object makes a phase shift on one atom shift all of them)", E.where(g, l.node))
    if n_tab < 2:
        rep.error(f"only {n_tab} phase-reference tables found (expected declare_channel and _config_detuning_map)")
    # every Pulse constructor forwards each of its parameters to the pulse it returns (a dropped post_phase_shift
    # would silently leave the phase reference unchanged)
    pcls = E.cls("pulser.pulse.Pulse")
    n_ctor = 0
    for nm_, fs_ in pcls.methods.items():
        for g in fs_:
            if g.kind != "classmethod":
                continue
            n_ctor += 1
            rg = S(E, g).ret
            missing = [p_ for p_ in g.params[1:] if rg is None or not sym.contains(rg, ("name", p_))]
            rep.check(not missing, "FLOW", f"Pulse.{nm_}|forwards-every-parameter", "the returned pulse depends on every parameter of the constructor", f"Pulse.{nm_} no longer uses its parameter(s) {missing} in the pulse it returns", E.where(g))
    if n_ctor < 3:
        rep.error(f"only {n_ctor} Pulse classmethod constructors found")
    # the scheduler may re-create the pulse (phase-drift correction): it keeps every field but the phase
    mn = E.method(SCHED, "make_next_pulse_slot")
    for l in [l for l in S(E, mn).calls("Pulse") if l.fn == mn.short]:
        got = {k: _kwarg(l.value, i, k) for i, k in enumerate(("amplitude", "detuning", "phase", "post_phase_shift"))}
        ok = all(got[k] == ("attr", ("name", "pulse"), k) for k in ("amplitude", "detuning", "post_phase_shift"))
        rep.check(ok, "FLOW", "make_next_pulse_slot|corrected-pulse-keeps-fields", "the drift-corrected pulse keeps amplitude, detuning and post_phase_shift of the given pulse", f"the pulse re-created in make_next_pulse_slot drops or changes a field: { {k: sh(v, 40) for k, v in got.items()} }", E.where(mn, l.node))
    # _phase_shift increments every id
    Sps = S(E, ps)
    incs = [l for l in Sps.calls("increment_phase") if l.fn == ps.short]
    ok = bool(incs)
    for l in incs:
        recv = is_(l.target[1], "self._basis_ref[basis][Q_q]")
        ok = ok and recv is not None and recv["Q_q"][0] == "elem" and l.loops and recv["Q_q"][1] == l.loops[-1] and mentions(l.loops[-1], "_check_qubits_give_ids") and is_(arg(l, 0), "float(phi)") is not None
    rep.check(ok, "FLOW", "Sequence._phase_shift|increments-every-target", "for qubit in target_ids: increment_phase(phi)", "_phase_shift no longer increments, by phi, the phase reference of every checked target in the given basis", E.where(ps))
    # multi-target guard: the scheduling call happens only when the targets share one reference
    tg = E.method(SEQ, "_target")
    Stg = S(E, tg)
    c_at = [l for l in Stg.log if l.fn == tg.short and l.kind == "call" and l.target is not None and l.target[0] == "attr" and l.target[2] == "add_target"]
    for f, calls in ((add, c_ap), (tg, c_at)):
        ok = bool(calls)
        from .symutil import dnf as _dnf7

        for l in calls:
            # on every alternative of the path condition that is not the DMM branch (a DMM has no phase reference) the
            # targets share one reference: `len({last_phase of the targets}) == 1` is a conjunct, not one side of an `or`
            for conj_ in _dnf7(l.cond):
                if any(is_(x, "isinstance(Q_o, DMM)") is not None for x in conj_):
                    continue
                hit = None
                for x in conj_:
                    hit = hit or is_(x, "len(Q_c) == 1")
                ok = ok and hit is not None and unobj(hit["Q_c"])[0] == "comp" and mentions(unobj(hit["Q_c"])[2], "last_phase")
        rep.check(ok, "GUARD", f"{f.short}|single-phase-reference", "targets with different phase references are rejected", f"{f.short} no longer rejects targets with different phase references before scheduling", E.where(f))
    # ... "the same reference" means equal MODULO 2pi up to float rounding: references are stored as (prev + phi) % 2pi, so
    # equal sums reached through different histories differ by an ulp or sit on the two sides of the wrap (2pi - 1e-16 vs
    # 0.0).  Counting the distinct raw floats of a set comprehension treats those as different references.
    raw_sets = []
    for f in (add, tg, E.method(SEQ, "estimate_added_delay")):
        for l in S(E, f).log:
            for x in sym.conj_of(l.cond):
                m_ = is_(x, "len(Q_c) == 1") or is_(x, "len(Q_c) != 1")
                if m_ is not None and unobj(m_["Q_c"])[0] == "comp" and unobj(m_["Q_c"])[1] == "set" and mentions(unobj(m_["Q_c"])[2], "last_phase"):
                    raw_sets.append((f, l))
    seen_f = set()
    for f, l in raw_sets:
        if f.short in seen_f:
            continue
        seen_f.add(f.short)
        rep.violation("GUARD", f"{f.short}|phase-references-compared-modulo-2pi", f"{f.short} decides whether the targets share a phase reference by counting the distinct floats in `{{... .last_phase for q in targets}}`: references equal modulo 2pi but reached through different shift histories (0.1 + 0.2 vs 0.3; -0.3 + 2pi) differ in the last bit or across the wrap, and the pulse / retarget is refused", E.where(f, l.node))
    if not raw_sets:
        rep.ok("GUARD", "phase-references-compared-modulo-2pi", "no exact-float set comparison of phase references", E.where(add))
    # every phase assignment records its time: _PhaseTracker.__setitem__ has no early exit (a shift that leaves the wrapped
    # value unchanged -- 0, 2pi -- is still the atom's latest phase shift, which later pulses must not precede)
    psi = E.method("pulser.sequence._basis_ref._PhaseTracker", "__setitem__")
    early = [l for l in S(E, psi).logged("return") if l.cond != sym.TRUE and l.fn == psi.short]
    rep.check(not early, "FLOW", "_PhaseTracker.__setitem__|every-assignment-recorded", "no conditional return before the (time, phase) entry is stored", f"_PhaseTracker.__setitem__ returns early under `{sh(early[0].cond, 80) if early else ''}`: a phase shift that leaves the value unchanged is not recorded, the atom's last-shift time does not move, and a later 'no-delay' pulse on that atom may start before its latest phase shift", E.where(psi, early[0].node if early else None))
    # Pulse.__init__ modulo
    pin = E.fn("pulser.pulse.Pulse.__init__")
    sets = {}
    for l in S(E, pin).calls("__setattr__"):
        a = l.value[2]
        if len(a) == 3 and a[1][0] == "const":
            sets[a[1][1]] = a[2]
    for l in S(E, pin).logged("store"):
        if l.target is not None and l.target[0] == "attr" and l.target[1] == ("name", "self"):
            sets[l.target[2]] = l.value
    ok = all(k in sets and is_(sets[k], MOD2PI) is not None for k in ("phase", "post_phase_shift"))
    rep.check(ok, "FLOW", "Pulse.__init__|phase-mod-2pi", "phase and post_phase_shift reduced modulo 2*pi", f"Pulse.__init__ stores phase={sh(sets.get('phase'), 60)}, post_phase_shift={sh(sets.get('post_phase_shift'), 60)}: both must be reduced modulo 2*pi", E.where(pin))
    # the per-basis reference table is initialised once: every `_basis_ref[b] = {...}` is guarded by `b not in self._basis_ref`
    n_init = 0
    for fs in E.cls(SEQ).methods.values():
        for g in fs:
            if g.kind == "overload" or "_basis_ref" not in norm(g.node):
                continue
            for l in S(E, g, inline=False).logged("store"):
                if l.fn == g.short and l.target is not None and l.target[0] == "idx" and l.target[1] == ("attr", ("name", "self"), "_basis_ref"):
                    n_init += 1
                    key = l.target[2]
                    guard = sym.mk_cmp("NotIn", key, ("attr", ("name", "self"), "_basis_ref"))
                    rep.check(guard in sym.conj_of(l.cond), "GUARD", f"{g.short}|basis-ref-initialised-once|{sh(key, 40)}", "phase references of a basis are created only if the basis has none yet", f"`self._basis_ref[{sh(key, 40)}] = ...` in {g.short} is not guarded by `{sh(key, 40)} not in self._basis_ref`: declaring another channel on the same basis would reset every accumulated phase reference and barrier", E.where(g, l.node))
    if n_init < 2:
        rep.error(f"only {n_init} initialisations of _basis_ref found (expected 2)")
    # EOM drift bookkeeping: the drift window starts where the buffer starts --
    # after the fall time iff enable_eom waits for it (include_fall_time == not _skip_wait_for_fall)
    for mname in ("enable_eom_mode", "modify_eom_setpoint"):
        m_ = E.method(SEQ, mname)
        Sm = S(E, m_)
        en = [l for l in Sm.log if l.fn == m_.short and l.kind == "call" and l.target is not None and l.target[0] == "attr" and l.target[2] == "enable_eom"]
        dp = [l for l in Sm.log if l.fn == m_.short and l.kind == "call" and l.target == ("name", "_PhaseDriftParams")]
        if not en or not dp:
            raise AnalysisError(f"anchor: {mname} no longer calls enable_eom / _PhaseDriftParams")
        skip = arg(en[-1], -1, "_skip_wait_for_fall")
        skips = skip == ("const", True)
        ti = arg(dp[-1], -1, "ti")
        mt = is_(ti, "self.get_duration(channel, include_fall_time=Q_f)") or (is_(ti, "self.get_duration(channel)") and {"Q_f": ("const", False)})
        if mt is None and any(is_(t, "self._last(channel).ti") is not None or is_(t, "self._schedule[channel][-1].ti") is not None for t in sym.subterms(ti)):
            # the start is read from the buffer slot that enable_eom actually scheduled: by construction it starts where the
            # buffer starts, whether or not enable_eom waited for the fall time (decided in detail by C15)
            rep.ok("FLOW", f"Sequence.{mname}|drift-window-starts-with-buffer", "drift start read from the scheduled buffer slot", E.where(m_))
            continue
        flag = mt["Q_f"] == ("const", True) if mt and mt["Q_f"][0] == "const" else None
        rep.check(flag is not None and flag == (not skips) and (skip is None or skip[0] == "const"), "FLOW", f"Sequence.{mname}|drift-window-starts-with-buffer", f"drift start uses include_fall_time={not skips} because enable_eom is called with _skip_wait_for_fall={skips}",
                  f"in {mname} the phase-drift window starts at {sh(ti, 80)} while the buffer is added with _skip_wait_for_fall={sh(skip)}: the drift accumulated between the two instants is not corrected", E.where(m_))
    rep.floor("FLOW", 16)
    rep.floor("GUARD", 4)
    return {"phase_writes": n_w}


def _kwarg(call, index: int, name: str):
    for k, v in call[3]:
        if k == name:
            return v
    return call[2][index] if index < len(call[2]) else None
