"""C08 - align() on a parametrized sequence rejects a DMM channel whose
config_detuning_map()/config_slm_mask() call is stored for build time.

The same program, issued directly with the evaluated values, is accepted.
"""
import sys
import warnings

from pulser import Pulse, Register, Sequence
from pulser.devices import DigitalAnalogDevice
from pulser.waveforms import ConstantWaveform

warnings.simplefilter("ignore")

reg = Register({"q0": (0, 0), "q1": (5, 0), "q2": (10, 0)})
dmap = reg.define_detuning_map({"q0": 1.0, "q1": 0.5})


def program(seq, dur):
    seq.declare_channel("ryd", "rydberg_global")
    seq.add(Pulse.ConstantPulse(dur, 1.0, 0.0, 0.0), "ryd")
    seq.config_detuning_map(dmap, "dmm_0")
    seq.add_dmm_detuning(ConstantWaveform(100, -1.0), "dmm_0")
    seq.align("ryd", "dmm_0")
    seq.add_dmm_detuning(ConstantWaveform(100, -2.0), "dmm_0")


def slots(seq):
    return {
        ch: [(type(s.type).__name__, int(s.ti), int(s.tf)) for s in sch.slots]
        for ch, sch in seq._schedule.items()
    }


direct = Sequence(reg, DigitalAnalogDevice)
program(direct, 200)

templ = Sequence(reg, DigitalAnalogDevice)
dur = templ.declare_variable("dur", dtype=int)
try:
    program(templ, dur)
    built = templ.build(dur=200)
except Exception as e:  # noqa
    print(f"FAIL: parametrized program raised {type(e).__name__}: {e}")
    sys.exit(1)

if slots(built) != slots(direct):
    print("FAIL: built sequence differs from the direct construction")
    print(" direct:", slots(direct))
    print(" built :", slots(built))
    sys.exit(1)
print("PASS")
