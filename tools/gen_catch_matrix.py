#!/usr/bin/env python3
"""Write the catch matrix (which check reports which independent change) into DESIGN.md section 10.

Reads seeded/*/meta.json (refresh them first with `python3-vt tools/recheck_seeded.py`) and benign/*.
The text between <!-- CATCH-MATRIX-BEGIN --> and <!-- CATCH-MATRIX-END --> in DESIGN.md is replaced.
"""
import json
import os
import re

VERIF = os.path.dirname(os.path.dirname(os.path.abspath(__file__)))


def one_line(meta: dict) -> str:
    t = (meta.get("needs_to_manifest") or "").split("\n")[0]
    t = re.sub(r"^Change:\s*", "", t)
    t = t.replace("|", "\\|")
    return t[:170] + ("…" if len(t) > 170 else "")


def main() -> None:
    rows = []
    missed = []
    names = sorted(os.listdir(os.path.join(VERIF, "seeded")))
    for n in names:
        mp = os.path.join(VERIF, "seeded", n, "meta.json")
        if not os.path.exists(mp):
            continue
        m = json.load(open(mp))
        rb = m.get("reported_by", {})
        by = "; ".join(f"**{k}** " + ", ".join(sorted({r.split("rule=")[-1].split(" ")[0] + ":" + r.split("instance=")[-1].split("|")[-1][:40] for r in v.get("reports", [])})[:2]) for k, v in sorted(rb.items()))
        if not rb:
            missed.append(n)
            by = "— *(not decided statically, see below)*"
        rows.append(f"| {n} | {one_line(m)} | {by} |")
    nb = len([d for d in os.listdir(os.path.join(VERIF, "benign")) if os.path.exists(os.path.join(VERIF, "benign", d, "patch.diff"))])
    r1 = [n for n in names if "-r2" not in n]
    r2 = [n for n in names if "-r2" in n]
    out = []
    out.append(f"Seeded (breaking) changes kept: {len(names)} ({len(r1)} in round 1, {len(r2)} in round 2); reported by at least one check: {len(names) - len(missed)}; not reported: {len(missed)} ({', '.join(missed) or 'none'}).")
    out.append(f"Benign (behaviour-preserving) refactorings kept: {nb}; every check is silent on every one of them (`tools/sweep.py --benign`).")
    out.append("")
    out.append("| change | what was changed (first line of the agent's note) | reported by (rule: instance) |")
    out.append("|---|---|---|")
    out += rows
    text = "\n".join(out) + "\n"
    p = os.path.join(VERIF, "DESIGN.md")
    s = open(p).read()
    b, e = "<!-- CATCH-MATRIX-BEGIN -->\n", "<!-- CATCH-MATRIX-END -->\n"
    if b in s and e in s:
        s = s[: s.index(b) + len(b)] + text + s[s.index(e):]
        open(p, "w").write(s)
        print(f"catch matrix written: {len(rows)} rows, {len(missed)} missed")
    else:
        print(text)


if __name__ == "__main__":
    main()
