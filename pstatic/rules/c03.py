"""C03 -- addressing-conflict protocols: no conflict, minimal delay, exact estimate, align."""
from __future__ import annotations

import ast

from ..absval import abstractor
from ..engine import CHS, SCHED, SEQ, Engine
from ..model import AnalysisError, dotted, norm
from ..report import Report
from .common import arg_of, av, calls_to, must_pass, one_call, own_nodes, returns

EXPLANATION = (
    "SIB: Sequence.estimate_added_delay and Sequence._add obtain the next slot from the same function (_Schedule.make_next_pulse_slot, directly resp. through add_pulse, which forwards its parameters unchanged) "
    "with pairwise identical argument provenance (validated pulse incl. phase reference, channel, phase barriers, protocol); the estimate returns slot.ti - last.tf and add_pulse inserts exactly that -- "
    "'predicted delay equals inserted delay' holds by construction. GUARD/TABLE: protocol literals used by the scheduler are members of PROTOCOLS; _find_add_delay is skipped iff protocol == 'no-delay'; "
    "the conflict test is `targets overlap or protocol == 'wait-for-all'`; the channel itself is skipped; _validate_add_protocol dominates both entry points. FLOW: every use of another channel's op.tf "
    "is op.tf + fall_time(...) for pulses and op.tf + 2*rise_time for non-pulses; the start time is max(t0, *phase barriers). ALIGN: the alignment target is the max over channels of the end "
    "(with fall time iff at_rest) and each channel is delayed by target - its *plain* end. NOT decided: minimality ('earliest instant') and numerical fall times."
)
ASSUMPTIONS = ["provenance equality is structural (roots and wrapper tags of the argument expressions)"]


def run(E: Engine, rep: Report, tier: str) -> dict:
    add = E.method(SEQ, "_add")
    est = E.method(SEQ, "estimate_added_delay")
    ap = E.method(SCHED, "add_pulse")
    mn = E.method(SCHED, "make_next_pulse_slot")
    fad = E.method(SCHED, "_find_add_delay")
    vap = E.method(SEQ, "_validate_add_protocol")

    # ---------------------------------------------------------------- SIB
    c_add = one_call(E, add, ap)
    c_est = one_call(E, est, mn)
    pairs = [("pulse", "pulse"), ("channel", "channel"), ("phase_barrier_ts", "phase_barrier_ts"), ("protocol", "protocol")]
    for pa, pe in pairs:
        a1, a2 = arg_of(c_add, ap, pa), arg_of(c_est, mn, pe)
        if a1 is None or a2 is None:
            rep.violation("SIB", f"estimate-vs-add|{pa}", f"argument '{pa}' is not passed on one side (add: {norm(a1) if a1 is not None else None}, estimate: {norm(a2) if a2 is not None else None})", E.where(est, c_est))
            continue
        v1, v2 = av(E, add, a1), av(E, est, a2)
        rep.check(v1 == v2, "SIB", f"estimate-vs-add|{pa}", f"same provenance on both sides ({len(v1.roots)} roots)",
                  f"estimate_added_delay and _add compute '{pa}' differently: only in _add {sorted(v1.roots - v2.roots)[:6]} {sorted(v1.tags - v2.tags)}, only in estimate {sorted(v2.roots - v1.roots)[:6]} {sorted(v2.tags - v1.tags)}", E.where(est, c_est))
    # the validated pulse on both sides comes from _validate_and_adjust_pulse(pulse, channel, phase_ref)
    vadj = E.method(SEQ, "_validate_and_adjust_pulse")
    for f in (add, est):
        cs = calls_to(E, f, vadj)
        full = [e.node for _n, e in cs if len(e.node.args) + len(e.node.keywords) >= 3]
        rep.check(bool(full), "SIB", f"{f.short}|validates-with-phase-ref", "_validate_and_adjust_pulse(pulse, channel, phase_ref)", f"{f.short} no longer passes the phase reference to _validate_and_adjust_pulse", E.where(f))
    # add_pulse forwards its parameters unchanged
    c_fw = one_call(E, ap, mn)
    fw_ok = True
    for i, pn in enumerate(["pulse", "channel", "phase_barrier_ts", "protocol", "phase_drift_params"]):
        a = arg_of(c_fw, mn, pn)
        if not (isinstance(a, ast.Name) and a.id == pn):
            fw_ok = False
    rep.check(fw_ok, "SIB", "_Schedule.add_pulse|forwards-parameters", "add_pulse hands its own parameters to make_next_pulse_slot unchanged", f"add_pulse alters an argument before computing the slot: {norm(c_fw)}", E.where(ap, c_fw))
    # the estimate returns slot.ti - last.tf
    ok = False
    for r in returns(est):
        v = av(E, est, r.value)
        ok = "Sub" in v.tags and any(x.endswith("make_next_pulse_slot().ti") for x in v.roots) and any(x.endswith("_last().tf") for x in v.roots) and not ({"Add", "Mult"} & v.tags)
    rep.check(ok, "SIB", "estimate_added_delay|returns-slot.ti-last.tf", "returns next_slot.ti - last.tf", "the estimate is no longer slot.ti - last.tf (add_pulse inserts exactly slot.ti - last.tf)", E.where(est))
    rep.floor("SIB", 8)

    # -------------------------------------------------------------- GUARD
    seqmod = E.P.module("pulser.sequence.sequence")
    protocols = set(E.P.fold(seqmod, seqmod.assigns["PROTOCOLS"]))
    used = set()
    for f in E.P.all_functions():
        if f.module.name != "pulser.sequence._schedule":
            continue
        for n in ast.walk(f.node):
            if isinstance(n, ast.Compare) and "protocol" in norm(n.left) and isinstance(n.comparators[0], ast.Constant) and isinstance(n.comparators[0].value, str):
                used.add(n.comparators[0].value)
            if isinstance(n, ast.keyword) and n.arg == "protocol" and isinstance(n.value, ast.Constant):
                used.add(n.value.value)
    rep.check(used <= protocols and {"no-delay", "wait-for-all"} <= used, "GUARD", "scheduler|protocol-literals⊆PROTOCOLS", f"{sorted(used)} ⊆ {sorted(protocols)}", f"protocol literals {sorted(used - protocols)} are not in PROTOCOLS {sorted(protocols)} / expected literals missing", E.where(mn))
    # _find_add_delay is called under `protocol != "no-delay"` only
    ab = abstractor(E.flow(mn))
    for _n, e in calls_to(E, mn, fad):
        dnf = ab.enclosing_conditions(e.node)
        ok = len(dnf) == 1 and len(dnf[0]) == 1 and dnf[0][0].atom is not None and dnf[0][0].atom.rel == "NotEq" and "protocol" in dnf[0][0].atom.lhs.roots and "const:'no-delay'" in dnf[0][0].atom.rhs.roots
        rep.check(ok, "GUARD", "make_next_pulse_slot|conflict-scan-iff-not-no-delay", "other channels are scanned iff protocol != 'no-delay'", f"the conflict scan is conditioned on {[' AND '.join(l.show() for l in c) for c in dnf]}", E.where(mn, e.node))
    # conflict test
    ok_conf = False
    ok_skip = False
    # the innermost loop variable is the slot being examined
    inner_vars = [n.target.id for n in own_nodes(fad) if isinstance(n, ast.For) and isinstance(n.target, ast.Name)]
    for n in own_nodes(fad):
        if isinstance(n, ast.BoolOp) and isinstance(n.op, ast.Or) and len(n.values) == 2:
            a, b = n.values
            if isinstance(a, ast.BinOp) and isinstance(a.op, ast.BitAnd) and norm(b).replace('"', "'") == "protocol == 'wait-for-all'":
                sides = {norm(a.left).replace(" ", ""), norm(a.right).replace(" ", "")}
                examined = {f"{v}.targets" for v in inner_vars}
                ok_conf = bool(sides & examined) and "self[channel][-1].targets" in sides
        if isinstance(n, ast.If) and norm(n.test) == "ch == channel" and isinstance(n.body[0], ast.Continue):
            ok_skip = True
    rep.check(ok_conf, "GUARD", "_find_add_delay|conflict=overlap-or-wait-for-all", "conflict iff the examined slot's targets overlap the new pulse's targets, or protocol == 'wait-for-all'", "the conflict test is no longer `<examined slot>.targets & self[channel][-1].targets or protocol == 'wait-for-all'` (it must compare the targets the other pulse had, not the other channel's current targets)", E.where(fad))
    rep.check(ok_skip, "GUARD", "_find_add_delay|skips-own-channel", "the channel itself is skipped", "the scan no longer skips the channel the pulse is added to", E.where(fad))
    for f in (add, est):
        rep.check(must_pass(E, f, vap), "GUARD", f"{f.short}|validates-protocol", "_validate_add_protocol on every path", f"{f.short} can proceed without validating the protocol", E.where(f))
    rep.floor("GUARD", 6)

    # --------------------------------------------------------------- FLOW
    n_uses = 0
    for n in own_nodes(fad):
        tgt = None
        if isinstance(n, ast.Assign) and "op.tf" in norm(n.value):
            tgt = n.value
        elif isinstance(n, ast.Compare) and "op.tf" in norm(n.left):
            tgt = n.left
        if tgt is None:
            continue
        n_uses += 1
        v = av(E, fad, tgt)
        has_fall = any(r.endswith(".fall_time()") for r in v.roots)
        has_rise = any(r.endswith(".rise_time") for r in v.roots) and "Mult" in v.tags and "const:2" in v.roots
        rep.check("Add" in v.tags and (has_fall or has_rise), "FLOW", f"_find_add_delay|op.tf+ramp-down|{'fall' if has_fall else 'rise' if has_rise else 'none'}|{type(n).__name__}", "the other channel's end is extended by the fall time (pulse) or 2*rise_time (non-pulse)",
                  f"`{norm(tgt)}` uses another channel's end without its fall time: a pulse could start while the other is still ramping down", E.where(fad, n))
    if n_uses < 3:
        rep.error(f"only {n_uses} uses of op.tf found in _find_add_delay (expected 3)")
    # fall_time evaluated in the other channel's EOM state
    ok = all("in_eom_mode=in_eom_mode" in norm(n) for n in own_nodes(fad) if isinstance(n, ast.Call) and isinstance(n.func, ast.Attribute) and n.func.attr == "fall_time")
    rep.check(ok, "FLOW", "_find_add_delay|fall_time-in-other-channel-eom-state", "fall_time(this_chobj, in_eom_mode=<that channel's state>)", "fall_time is no longer evaluated with the other channel's EOM state", E.where(fad))
    # start = max(t0, *phase barriers)
    okb = False
    for n in own_nodes(mn):
        if isinstance(n, ast.Call) and (dotted(n.func) or "") == "max" and any(isinstance(a, ast.Starred) and norm(a.value) == "phase_barrier_ts" for a in n.args):
            okb = True
    rep.check(okb, "FLOW", "make_next_pulse_slot|start>=phase-barriers", "current_max_t = max(t0, *phase_barrier_ts)", "the phase-shift barriers no longer bound the start time from below", E.where(mn))
    # Pulse.fall_time: both waveforms contribute their END buffer, combined by max, plus the rise time
    pft = E.fn("pulser.pulse.Pulse.fall_time")
    mx = [n for n in own_nodes(pft) if isinstance(n, ast.Call) and (dotted(n.func) or "") == "max" and len(n.args) == 2]
    ok = False
    if mx:
        a, b = mx[0].args
        ta, tb = norm(a).replace("self.amplitude", "W"), norm(b).replace("self.detuning", "W")
        both_end = all(isinstance(x, ast.Subscript) and isinstance(x.slice, ast.Constant) and x.slice.value == 1 and "modulation_buffers" in norm(x.value) for x in (a, b))
        ok = ta == tb and both_end and "self.amplitude" in norm(a) and "self.detuning" in norm(b)
    rep.check(ok, "FLOW", "Pulse.fall_time|max-of-both-end-buffers", "fall time uses the END modulation buffer ([1]) of both the amplitude and the detuning, combined by max", f"Pulse.fall_time combines {[norm(x) for x in (mx[0].args if mx else [])]}: amplitude and detuning must both contribute their end buffer", E.where(pft))
    ret = returns(pft)
    v = av(E, pft, ret[0].value) if ret else None
    rep.check(v is not None and "Add" in v.tags and any(r.endswith("rise_time") for r in v.roots), "FLOW", "Pulse.fall_time|plus-rise_time", "fall time = rise time + end buffer", "Pulse.fall_time no longer adds the rise time", E.where(pft))
    from .c10 import _lookback

    _lookback(E, rep)
    rep.floor("FLOW", 7)

    # -------------------------------------------------------------- ALIGN
    al = E.method(SEQ, "align")
    gd = E.method(SEQ, "get_duration")
    tf_ok = False
    delta_ok = None
    for n in own_nodes(al):
        if isinstance(n, ast.Assign) and isinstance(n.targets[0], ast.Name) and n.targets[0].id == "tf" and isinstance(n.value, ast.Call) and (dotted(n.value.func) or "") == "max":
            src = norm(n.value)
            v = av(E, al, n.value)
            tf_ok = any(r.endswith("get_duration()") for r in v.roots) and "arg<-at_rest" in v.roots
        if isinstance(n, ast.Assign) and isinstance(n.targets[0], ast.Name) and n.targets[0].id == "delta" and isinstance(n.value, ast.BinOp) and isinstance(n.value.op, ast.Sub):
            right = n.value.right
            call = _resolve_duration_call(al, right)
            if call is None:
                delta_ok = (False, norm(right))
            else:
                kw = [k for k in call.keywords if k.arg == "include_fall_time"]
                plain = (not kw or (isinstance(kw[0].value, ast.Constant) and kw[0].value.value is False)) and len(call.args) <= 1
                delta_ok = (plain and norm(n.value.left) == "tf", norm(call))
    rep.check(tf_ok, "ALIGN", "Sequence.align|target=max(end incl. fall time iff at_rest)", "tf = max over channels of get_duration(id, include_fall_time=at_rest)", "the alignment target is no longer the max of the channel ends with include_fall_time=at_rest", E.where(al))
    if delta_ok is None:
        raise AnalysisError("anchor: `delta = tf - ...` not found in Sequence.align")
    rep.check(delta_ok[0], "FLOW", "Sequence.align|delta-subtracts-plain-end", "delta = tf - get_duration(id)  (the delay is appended at the plain end)",
              f"align delays a channel by tf - {delta_ok[1]}: the subtrahend includes the channel's own fall time although the delay is appended at its plain end, so channels do not end together at the latest at-rest time", E.where(al))
    rep.floor("ALIGN", 1)
    return {"uses_of_other_channel_end": n_uses}


def _resolve_duration_call(f, e: ast.AST):
    """get_duration(...) call denoted by e: directly, or through `d[id]` with d = {id: get_duration(...) ...}."""
    if isinstance(e, ast.Call) and isinstance(e.func, ast.Attribute) and e.func.attr == "get_duration":
        return e
    if isinstance(e, ast.Subscript) and isinstance(e.value, ast.Name):
        for n in ast.walk(f.node):
            if isinstance(n, ast.Assign) and isinstance(n.targets[0], ast.Name) and n.targets[0].id == e.value.id and isinstance(n.value, ast.DictComp):
                v = n.value.value
                if isinstance(v, ast.Call) and isinstance(v.func, ast.Attribute) and v.func.attr == "get_duration":
                    return v
    if isinstance(e, ast.Name):
        for n in ast.walk(f.node):
            if isinstance(n, ast.Assign) and isinstance(n.targets[0], ast.Name) and n.targets[0].id == e.id:
                return _resolve_duration_call(f, n.value)
    return None
