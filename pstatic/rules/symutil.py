"""Helpers for rules written over the symbolic normal form (pstatic/sym.py)."""
from __future__ import annotations

from functools import lru_cache
from typing import Any, Iterable, Optional

from .. import sym
from ..engine import Engine
from ..model import FunctionInfo
from ..sym import Logged, Pattern, Sym, Term, find, find_all, match, show  # noqa: F401


def S(E: Engine, f: FunctionInfo, inline: bool = True) -> Sym:
    return sym.sym_of(E.P, f, inline)


@lru_cache(maxsize=None)
def pat(src: str) -> Pattern:
    return Pattern(src)


def has(term: Any, src: str, binds: Optional[dict] = None) -> Optional[dict]:
    """Bindings of the first subterm of ``term`` matching the pattern ``src`` (or None)."""
    return find(term, pat(src), binds)


def all_of(term: Any, src: str) -> list[dict]:
    return find_all(term, pat(src))


def is_(term: Any, src: str, binds: Optional[dict] = None) -> Optional[dict]:
    """The whole term matches the pattern."""
    return match(pat(src).term, term, binds)


def arg(l: Logged, index: int, name: str = "") -> Optional[Term]:
    """Positional argument ``index`` (or keyword ``name``) of a logged call."""
    assert l.kind == "call" and l.value is not None
    args, kws = l.value[2], l.value[3]
    func = l.value[1]
    if name:
        for k, v in kws:
            if k == name:
                return v
    if 0 <= index < len(args):
        return args[index]
    # the other spelling of the same argument (positional <-> keyword), from the callee's signature
    n2 = sym.param_name(func, index) if index >= 0 else None
    if n2 is not None:
        for k, v in kws:
            if k == n2:
                return v
    if name:
        i2 = sym.param_index(func, name)
        if i2 is not None and 0 <= i2 < len(args):
            return args[i2]
    return None


def lits(l: Logged) -> tuple:
    return sym.conj_of(l.cond)


def any_lit(l: Logged, src: str) -> Optional[dict]:
    """Some literal of the path condition contains the pattern."""
    for x in lits(l):
        r = has(x, src)
        if r is not None:
            return r
    return None


def mentions(term: Any, *attr_names: str) -> bool:
    """Some ('attr', _, name) / ('name', name) with one of the given names occurs in the term."""
    for s in sym.subterms(term):
        if (s[0] == "attr" and s[2] in attr_names) or (s[0] == "name" and s[1] in attr_names):
            return True
    return False


def calls_in(term: Any, name: str) -> list[Term]:
    """Call subterms whose function is (an attribute named) ``name``."""
    out = []
    for s in sym.subterms(term):
        if s[0] == "call" and ((s[1][0] == "name" and s[1][1] == name) or (s[1][0] == "attr" and s[1][2] == name)):
            out.append(s)
    return out


def sh(t: Any, n: int = 160) -> str:
    x = show(t)
    return x if len(x) <= n else x[: n - 3] + "..."


def unobj(t: Any) -> Any:
    """The value a mutated local was created with (identity wrapper removed)."""
    while isinstance(t, tuple) and t and t[0] == "obj":
        t = t[2]
    return t


def elem_of(t: Any, it: Any) -> bool:
    """t is the loop / comprehension variable ranging over ``it`` (at any nesting depth)."""
    return isinstance(t, tuple) and len(t) == 3 and t[0] == "elem" and t[1] == it


def dnf(t: Any, cap: int = 64) -> list:
    """Disjunctive normal form of a condition term: list of conjunctions (tuples of literals)."""
    if t == sym.TRUE:
        return [()]
    if t[0] == "or":
        out: list = []
        for x in t[1:]:
            out += dnf(x, cap)
        return out[:cap]
    if t[0] == "and":
        out = [()]
        for x in t[1:]:
            out = [a + b for a in out for b in dnf(x, cap)][:cap]
        return out
    return [(t,)]


def branches(t: Any, conds: tuple = ()):
    """(conditions, leaf) for every alternative of a nested conditional term."""
    if isinstance(t, tuple) and t and t[0] == "ifexp":
        yield from branches(t[2], conds + (t[1],))
        yield from branches(t[3], conds + (sym.mk_not(t[1]),))
    else:
        yield conds, t


def simplify_under(t: Any, conds: tuple) -> Any:
    """Resolve the conditionals of ``t`` whose condition (or its negation) is among ``conds``."""
    cs = set(conds)

    def fn(x):
        if x and x[0] == "ifexp":
            if x[1] in cs:
                return simplify_under(x[2], conds)
            if sym.mk_not(x[1]) in cs:
                return simplify_under(x[3], conds)
        return None

    return sym.subst(t, fn)


def _lit_key(t: Any):
    """Python value of a literal key term: constants, set/frozenset/tuple literals of constants."""
    t = unobj(t)
    if t[0] == "const":
        return t[1]
    if t[0] in ("set", "tuple", "list") and all(x[0] == "const" for x in t[1:]):
        vals = [x[1] for x in t[1:]]
        return frozenset(vals) if t[0] == "set" else tuple(vals)
    if t[0] == "call" and t[1] in (("name", "frozenset"), ("name", "set"), ("name", "tuple")) and len(t[2]) == 1 and not t[3]:
        v = _lit_key(t[2][0])
        if isinstance(v, (frozenset, tuple)):
            return frozenset(v) if t[1][1] != "tuple" else tuple(v)
    return None


def finite_maps(t: Any) -> list:
    """Finite key -> value tables a term spells, as (subject term, {key: value term}) pairs: a dict literal that is
    indexed / `.get`-queried (subject = the key expression), and a chain of conditionals whose tests compare one
    subject with literals (`x == 'a'`, `set(x) == {...}`)."""
    out = []
    for x in sym.subterms(t):
        d = k = None
        if x[0] == "idx" and unobj(x[1])[0] == "dict":
            d, k = unobj(x[1]), x[2]
        elif x[0] == "call" and x[1][0] == "attr" and x[1][2] == "get" and unobj(x[1][1])[0] == "dict" and x[2]:
            d, k = unobj(x[1][1]), x[2][0]
        if d is not None:
            table = {}
            for kk, vv in d[1:]:
                key = _lit_key(kk)
                if key is not None:
                    table[key] = vv
            out.append((k, table))
    # conditional chains
    chains: dict = {}
    for conds, leaf in branches(t):
        if not conds:
            continue
        last = conds[-1]
        for lit in sym.conj_of(last):
            if lit[0] == "cmp" and lit[1] == "Eq":
                for a, b in ((lit[2], lit[3]), (lit[3], lit[2])):
                    key = _lit_key(b)
                    if key is not None and _lit_key(a) is None:
                        chains.setdefault(a, {})[key] = leaf
    out += list(chains.items())
    return out


def raises_when(Sf: Sym, *srcs: str, exc: str = "") -> bool:
    """Some `raise` of the function (helpers inlined) is reached under a condition one of whose alternatives
    (DNF conjunction) holds a literal matching each of the given patterns."""
    for l in Sf.logged("raise"):
        if exc and not (l.value is not None and exc in sym.show(l.value)[:80]):
            continue
        for conj in dnf(l.cond):
            if all(any(is_(x, s_) is not None for x in conj) for s_ in srcs):
                return True
    return False


def push_ifexp(t: Any, _depth: int = 0) -> Any:
    """Distribute sums over conditionals, `a + (x if c else y)` -> `(a + x) if c else (a + y)`, bottom-up (at most
    three conditionals per sum).  Two spellings of one value compare equal after this."""
    if not isinstance(t, tuple) or not t or _depth > 6:
        return t
    t = tuple(push_ifexp(x, _depth + 1) if isinstance(x, tuple) else x for x in t)
    if t[0] == "add":
        conds = [x for x in t[1:] if isinstance(x, tuple) and x and x[0] == "ifexp"]
        if 1 <= len(conds) <= 3:
            c = conds[0]
            rest = [x for x in t[1:] if x is not c]
            return sym.mk_ifexp(c[1], push_ifexp(sym.mk_add(rest + [c[2]]), _depth + 1), push_ifexp(sym.mk_add(rest + [c[3]]), _depth + 1))
    return t
