"""C15 - a sequence cannot be sampled when a retarget directly follows an EOM
block at the end of a Local channel.

When the EOM mode is disabled, `_ChannelSchedule.get_samples()` looks at the
amplitude at the start of the next slot (`amp[s.ti]`) to decide whether that
slot is the buffer. If disabling needed no buffer (the last pulse had already
ramped down) and the next slot is a zero-length 'target' slot closing the
channel, `s.ti` equals the channel's duration and the lookup raises
IndexError: sample(), draw() and the emulators all fail.
"""
import sys

import numpy as np

from pulser import Register, Sequence
from pulser.channels import Rydberg
from pulser.channels.eom import RydbergBeam, RydbergEOM
from pulser.devices import VirtualDevice
from pulser.sampler import sample

DEVICE = VirtualDevice(
    name="Dev",
    dimensions=2,
    rydberg_level=70,
    channel_objects=(
        Rydberg.Local(
            1000,
            200,
            max_targets=2,
            clock_period=1,
            min_duration=1,
            mod_bandwidth=4.0,
            eom_config=RydbergEOM(
                mod_bandwidth=30.0,
                limiting_beam=RydbergBeam.RED,
                max_limiting_amp=50 * 2 * np.pi,
                intermediate_detuning=800 * 2 * np.pi,
                controlled_beams=tuple(RydbergBeam),
            ),
        ),
    ),
)

seq = Sequence(Register({"q0": (0, 0), "q1": (50, 0)}), DEVICE)
seq.declare_channel("ch", "rydberg_local", initial_target="q0")
seq.enable_eom_mode("ch", 5.0, 0.0)  # detuning_off = 0
seq.add_eom_pulse("ch", 100, 0.0)
seq.delay(300, "ch")  # the pulse has ramped down when the mode is disabled
seq.disable_eom_mode("ch")
seq.target("q1", "ch")
print(seq)
try:
    cs = sample(seq).channel_samples["ch"]
except IndexError as e:
    print("sample(seq) raised IndexError:", e)
    print("FAIL")
    sys.exit(1)
block = cs.eom_blocks[0]
amp = cs.amp.as_array()
ok = (
    cs.duration == 400
    and (block.ti, block.tf) == (0, 400)
    and np.all(amp[:100] == 5.0)
    and np.all(amp[100:] == 0.0)
    and np.all(cs.det.as_array() == 0.0)
)
print("sampled:", cs.duration, "ns, EOM block", (block.ti, block.tf))
print("PASS" if ok else "FAIL")
sys.exit(0 if ok else 1)
