#!/usr/bin/env python3
"""Refresh meta.json "reported_by" of every stored seeded change with what the current checks report (python3-vt).

Each patch is applied to a scratch copy of the analysed packages and every registered check is run on it
(tools/eval_patch.py).  Patches that no longer apply are marked stale; nothing else in meta.json is touched.
"""
from __future__ import annotations

import json
import os
import sys
from concurrent.futures import ThreadPoolExecutor

sys.path.insert(0, os.path.dirname(os.path.dirname(os.path.abspath(__file__))))
from tools.eval_patch import evaluate  # noqa: E402

VERIF = os.path.dirname(os.path.dirname(os.path.abspath(__file__)))


def main() -> int:
    man = json.load(open(os.path.join(VERIF, "MANIFEST.json")))
    props = [c["property_id"] for c in man["checks"]]
    names = sorted(n for n in os.listdir(os.path.join(VERIF, "seeded")) if os.path.exists(os.path.join(VERIF, "seeded", n, "patch.diff")))
    only = sys.argv[1] if len(sys.argv) > 1 else ""
    names = [n for n in names if only in n]
    missed = 0
    with ThreadPoolExecutor(max_workers=4) as ex:
        for n, r in zip(names, ex.map(lambda n: evaluate(os.path.join(VERIF, "seeded", n, "patch.diff"), props), names)):
            mp = os.path.join(VERIF, "seeded", n, "meta.json")
            meta = json.load(open(mp))
            if "error" in r:
                meta["stale"] = r["error"]
                print(f"{n}: STALE {r['error']}")
            else:
                meta.pop("stale", None)
                meta["reported_by"] = {k: {"exit": v["rc"], "reports": v["lines"]} for k, v in sorted(r["reported_by"].items()) if v["rc"] == 1}
                if not meta["reported_by"]:
                    missed += 1
                print(f"{n}: {sorted(meta['reported_by'])}")
            json.dump(meta, open(mp, "w"), indent=1)
    print(f"recheck: {len(names)} variants, {missed} reported by no check")
    return 0


if __name__ == "__main__":
    sys.exit(main())
