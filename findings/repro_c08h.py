"""C08 - target_index() with a collection of indices in which only some
entries are variables: accepted by the parametrized sequence, but build()
hands the un-evaluated VariableItem to the new sequence and fails.

target_index([0, 2], "ram") is valid; replacing the 2 by an int variable
must build to the same sequence.
"""
import json
import sys
import warnings

from pulser import Pulse, Register, Sequence
from pulser.devices import MockDevice

warnings.simplefilter("ignore")

reg = Register({"q0": (0, 0), "q1": (5, 0), "q2": (10, 0)})


def program(seq, idx, as_tuple=False):
    seq.declare_channel("ram", "raman_local", initial_target="q1")
    seq.add(Pulse.ConstantPulse(100, 1.0, 0.0, 0.0), "ram")
    seq.target_index((0, idx) if as_tuple else [0, idx], "ram")
    seq.add(Pulse.ConstantPulse(100, 1.0, 0.0, 0.0), "ram")


def slots(seq):
    return [
        (type(s.type).__name__, int(s.ti), int(s.tf), sorted(s.targets))
        for s in seq._schedule["ram"].slots
    ]


for as_tuple in (False, True):
    direct = Sequence(reg, MockDevice)
    program(direct, 2, as_tuple)

    templ = Sequence(reg, MockDevice)
    idx = templ.declare_variable("idx", dtype=int)
    program(templ, idx, as_tuple)  # accepted by the template
    try:
        built = templ.build(idx=2)
        built1 = templ.build(idx=1)
    except Exception as e:  # noqa
        print(f"FAIL: build raised {type(e).__name__}: {e}")
        sys.exit(1)
    if slots(built) != slots(direct):
        print("FAIL: built sequence differs from the direct construction")
        print(" direct:", slots(direct))
        print(" built :", slots(built))
        sys.exit(1)
    if slots(built1)[-2][3] != ["q0", "q1"] or slots(built)[-2][3] != [
        "q0",
        "q2",
    ]:
        print("FAIL: successive builds are not independent")
        sys.exit(1)
    # The built sequence must be a regular, serialisable sequence
    ops_b = json.loads(built.to_abstract_repr())["operations"]
    ops_d = json.loads(direct.to_abstract_repr())["operations"]
    if ops_b != ops_d:
        print("FAIL: built sequence serialises differently", ops_b, ops_d)
        sys.exit(1)
print("PASS")
