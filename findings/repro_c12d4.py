"""C12 / finding 4: the atoms (or traps) reported as offending are not the
IDs of the register (or layout): BaseDevice._validate_coords turns every ID
into a string before reporting.  Registers with (still supported) int IDs -
the default of every classmethod without `prefix` - and layouts (whose trap
IDs are ints by definition) get IDs reported that do not exist in them, and a
register holding both 1 and "1" gets an ambiguous report.
"""
import sys
import warnings

from pulser import Register
from pulser.devices import AnalogDevice
from pulser.exceptions.sequence import DistanceError, RadiusError
from pulser.register.register_layout import RegisterLayout

warnings.simplefilter("ignore")
failures = []
dev = AnalogDevice  # radius 38 um, minimum distance 5 um


def offending(func, arg, exc):
    try:
        func(arg)
    except exc as e:
        return e.invalid
    raise AssertionError("should have been rejected")


# (a) default (int) qubit IDs, atom 2 is too far
reg = Register.from_coordinates([(0, 0), (10, 0), (50, 0)], center=False)
inv = offending(dev.validate_register, reg, RadiusError)
if inv != [2] or not set(inv) <= set(reg.qubit_ids):
    failures.append(
        f"(a) RadiusError.invalid = {inv!r}; register IDs are "
        f"{reg.qubit_ids!r}, offending atom is 2"
    )

# (b) default (int) qubit IDs, atoms 0 and 1 are too close
reg = Register.from_coordinates([(0, 0), (1, 0), (20, 0)], center=False)
inv = offending(dev.validate_register, reg, DistanceError)
if inv != [(0, 1)]:
    failures.append(
        f"(b) DistanceError.invalid = {inv!r}; register IDs are "
        f"{reg.qubit_ids!r}, offending pair is (0, 1)"
    )

# (c) mixed IDs: the atom called "1" (str) is fine, the atom called 1 (int)
# is the one out of reach
reg = Register({"1": (0, 0), 1: (50, 0), "q": (10, 0)})
inv = offending(dev.validate_register, reg, RadiusError)
if inv != [1]:
    culprit = [reg.qubits[i].tolist() for i in inv if i in reg.qubits]
    failures.append(
        f"(c) RadiusError.invalid = {inv!r}, which names the atom at "
        f"{culprit} (valid) instead of atom 1 at [50.0, 0.0]"
    )

# (d) trap IDs of a layout are ints
layout = RegisterLayout([(0, 0), (10, 0), (50, 0)])
inv = offending(dev.validate_layout, layout, RadiusError)
if inv != [2] or not set(inv) <= set(layout.traps_dict):
    failures.append(
        f"(d) RadiusError.invalid = {inv!r}; trap IDs are "
        f"{list(layout.traps_dict)!r}, offending trap is 2"
    )

# str IDs must of course be reported unchanged
reg = Register({"a": (0, 0), "b": (1, 0), "c": (50, 0)})
assert offending(dev.validate_register, reg, DistanceError) == [("a", "b")]
reg = Register({"a": (0, 0), "b": (10, 0), "c": (50, 0)})
assert offending(dev.validate_register, reg, RadiusError) == ["c"]

if failures:
    print("FAIL")
    for f in failures:
        print(" -", f)
    sys.exit(1)
print("PASS")
