"""C05 -- the emulated Hamiltonian equals the documented formula (narrow)."""
from __future__ import annotations

import ast
import os
import re

from ..absval import abstractor
from ..engine import Engine
from ..model import AnalysisError, dotted, norm
from ..report import Report
from .. import sym
from .common import own_nodes
from .symutil import S, all_of, any_lit, arg, elem_of, has, is_, mentions, sh, unobj

EXPLANATION = (
    "TABLE: the state order used by the emulator (STATES_RANK, EIGENSTATES) agrees with the documented vector convention (docs/source/conventions.md: |r>,|g>,|h>; ground-rydberg r,g; digital g,h) and with the operator labels used to "
    "build the drive: for a basis with ordered eigenstates [a, b] the drive operators are ['sigma_'+b+a, 'sigma_'+a+a] (gr/rr, hg/gg, du/uu); _get_basis_op_matrices names sigma_xy = |x><y| and places basis vector i at position i "
    "of the eigenbasis; the tensor product follows the register order (op_list[k] with k from _qid_index, built by enumerating the register). SIB/PAIR: the Hamiltonian is symmetrised exactly once (ham + ham.dag()) and every "
    "Hermitian (diagonal) contribution -- the detuning coefficient and the van der Waals term -- carries the factor 1/2, the amplitude coefficient is 0.5*amp*exp(-1j*phase); the Global and Local branches build identical coefficient "
    "expressions. GUARD: make_xy_term iff the interaction is 'XY', vdW otherwise; SLM-masked pairs are skipped only in XY; the interaction is built iff 'digital' is not the basis; C6/R^6 and C3(1-3cos^2)/R^3 shapes (powers). "
    "NOT decided: every matrix entry / numeric equality with the formula (runtime). GUARD (added): the per-run noise state (_bad_atoms, _doppler_detune) is reset by set_config exactly under the negation of the condition under which _update_noise redraws it (complementary guards at two sites)."
    " GUARD (round 3): every coefficient array built for _adapt_to_sampling_rate has the length of the sampling grid (self._duration), so the interaction switches at the same sample as the drive."
    ' Round 5 (added): no `phase +=` accumulation of the channels of one basis (simultaneous drives add as complex amplitudes) -- KNOWN finding; generic GLOBAL net: no public function returns a module-level mutable table as it is (the EIGENSTATES defect).'
)
ASSUMPTIONS = ["coefficient formulas are matched on the symbolic normal form (pstatic/sym.py) up to permutation of factors; operator products (|x><y|) are matched in order", "the documented convention is read from docs/source/conventions.md"]

HAM = "pulser_simulation.hamiltonian.Hamiltonian"


def run(E: Engine, rep: Report, tier: str) -> dict:
    P = E.P
    chm = P.module("pulser.channels.base_channel")
    eig = P.fold(chm, chm.assigns["EIGENSTATES"])
    rank = list(P.fold(chm, chm.assigns["States"]))
    # ---------------------------------------------------------- TABLE: docs
    doc_path = os.path.join(P.root, "docs", "source", "conventions.md")
    if os.path.exists(doc_path):
        doc = open(doc_path, encoding="utf-8").read()
        m = re.search(r"\|r\\rangle = \(1, 0, 0\)\^T.*\|g\\rangle = \(0, 1, 0\)\^T.*\|h\\rangle = \(0, 0, 1\)\^T", doc)
        rep.check(m is not None, "TABLE", "docs|qutrit-order-r-g-h", "documented qutrit order is (r, g, h)", "docs/source/conventions.md no longer documents the (r, g, h) vector order", "docs/source/conventions.md")
        order3 = [s for s in rank if s in ("r", "g", "h")]
        rep.check(order3 == ["r", "g", "h"], "TABLE", "STATES_RANK|r-g-h", f"STATES_RANK orders {order3}", f"STATES_RANK orders the qutrit states as {order3}, the documentation says r, g, h", E.where_mod(chm.relpath, chm.assigns["States"]))
        gr = re.search(r"`ground-rydberg`: \$\|r\\rangle = \(1, 0\)\^T,~~\|g\\rangle = \(0, 1\)\^T\$", doc)
        dg = re.search(r"`digital`: \$\|g\\rangle = \(1, 0\)\^T,~~\|h\\rangle = \(0, 1\)\^T\$", doc)
        rep.check(gr is not None and eig.get("ground-rydberg") == ["r", "g"], "TABLE", "EIGENSTATES|ground-rydberg", "r, g as documented", f"EIGENSTATES['ground-rydberg'] = {eig.get('ground-rydberg')} vs documentation (r, g)", E.where_mod(chm.relpath, chm.assigns["EIGENSTATES"]))
        rep.check(dg is not None and eig.get("digital") == ["g", "h"], "TABLE", "EIGENSTATES|digital", "g, h as documented", f"EIGENSTATES['digital'] = {eig.get('digital')} vs documentation (g, h)", E.where_mod(chm.relpath, chm.assigns["EIGENSTATES"]))
    else:
        rep.error("docs/source/conventions.md not found")
    rep.check(eig.get("XY") == ["u", "d"], "TABLE", "EIGENSTATES|XY", "u, d", f"EIGENSTATES['XY'] = {eig.get('XY')}", E.where_mod(chm.relpath, chm.assigns["EIGENSTATES"]))
    for b, st in eig.items():
        rep.check([s for s in rank if s in st] == st, "TABLE", f"EIGENSTATES|{b}|consistent-with-STATES_RANK", "listed in rank order", f"EIGENSTATES['{b}'] = {st} is not in STATES_RANK order {rank}", E.where_mod(chm.relpath, chm.assigns["EIGENSTATES"]))
    # op_ids per basis
    ch = E.method(HAM, "_construct_hamiltonian")
    bco = ch.nested.get("build_coeffs_ops")
    if bco is None:
        raise AnalysisError("anchor: build_coeffs_ops not found")
    Sb = S(E, bco)
    appends = [l for l in Sb.log if l.fn == bco.short and l.kind == "call" and l.target is not None and l.target[0] == "attr" and l.target[2] == "append" and l.value[2] and l.value[2][0][0] == "list" and len(l.value[2][0]) == 3]
    if len(appends) < 2:
        raise AnalysisError(f"anchor: expected the Global and the Local branch of build_coeffs_ops to append [operator, coefficient] terms, found {len(appends)}")

    def zip_source(t):
        """t = elem(zip(A, B))#i  ->  (the zip element, i, A or B)"""
        if t[0] == "item" and t[1][0] == "elem" and t[1][1][0] == "call" and t[1][1][1] == ("name", "zip") and isinstance(t[2], int) and t[2] < len(t[1][1][2]):
            return t[1], t[2], t[1][1][2][t[2]]
        return None

    def table_of(t) -> dict:
        out = {}
        t = unobj(t)
        while t[0] == "ifexp":
            m = is_(t[1], "basis == Q_l")
            if m is None or m["Q_l"][0] != "const" or t[2][0] != "list":
                break
            out[m["Q_l"][1]] = [x[1] for x in t[2][1:] if x[0] == "const"]
            t = t[3]
        if t[0] == "idx" and t[2] == ("name", "basis"):
            d = t[1]
            if d[0] == "name":
                try:
                    v = P.fold(bco.module, bco.module.assigns[d[1]])
                    out.update({k: list(x) for k, x in v.items()})
                except Exception:
                    pass
            elif d[0] == "dict":
                for k, x in d[1:]:
                    if k[0] == "const" and x[0] in ("list", "tuple"):
                        out[k[1]] = [y[1] for y in x[1:] if y[0] == "const"]
        return out

    branches = {}
    for l in appends:
        opt, coeft = l.value[2][0][1], l.value[2][0][2]
        cz = next((zip_source(x) for x in sym.subterms(coeft) if zip_source(x) is not None), None)
        oz = next((zip_source(x) for x in sym.subterms(opt) if zip_source(x) is not None), None)
        which = "Global" if any(is_(x, "addr == 'Global'") is not None for x in sym.conj_of(l.cond)) else "Local" if any(is_(x, "addr == 'Local'") is not None for x in sym.conj_of(l.cond)) else "?"
        branches[which] = (l, oz, cz)
    op_ids = {}
    for which, (l, oz, cz) in sorted(branches.items()):
        ok = oz is not None and cz is not None and oz[0] == cz[0] and oz[1] != cz[1]
        rep.check(ok, "SIB", f"build_coeffs_ops|ops-zipped-with-coeffs|{which}", "operator k is paired with coefficient k (same zip element)", f"in the {which} branch the operator id and the coefficient do not come from the same zip element: {sh(l.value, 200)}", E.where(bco, l.node))
        if ok and not op_ids:
            op_ids = table_of(oz[2])
    for b, st in eig.items():
        a, b2 = st
        want = ["sigma_" + b2 + a, "sigma_" + a + a]
        rep.check(op_ids.get(b) == want, "TABLE", f"build_coeffs_ops|op_ids|{b}", f"{want}", f"drive operators for basis '{b}' are {op_ids.get(b)}, the documented formula needs {want} (|{b2}><{a}| for the drive, |{a}><{a}| for the detuning)", E.where(bco))
    # _get_basis_op_matrices
    gb = E.method(HAM, "_get_basis_op_matrices")
    Sg = S(E, gb)
    r = Sg.ret
    bt = unobj(r[1]) if r[0] == "tuple" and len(r) == 3 else None
    ok = bt is not None and bt[0] == "comp" and bt[1] == "dict" and len(bt[3]) == 1 and bt[3][0][0] == sym.Pattern("enumerate(eigenbasis)").term
    if ok:
        e_ = bt[2][1][1] if bt[2][1][0] == "item" else None
        ok = e_ is not None and elem_of(e_, bt[3][0][0]) and bt[2][1] == ("item", e_, 1) and is_(bt[2][2], "qutip.basis(Q_dim, Q_i)") is not None and is_(bt[2][2], "qutip.basis(Q_dim, Q_i)")["Q_i"] == ("item", e_, 0)
    rep.check(bool(ok), "TABLE", "_get_basis_op_matrices|basis-by-position", "basis vector i <-> i-th eigenstate", f"basis vectors are no longer placed by position in the eigenbasis: {sh(bt, 160)}", E.where(gb))
    pairs = []
    for l in Sg.log:
        if l.fn != gb.short:
            continue
        if l.kind == "store" and l.target is not None and l.target[0] == "idx":
            pairs.append((l.target[2], l.value))
        if l.kind == "call" and l.target is not None and l.target[0] == "attr" and l.target[2] == "update" and l.value[2] and unobj(l.value[2][0])[0] == "comp" and unobj(l.value[2][0])[1] == "dict":
            kv = unobj(l.value[2][0])[2]
            pairs.append((kv[1], kv[2]))
    ok = False
    for k, v in pairs:
        m = is_(k, "'sigma_' + Q_a + Q_b")
        if m is None:
            continue
        # ordered operator product |a><b| = basis[a] * basis[b].dag()
        ok = v[0] == "mul" and len(v) == 3 and is_(v[1], "Q_B[Q_a]", {"Q_a": m["Q_a"]}) is not None and is_(v[2], "Q_B[Q_b].dag()", {"Q_b": m["Q_b"]}) is not None and m["Q_a"] != m["Q_b"]
        ok = ok and bt is not None and unobj(is_(v[1], "Q_B[Q_a]")["Q_B"]) == bt
    rep.check(ok, "TABLE", "_get_basis_op_matrices|sigma_xy=|x><y|", "sigma_xy = |x><y|", f"the projector naming changed (sigma_xy must be basis[x] * basis[y].dag()): {[(sh(k, 40), sh(v, 80)) for k, v in pairs][:3]}", E.where(gb))
    ge = E.method(HAM, "_get_eigenbasis")
    r = unobj(S(E, ge).ret)
    ok = r[0] == "comp" and len(r[3]) == 1 and r[3][0][0] == ("name", "STATES_RANK") and elem_of(r[2], ("name", "STATES_RANK")) and is_(r[3][0][1], "Q_e in Q_eb") is not None
    rep.check(ok, "TABLE", "_get_eigenbasis|rank-order", "eigenbasis sorted by STATES_RANK", f"the eigenbasis is no longer the STATES_RANK-ordered selection: {sh(r, 120)}", E.where(ge))
    # tensor order
    bo = E.method(HAM, "_build_operator")
    Sbo = S(E, bo)
    st = [l for l in Sbo.logged("store") if l.fn == bo.short and l.target is not None and l.target[0] == "idx" and is_(l.target[2], "self._qid_index[Q_q]") is not None]
    tens = [l for l in Sbo.calls("tensor") if l.fn == bo.short]
    ok = bool(st) and bool(tens) and all(arg(t, 0) == st[0].target[1] for t in tens) and all(is_(l.target[2], "self._qid_index[Q_q]")["Q_q"][0] == "elem" for l in st)
    rep.check(ok, "TABLE", "_build_operator|register-tensor-order", "operator placed at the register index of the qubit", "the tensor-product placement of local operators changed (op_list[self._qid_index[qubit]] = operator; qutip.tensor(op_list))", E.where(bo))
    init = E.method(HAM, "__init__")
    st = [l for l in S(E, init, inline=False).logged("store") if l.target == ("attr", ("name", "self"), "_qid_index")]
    ok = False
    for l in st:
        c = unobj(l.value)
        if c[0] == "comp" and c[1] == "dict" and len(c[3]) == 1 and c[3][0][0] == sym.Pattern("enumerate(self._qdict)").term:
            e_ = c[2][1][1] if c[2][0] == "tuple" and c[2][1][0] == "item" else None
            ok = e_ is not None and elem_of(e_, c[3][0][0]) and c[2] == ("tuple", ("item", e_, 1), ("item", e_, 0))
    rep.check(ok, "TABLE", "Hamiltonian|_qid_index-from-register-order", "qubit index = position in the register", "_qid_index is no longer the enumeration of the register's qubits", E.where(init))
    rep.floor("TABLE", 12)

    # ---------------------------------------------------------------- SIB
    coefs = {}
    for which, (l, oz, cz) in branches.items():
        if cz is None or unobj(cz[2])[0] != "list" or len(unobj(cz[2])) != 3:
            continue
        lst = unobj(cz[2])
        # the per-quantity sample source: samples[...] (Global) or the per-qubit samples (Local)
        m = is_(lst[2], "-0.5 * Q_src['det']")
        src = m["Q_src"] if m else None
        coefs[which] = (lst, src)
    if set(coefs) != {"Global", "Local"}:
        raise AnalysisError(f"anchor: coefficient lists of build_coeffs_ops not recognised ({sorted(coefs)})")
    norm_ = {w: sym.subst(lst, lambda x, s_=src: ("name", "SRC") if x == s_ else None) for w, (lst, src) in coefs.items()}
    rep.check(norm_["Global"] == norm_["Local"] and all(src is not None for _l, src in coefs.values()), "SIB", "build_coeffs_ops|global-local-same-coefficients", "Global and Local branches build the same coefficient expressions", f"Global {sh(norm_['Global'], 160)} vs Local {sh(norm_['Local'], 160)}", E.where(bco))
    g = coefs["Global"][0]
    rep.check(is_(g[1], "0.5 * Q_s['amp'] * Q_np.exp(-1j * Q_s['phase'])") is not None, "SIB", "build_coeffs_ops|amp=0.5*amp*exp(-i*phase)", "Omega/2 e^{-i phi}", f"amplitude coefficient is {sh(g[1], 120)}: the documented drive is (Omega/2) e^(-i phi)", E.where(bco))
    rep.check(is_(g[2], "-0.5 * Q_s['det']") is not None, "SIB", "build_coeffs_ops|det=-0.5*det", "-delta/2 before symmetrisation (-> -delta after ham + ham.dag())", f"detuning coefficient is {sh(g[2], 80)}: with the single symmetrisation ham + ham.dag() a Hermitian term must carry -1/2", E.where(bco))
    # symmetrised exactly once
    Sc = S(E, ch, inline=False)
    st = [l for l in Sc.logged("store") if l.fn == ch.short and l.target == ("attr", ("name", "self"), "_hamiltonian")]
    ok = False
    for l in st:
        v = l.value
        m = is_(v, "Q_h + Q_h.dag()")
        ok = m is not None and not any(t[0] == "call" and t[1][0] == "attr" and t[1][2] == "dag" for t in sym.subterms(m["Q_h"])) and is_(unobj(m["Q_h"]), "qutip.QobjEvo(Q_l, tlist=Q_t)") is not None
    rep.check(ok, "PAIR", "_construct_hamiltonian|symmetrised-once", "ham = ham + ham.dag() exactly once", f"the stored Hamiltonian is {[sh(l.value, 120) for l in st]}: it must be QobjEvo(...) + QobjEvo(...).dag(), symmetrised exactly once", E.where(ch))
    vdw = ch.nested.get("make_vdw_term")
    xy = ch.nested.get("make_xy_term")
    r = S(E, vdw).ret
    m = is_(r, "0.5 * self._device.interaction_coeff / Q_dist ** 6 * Q_op")
    rep.check(m is not None and is_(m["Q_dist"], "np.linalg.norm(self._qdict[q1] - self._qdict[q2])") is not None, "PAIR", "make_vdw_term|half-C6-over-R6", "U = 0.5 * C6 / R^6 (Hermitian term, halved before symmetrisation)", f"vdW term is {sh(r, 200)}", E.where(vdw))
    rep.check(m is not None and is_(m["Q_op"], "self.build_operator([('sigma_rr', [q1, q2])])") is not None, "PAIR", "make_vdw_term|n_i-n_j", "acts with sigma_rr on both atoms", "the vdW operator is no longer sigma_rr x sigma_rr on (q1, q2)", E.where(vdw))
    Sx = S(E, xy)
    r = Sx.ret
    m = is_(r, "self._device.interaction_coeff_xy * (1 - 3 * Q_cos ** 2) / Q_dist ** 3 * Q_op")
    rep.check(m is not None, "PAIR", "make_xy_term|C3(1-3cos^2)/R^3", "U = C3 (1 - 3 cos^2) / R^3 on a non-Hermitian product (no 1/2)", f"XY term is {sh(r, 260)}", E.where(xy))
    mc = is_(m["Q_cos"], "np.dot(Q_d, Q_B) / (np.linalg.norm(Q_d) * np.linalg.norm(Q_B))") if m else None
    ok = mc is not None and mentions(mc["Q_B"], "_magnetic_field") and is_(m["Q_dist"], "np.linalg.norm(Q_d)", {"Q_d": mc["Q_d"]}) is not None
    if ok:
        # Q_d is the difference vector of the two atoms
        ok = any(l.kind == "store" and l.target is not None and l.target[0] == "idx" and l.target[1] == mc["Q_d"] and is_(l.value, "self._qdict[q1] - self._qdict[q2]") is not None for l in Sx.log) or is_(unobj(mc["Q_d"]), "self._qdict[q1] - self._qdict[q2]") is not None
    rep.check(bool(ok), "PAIR", "make_xy_term|cosine-normalised-by-both-norms", "cos(theta) = r.B / (|r| |B|) with r the inter-atomic vector", f"the angle cosine is {sh(m['Q_cos'], 200) if m else '?'}: it must be the dot product of the inter-atomic vector and the magnetic field divided by both norms (and R must be that vector's norm)", E.where(xy))
    rep.check(m is not None and is_(m["Q_op"], "self.build_operator([('sigma_ud', [q1]), ('sigma_du', [q2])])") is not None, "PAIR", "make_xy_term|exchange-operator", "sigma_ud(q1) sigma_du(q2) (+ h.c. by symmetrisation)", "the XY exchange operator changed", E.where(xy))
    # several channels on one transition: the drives add as complex amplitudes Omega e^{-i phi}.  The per-basis view the
    # emulator reads accumulates amplitude and phase separately (`[...]["phase"][...] += ...`): while two channels drive
    # the same atoms at the same time with different phases the Hamiltonian gets (A1 + A2) e^{-i (phi1 + phi2)}
    tnd5 = E.method("pulser.sampler.samples.SequenceSamples", "to_nested_dict")
    ph_acc = [l for l in S(E, tnd5).logged("aug") if l.fn == tnd5.short and l.op == "Add" and l.target is not None and l.target[0] == "idx" and l.target[1][0] == "idx" and l.target[1][2] in (("const", "phase"), ("name", "_PHASE"))]
    rep.check(not ph_acc, "SIB", "to_nested_dict|simultaneous-drives-add-as-complex-amplitudes", "no `phase +=` accumulation across channels (drives combined as complex numbers)",
              f"to_nested_dict accumulates the phases of the channels of one basis ({len(ph_acc)} `phase +=` statements): two pulses that overlap in time on one transition with phases phi1 != phi2 enter the Hamiltonian as (A1 + A2) e^(-i (phi1 + phi2)) instead of A1 e^(-i phi1) + A2 e^(-i phi2)", E.where(tnd5, ph_acc[0].node if ph_acc else None))
    rep.floor("SIB", 5)
    rep.floor("PAIR", 6)

    # -------------------------------------------------------------- GUARD
    mit = ch.nested.get("make_interaction_term")
    Sm = S(E, mit)
    cx = [l for l in Sm.log if l.fn == mit.short and l.kind == "call" and l.target == ("name", "make_xy_term")]
    cv = [l for l in Sm.log if l.fn == mit.short and l.kind == "call" and l.target == ("name", "make_vdw_term")]
    sel_ok = bool(cx) and bool(cv) and all(any(is_(x, "self._interaction == 'XY'") is not None for x in sym.conj_of(l.cond)) for l in cx) and all(any(is_(x, "self._interaction != 'XY'") is not None for x in sym.conj_of(l.cond)) for l in cv)
    rep.check(sel_ok, "GUARD", "make_interaction_term|xy-iff-XY", "XY exchange iff the interaction is 'XY', van der Waals otherwise", "the interaction selection changed", E.where(mit))
    skip_ok = bool(cx) and bool(cv)
    for l in cx + cv:
        q1, q2 = arg(l, 0), arg(l, 1)
        cj = sym.conj_of(l.cond)
        masked = any(is_(x, "not (masked and self._interaction == 'XY' and (Q_a in self.samples_obj._slm_mask.targets or Q_b in self.samples_obj._slm_mask.targets))", {"Q_a": q1, "Q_b": q2}) is not None for x in cj)
        bad = all(any(is_(x, "not self._bad_atoms[Q_q]", {"Q_q": q}) is not None for x in cj) for q in (q1, q2))
        skip_ok = skip_ok and masked and bad and q1 is not None and q1 != q2
    rep.check(skip_ok, "GUARD", "make_interaction_term|masked-pairs-only-in-xy", "pairs with a badly prepared atom are skipped; pairs with a masked atom are decoupled only while masked and in XY", "the pair-skipping condition changed", E.where(mit))
    Sc2 = S(E, ch)
    mic = [l for l in Sc2.log if l.fn == ch.short and l.kind == "call" and l.target == ("name", "make_interaction_term")]
    dig_ok = bool(mic) and all(any(is_(x, "'digital' not in self.basis_name") is not None for x in sym.conj_of(l.cond)) and any(is_(x, "Q_n > 1") is not None for x in sym.conj_of(l.cond)) for l in mic)
    rep.check(dig_ok, "GUARD", "_construct_hamiltonian|interaction-iff-not-digital", "interaction built iff the Rydberg/XY states are in the basis", "the condition for building the interaction changed", E.where(ch))
    msk = [l for l in mic if arg(l, 0, "masked") == ("const", True)]
    slm_ok = bool(msk) and all(any(is_(x, "self.samples_obj._slm_mask.end > 0") is not None for x in sym.conj_of(l.cond)) and any(is_(x, "self._interaction == 'XY'") is not None for x in sym.conj_of(l.cond)) for l in msk)
    rep.check(slm_ok, "GUARD", "_construct_hamiltonian|time-dependent-mask-only-xy", "the masked/unmasked interaction split exists only with an SLM mask in XY", "the SLM-mask interaction split condition changed", E.where(ch))
    cz_ = [l for l in Sc2.logged("store") if l.fn == ch.short and l.target is not None and l.target[0] == "idx" and l.value == ("const", 0) and is_(unobj(l.target[1]), "np.ones(Q_n)") is not None]
    rep.check(bool(cz_) and all(is_(l.target[2], "slice(0, self.samples_obj._slm_mask.end)") is not None for l in cz_), "GUARD", "_construct_hamiltonian|unmasked-off-during-mask", "full interaction switched off exactly during [0, mask end)", "the mask interval of the interaction coefficient changed", E.where(ch))
    # every coefficient array is sampled like the time grid: _adapt_to_sampling_rate picks len-proportional indices,
    # so an array shorter than the grid (np.ones(self._duration - 1)) is read one sample late towards its end -- the
    # interaction would switch on one sample after the mask ended, while the drive switches at the mask end
    n_arr = 0
    for l in Sc2.calls("_adapt_to_sampling_rate"):
        a0 = unobj(arg(l, 0)) if arg(l, 0) is not None else None
        if a0 is None:
            continue
        for t in sym.subterms(a0):
            if t[0] == "call" and t[1][0] == "attr" and t[1][1] == ("name", "np") and t[1][2] in ("ones", "zeros", "full", "arange") and t[2]:
                n_arr += 1
                same = unobj(t[2][0]) == sym.Pattern("self._duration").term
                rep.check(same, "GUARD", f"_construct_hamiltonian|coefficient-array-has-grid-length|{sh(t, 40)}", "np.ones(self._duration): one entry per sampling time", f"the coefficient array `{sh(t, 60)}` does not have the length of the sampling grid (np.arange(self._duration)): _adapt_to_sampling_rate maps it onto the grid by proportional indices, so its values are read one sample late and the interaction of a masked atom stays off for one sample after the SLM mask ended", E.where(ch, l.node))
    if n_arr < 1:
        rep.error("no coefficient array built for _adapt_to_sampling_rate found in _construct_hamiltonian")
    # the emulator works on the samples whose Global-channel slots were re-targeted to the register it was given
    # (replace(sampled_seq, samples_list=<adapted>)), not on the samples as they came in
    qe = E.fn("pulser_simulation.simulation.QutipEmulator.__init__")
    sso = [l for l in S(E, qe).logged("store") if l.target == ("attr", ("name", "self"), "samples_obj")]
    if not sso:
        raise AnalysisError("anchor: QutipEmulator.__init__ no longer stores self.samples_obj")
    for l in sso:
        adapted = any(t[0] == "call" and t[1] == ("name", "replace") and dict(t[3]).get("samples_list") is not None for t in sym.subterms(l.value))
        rep.check(adapted, "FLOW", "QutipEmulator.__init__|samples_obj-from-retargeted-samples", "self.samples_obj derives from replace(sampled_seq, samples_list=<slots re-targeted to the register>)", f"self.samples_obj is `{sh(l.value, 100)}`: the samples as given, not the copy whose Global slots target the qubits of the register handed to the emulator -- with another register (reordered / extra atoms) the mask and per-atom views use the old targets", E.where(qe, l.node))
    # per-run noise state: it is reset by set_config exactly when _update_noise will not redraw it
    un = E.method(HAM, "_update_noise")
    sc = E.method(HAM, "set_config")
    Su, Sset = S(E, un, inline=False), S(E, sc, inline=False)
    for fld in ("_bad_atoms", "_doppler_detune"):
        tgt = ("attr", ("name", "self"), fld)
        draws = [l for l in Su.logged("store") if l.target == tgt]
        resets = [l for l in Sset.logged("store") if l.target == tgt]
        def noise_guard(c):
            # the part of the path condition that is about the configured noise
            return sym.mk_and([x for x in sym.conj_of(c) if mentions(x, "noise_types", "state_prep_error", "temperature") and mentions(x, "config", "_config")])

        ok = len(draws) == 1 and len(resets) == 1 and noise_guard(resets[0].cond) == sym.mk_not(noise_guard(draws[0].cond)) and noise_guard(draws[0].cond) != sym.TRUE
        rep.check(ok, "GUARD", f"Hamiltonian.set_config|{fld}-reset-iff-not-redrawn", f"{fld} is reset by set_config exactly when _update_noise does not redraw it",
                  f"set_config resets {fld} under [{sh(resets[0].cond, 120) if resets else '?'}] while _update_noise redraws it under [{sh(draws[0].cond, 120) if draws else '?'}]: when neither holds the values of the previous configuration survive and the next Hamiltonian is built with stale noise", E.where(sc))
    rep.floor("GUARD", 7)
    return {"op_ids": op_ids}
