"""C19: a detuning map defined on ONE trap of a layout must give the qubit on
that trap its weight and every other qubit zero.  RegisterLayout /
MappableRegister.define_detuning_map crash for a single trap, while the
sibling BaseRegister.define_detuning_map handles a single qubit fine."""
import sys

import numpy as np

from pulser.register.register_layout import RegisterLayout

ok = True
layout = RegisterLayout([[0, 0], [5, 0], [0, 5], [5, 5]])
reg = layout.define_register(0, 1, 2, 3)  # q_i sits on trap i
expected = {"q0": 0.0, "q1": 0.0, "q2": 0.7, "q3": 0.0}

# Sibling implementation (register, keyed by qubit) -> works
ref = reg.define_detuning_map({"q2": 0.7})
print("Register.define_detuning_map({'q2': 0.7}) ->",
      ref.get_qubit_weight_map(reg.qubits))

for name, obj in (
    ("RegisterLayout", layout),
    ("MappableRegister", layout.make_mappable_register(2)),
):
    try:
        dmap = obj.define_detuning_map({2: 0.7})
        got = dmap.get_qubit_weight_map(reg.qubits)
        good = got == expected and dmap == ref
        print(f"{name}.define_detuning_map({{2: 0.7}}) -> {got}",
              "ok" if good else "WRONG")
        ok = ok and good
    except Exception as e:
        print(f"{name}.define_detuning_map({{2: 0.7}}) raised "
              f"{type(e).__name__}: {e}")
        ok = False

# two or more traps have always worked, in any order
dmap = layout.define_detuning_map({3: 0.25, 0: 0.5})
good = dmap.get_qubit_weight_map(reg.qubits) == {
    "q0": 0.5, "q1": 0.0, "q2": 0.0, "q3": 0.25}
ok = ok and good

print("PASS" if ok else "FAIL")
sys.exit(0 if ok else 1)
