"""C02 -- channel timelines are gap-free, non-overlapping, clock-aligned and never move."""
from __future__ import annotations

import ast

from ..absval import abstractor
from ..engine import CHS, DMMS, SCHED, SEQ, Engine
from ..flow import flow_of
from ..model import AnalysisError, dotted, norm
from ..report import Report

EXPLANATION = (
    "OWN: a whole-program scan of write sites: the slot list of a channel is only ever appended to (no insert/pop/remove/sort/reverse/clear/del/slice assignment anywhere in the 88 modules), only by "
    "pulser.sequence._schedule and pulser.sequence.sequence; the one index assignment (Sequence._set_register) rebuilds the slot from its own fields with only `targets` replaced; _TimeSlot is an immutable NamedTuple; "
    "EOM block ends are written only by the scheduler. FLOW (continuity): at each slot construction in the scheduler the start time has provenance 'tf of the current last slot' (never its ti, no arithmetic), "
    "the end time is start + a duration whose provenance is validate_duration/adjust_duration/pulse.duration (validated upstream, C01) or literal 0; the automatic delay inserted by add_pulse is exactly slot.ti - last.tf; "
    "adjust_duration = validate_duration(max(d, min_duration)); align delays go through adjust_duration. GUARD: sequence duration aggregates with max over all channels; channel duration starts from the last slot's tf. "
    "NOT decided: non-negativity and exact clock multiples as numbers."
)
ASSUMPTIONS = ["provenance is tracked through local definitions inside one function (+ return provenance of callees)"]

BAD_OPS = {"call:insert", "call:pop", "call:remove", "call:sort", "call:reverse", "call:clear", "call:extend", "delitem", "del", "augassign", "call:__setitem__", "call:__delitem__"}


def run(E: Engine, rep: Report, tier: str) -> dict:
    P = E.P
    E.call_index()
    # ---------------------------------------------------------------- OWN
    n_sites = 0
    allowed_modules = ("pulser.sequence._schedule", "pulser.sequence.sequence")
    for f in P.all_functions():
        if f.kind == "overload":
            continue
        fl = flow_of(E.R, f)
        for node, _i, e in fl.all_events():
            if e.kind != "write":
                continue
            for owner, fld in e.places:
                if owner in (CHS, DMMS) and fld == "slots":
                    n_sites += 1
                    key = f"{f.short}|slots|{e.op}"
                    where = E.where(f, e.node)
                    if e.op == "call:append":
                        rep.check(f.module.name in allowed_modules, "OWN", key, "append-only write inside the scheduler/Sequence", f"{f.short} (module {f.module.name}) appends to a channel's slot list: only the scheduler may write the timeline", where)
                    elif e.op == "assign" and f.name == "__post_init__" and isinstance(e.node, (ast.Assign, ast.AnnAssign)) and isinstance(e.node.value, ast.List) and not e.node.value.elts:
                        rep.ok("OWN", key, "initialisation to the empty list", where)
                    elif e.op == "setitem" and f.short == "Sequence._set_register":
                        ok = _rebuilds_same_slot(e.node)
                        rep.check(ok, "OWN", key, "index assignment rebuilds the slot from its own fields, only `targets` replaced", "Sequence._set_register rewrites a slot with something other than its own fields (+targets): instruction times could move", where)
                    else:
                        rep.violation("OWN", key, f"`{e.text}` in {f.short}: the slot list must only be appended to (instruction times never move once scheduled); found operation '{e.op}'", where)
                if owner == "pulser.sequence._schedule._EOMSettings" or (owner == CHS and fld == "eom_blocks"):
                    n_sites += 1
                    rep.check(f.module.name == "pulser.sequence._schedule" and e.op in ("assign", "call:append"), "OWN", f"{f.short}|{owner.split('.')[-1]}.{fld}|{e.op}", "EOM blocks are written by the scheduler only (append / close)", f"`{e.text}` in {f.short}: EOM block storage written outside the scheduler or with operation '{e.op}'", E.where(f, e.node))
    ts = P.cls("pulser.sequence._schedule._TimeSlot")
    rep.check(any((dotted(b) or "").split(".")[-1] == "NamedTuple" for b in ts.node.bases), "OWN", "_TimeSlot|immutable-record", "_TimeSlot derives from NamedTuple", "_TimeSlot is no longer an immutable NamedTuple: scheduled times could be edited in place", E.where_mod(ts.module.relpath, ts.node))
    rep.floor("OWN", 9)

    # --------------------------------------------------------------- FLOW
    sched = E.cls(SCHED)
    n_ctor = 0
    for mname in ("add_delay", "add_target", "make_next_pulse_slot"):
        f = E.method(SCHED, mname)
        ab = abstractor(E.flow(f))
        for n in ast.walk(f.node):
            if not (isinstance(n, ast.Call) and (dotted(n.func) or "") == "_TimeSlot" and len(n.args) >= 3):
                continue
            n_ctor += 1
            ti, tf = ab.av(n.args[1]), ab.av(n.args[2])
            where = E.where(f, n)
            key = f"_Schedule.{mname}|{norm(n.args[0])[:14]}"
            starts_at_last_end = "self.tf" in ti.roots and "idx:-1" in ti.tags and not any(r.endswith(".ti") for r in ti.roots)
            if mname != "make_next_pulse_slot":
                starts_at_last_end = starts_at_last_end and "Add" not in ti.tags and "Sub" not in ti.tags
                extra = {r for r in ti.roots if r not in ("self.tf", "idx<-channel.tf", "const:-1")}
                starts_at_last_end = starts_at_last_end and not extra
            rep.check(starts_at_last_end, "FLOW", key + "|ti=previous-tf", f"ti provenance {ti.show()[:120]}", f"the start time of the new slot does not come (only) from the end of the current last slot: ti provenance {ti.show()[:300]}", where)
            dur_ok = "Add" in tf.tags and ti.roots <= tf.roots and any(r.endswith((".validate_duration()", ".adjust_duration()")) or r == "pulse.duration" for r in tf.roots)
            rep.check(dur_ok, "FLOW", key + "|tf=ti+validated-duration", "tf = ti + duration validated/adjusted by the channel", f"the end time is not `ti + <validated duration>`: tf provenance {tf.show()[:300]}", where)
    if n_ctor < 4:
        rep.error(f"only {n_ctor} _TimeSlot constructions found in the scheduler (expected >= 4)")
    # make_next_pulse_slot: positive automatic delay goes through adjust_duration
    f = E.method(SCHED, "make_next_pulse_slot")
    ab = abstractor(E.flow(f))
    ok = False
    for n in ast.walk(f.node):
        if isinstance(n, ast.If):
            for conj in ab.literals(n.test):
                for lit in conj:
                    a = lit.atom
                    if a is not None and a.rel == "Gt" and "const:0" in a.rhs.roots:
                        for s in n.body:
                            if isinstance(s, ast.Assign) and isinstance(s.value, ast.Call) and isinstance(s.value.func, ast.Attribute) and s.value.func.attr == "adjust_duration" and norm(s.targets[0]) == norm(n.test.left if isinstance(n.test, ast.Compare) else s.targets[0]):
                                ok = True
    rep.check(ok, "FLOW", "_Schedule.make_next_pulse_slot|delay>0-adjusted", "a positive automatic delay is adjusted to the channel's minimum duration / clock", "the automatic delay before a pulse no longer passes adjust_duration when positive", E.where(f))
    # ADJ: the duration that enters a slot boundary is, on every path, the result of adjust/validate
    # (or zero: a definition followed by a dominating `if d != 0 / > 0: d = adjust_duration(d)`)
    for mname, var, use_pat in (("add_target", "delta", "tf"), ("make_next_pulse_slot", "delay_duration", "ti")):
        f = E.method(SCHED, mname)
        fl = E.flow(f)
        dom = fl.dominators()
        use_node = None
        for n in ast.walk(f.node):
            if isinstance(n, ast.Assign) and isinstance(n.targets[0], ast.Name) and n.targets[0].id == use_pat and isinstance(n.value, ast.BinOp) and isinstance(n.value.op, ast.Add) and var in (norm(n.value.left), norm(n.value.right)):
                use_node = fl.node_of(n)
        if use_node is None:
            raise AnalysisError(f"anchor: `{use_pat} = ... + {var}` not found in _Schedule.{mname}")
        adj_ifs = []
        for node in fl.nodes:
            st = node.stmt
            if node.kind == "test" and isinstance(st, ast.If) and isinstance(st.test, ast.Compare) and norm(st.test.left) == var and isinstance(st.test.ops[0], (ast.NotEq, ast.Gt)) and norm(st.test.comparators[0]) == "0":
                if any(isinstance(b, ast.Assign) and norm(b.targets[0]) == var and isinstance(b.value, ast.Call) and isinstance(b.value.func, ast.Attribute) and b.value.func.attr in ("adjust_duration", "validate_duration") for b in st.body):
                    adj_ifs.append(node)
        bad = []
        for d in fl.reaching_defs(use_node.id, var):
            if not isinstance(d, ast.AST):
                bad.append(str(d))
                continue
            if isinstance(d, ast.Assign) and isinstance(d.value, ast.Call) and isinstance(d.value.func, ast.Attribute) and d.value.func.attr in ("adjust_duration", "validate_duration"):
                continue
            dn = fl.node_of(d)
            ok = False
            for a in adj_ifs:
                if a.id in dom.get(use_node.id, set()) and dn is not None and a.id in fl.reachable_from(dn.id):
                    ok = True
            if not ok:
                bad.append(norm(d)[:80])
        rep.check(not bad, "FLOW", f"_Schedule.{mname}|{var}-adjusted-on-every-path", f"every definition of `{var}` reaching `{use_pat} = ... + {var}` is an adjust_duration result or is adjusted (when non-zero) before use",
                  f"`{var}` can reach the slot boundary `{use_pat}` without passing adjust_duration: unadjusted definition(s) {bad} -- a delay/retarget shorter than min_duration or off the clock grid could be scheduled", E.where(f, use_node.stmt))
    # the EOM buffer pulse's duration is adjusted as well
    en = E.method(SCHED, "enable_eom")
    aben = abstractor(E.flow(en))
    for n in ast.walk(en.node):
        if isinstance(n, ast.Call) and (dotted(n.func) or "") == "Pulse.ConstantPulse" and n.args:
            a = aben.av(n.args[0])
            rep.check(any(r.endswith("adjust_duration()") for r in a.roots), "FLOW", "_Schedule.enable_eom|buffer-pulse-duration-adjusted", "EOM buffer pulse duration comes from adjust_duration", f"the EOM buffer pulse duration {norm(n.args[0])} does not pass adjust_duration", E.where(en, n))
    # add_pulse inserts exactly slot.ti - last.tf
    f = E.method(SCHED, "add_pulse")
    fl = E.flow(f)
    ab = abstractor(fl)
    add_delay = E.method(SCHED, "add_delay")
    found = False
    for node, _i, e in fl.all_events():
        if e.kind == "call" and any(c.innermost() is add_delay for c, _m in e.callees):
            a = ab.av(e.node.args[0])
            found = True
            ok = "Sub" in a.tags and any(r.endswith("make_next_pulse_slot().ti") for r in a.roots) and "self.tf" in a.roots and not ({"Add", "Mult"} & a.tags)
            rep.check(ok, "FLOW", "_Schedule.add_pulse|delay=slot.ti-last.tf", "inserted delay = slot.ti - last.tf (no gap, no overlap)", f"the delay inserted before the pulse is not exactly slot.ti - last.tf: {a.show()[:300]}", E.where(f, e.node))
    if not found:
        raise AnalysisError("anchor: _Schedule.add_pulse no longer calls add_delay")
    # append order in add_pulse: the delay comes before the pulse slot
    evs = [(node.id, i, e) for node, i, e in fl.all_events()]
    i_delay = next((k for k, (_n, _i, e) in enumerate(evs) if e.kind == "call" and any(c.innermost() is add_delay for c, _m in e.callees)), None)
    i_app = next((k for k, (_n, _i, e) in enumerate(evs) if e.kind == "write" and e.op == "call:append"), None)
    rep.check(i_delay is not None and i_app is not None and i_delay < i_app, "FLOW", "_Schedule.add_pulse|delay-before-slot", "the automatic delay is appended before the pulse slot", "add_pulse appends the pulse slot before its delay: slots out of time order", E.where(f))
    # adjust_duration
    f = E.method(CHS, "adjust_duration")
    ab = abstractor(E.flow(f))
    rets = [n for n in ast.walk(f.node) if isinstance(n, ast.Return) and n.value is not None]
    ok = False
    for r in rets:
        a = ab.av(r.value)
        ok = any(x.endswith("validate_duration()") for x in a.roots) and "max" in a.tags and any("min_duration" in x for x in a.roots) and any(x.endswith("duration") and x.startswith("arg<-") for x in a.roots)
    rep.check(ok, "FLOW", "_ChannelSchedule.adjust_duration|validate(max(d,min))", "adjust_duration = validate_duration(max(duration, min_duration))", "adjust_duration no longer lifts to the minimum duration and validates (clock multiple)", E.where(f))
    # wait_for_fall / EOM buffers / align hand adjust_duration results to add_delay
    for cq, mname in ((SCHED, "wait_for_fall"), (SCHED, "enable_eom"), (SCHED, "disable_eom")):
        f = E.method(cq, mname)
        fl = E.flow(f)
        ab = abstractor(fl)
        for node, _i, e in fl.all_events():
            if e.kind == "call" and any(c.innermost() is add_delay for c, _m in e.callees):
                a = ab.av(e.node.args[0])
                rep.check(any(r.endswith("adjust_duration()") for r in a.roots), "FLOW", f"_Schedule.{mname}|delay-adjusted", "delay duration comes from adjust_duration", f"{mname} adds a delay whose duration does not pass adjust_duration: {a.show()[:200]}", E.where(f, e.node))
    al = E.method(SEQ, "align")
    fl = E.flow(al)
    ab = abstractor(fl)
    dl = E.method(SEQ, "_delay")
    found = False
    for node, _i, e in fl.all_events():
        if e.kind == "call" and any(c.innermost() is dl for c, _m in e.callees):
            found = True
            a = ab.av(e.node.args[0])
            rep.check(any(r.endswith("adjust_duration()") for r in a.roots), "FLOW", "Sequence.align|delay-adjusted", "alignment delay comes from adjust_duration", f"align adds a delay that does not pass adjust_duration: {a.show()[:200]}", E.where(al, e.node))
    if not found:
        raise AnalysisError("anchor: Sequence.align no longer calls _delay")
    rep.floor("FLOW", 14)

    # -------------------------------------------------------------- GUARD
    gd = E.method(SCHED, "get_duration")
    ok = False
    for n in ast.walk(gd.node):
        if isinstance(n, ast.Return) and isinstance(n.value, ast.Call) and (dotted(n.value.func) or "") == "max":
            inner = n.value.args[0] if n.value.args else None
            if isinstance(inner, (ast.GeneratorExp, ast.ListComp)) and "get_duration" in norm(inner.elt):
                ok = True
    rep.check(ok, "GUARD", "_Schedule.get_duration|max-over-channels", "sequence duration = max over channels", "_Schedule.get_duration no longer aggregates with max over the channels", E.where(gd))
    # all channels when channel is None
    src = norm(gd.node)
    rep.check("tuple(self.keys())" in src or "self.keys()" in src or "list(self)" in src, "GUARD", "_Schedule.get_duration|all-channels", "ranges over all declared channels when no channel is given", "_Schedule.get_duration no longer ranges over all channels", E.where(gd))
    cgd = E.method(CHS, "get_duration")
    ab = abstractor(E.flow(cgd))
    rets = [n for n in ast.walk(cgd.node) if isinstance(n, ast.Return) and n.value is not None]
    ok = bool(rets) and all(any(r == "self.slots.tf" for r in ab.av(r_.value).roots) and "max" in ab.av(r_.value).tags for r_ in rets)
    rep.check(ok, "GUARD", "_ChannelSchedule.get_duration|last-slot-tf", "channel duration derives from the slots' tf (max with the pending fall time)", "channel duration no longer derives from slot end times", E.where(cgd))
    rev = any(isinstance(n, ast.Subscript) and norm(n) == "self.slots[::-1]" for n in ast.walk(cgd.node))
    rep.check(rev, "GUARD", "_ChannelSchedule.get_duration|from-last-slot", "scans from the last slot backwards", "channel duration no longer starts from the last slot", E.where(cgd))
    rep.floor("GUARD", 4)
    return {"slot_write_sites": n_sites, "functions_analysed": len(P.functions), "call_sites": getattr(E, "_n_call_events", 0)}


def _rebuilds_same_slot(st: ast.AST) -> bool:
    """`x.slots[i] = _TimeSlot(**stored_values)` where stored_values = slot._asdict() with only 'targets' reassigned."""
    if not isinstance(st, ast.Assign):
        return False
    v = st.value
    if not (isinstance(v, ast.Call) and (dotted(v.func) or "") == "_TimeSlot" and not v.args and len(v.keywords) == 1 and v.keywords[0].arg is None):
        return False
    return isinstance(v.keywords[0].value, ast.Name)
