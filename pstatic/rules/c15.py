"""C15 -- EOM mode: square pulses, physical off-detuning, buffers."""
from __future__ import annotations

import ast

from ..absval import abstractor
from ..engine import CHS, SCHED, SEQ, Engine
from ..model import AnalysisError, dotted, norm
from ..report import Report
from .. import sym
from .symutil import S, arg, branches, dnf, elem_of, has, is_, mentions, sh, unobj
from .common import arg_of, av, calls_to, one_call, own_nodes, returns

EXPLANATION = (
    "FLOW: the pulse built by add_eom_pulse takes amplitude and detuning from eom_blocks[-1].rabi_freq/.detuning_on of the channel; the detuned delay in add_delay and the buffer pulse in enable_eom take "
    "detuning_off of the same (last) block; _EOMSettings is filled from the arguments in the matching slots; calculate_detuning_off returns options[argmin(|options - optimum|)] and the switching beams are "
    "indexed with the same index; detuning_off_options iterates the same _switching_beams_combos list that the beams lookup uses; enable_eom waits for the fall time and then adds a buffer of "
    "adjust_duration(_eom_buffer_time) unless told to skip; disable_eom closes the block at the current end and buffers with the custom buffer time if defined, else waits for the fall; "
    "_eom_buffer_time = custom_buffer_time or 2*rise_time; Sequence.enable/modify record what _process_eom_parameters computed (C04). "
    "NOT decided: the drift-correction populations (emulator physics). OWN/FLOW (added): _PhaseDriftParams is built only where a block is opened and in _get_last_eom_pulse_phase_drift; disable_eom_mode corrects the drift from the last EOM pulse to the end of the block; ChannelSamples.modulate extends the mask of every EOM block by the fall time inside the loop over the blocks; the drift window of enable/modify starts where the buffer starts."
    " Round 5 (added): enable_eom_mode's drift starts at the scheduled buffer slot; both setpoint arrays are copied; a block end is tested with `is None` (tf == 0 is a closed block); controlled beams are distinct; the end-buffer test requires a non-empty slot; modify_eom_setpoint evaluates the old drift where the new drift starts."
    " Round 6 (added after the fifth independent round of breaking changes): the drift start passed by enable_eom_mode is clamped at 0 (max(0, ...)); the EOM tail rule of C06 (last slot's targets) is reported there."
    ' Round 7 (added after the sixth, smaller round of breaking changes): in _ChannelSchedule.get_samples the start buffer written to eom_start_buffers[k] is recognised with eom_intervals_ti[k] and eom_blocks[k].detuning_off (one index).'
)
ASSUMPTIONS = ["formulas, guards and sibling code are matched on the symbolic normal form (pstatic/sym.py): temporaries, private helpers, conditional forms and operand order do not matter; state mutation between two reads of one access path is not modelled (orderings are taken from the program order of the logged calls)"]

EOM = "pulser.channels.eom.RydbergEOM"
CH = "pulser.channels.base_channel.Channel"


def _own_calls(Sf, f, name: str) -> list:
    return [l for l in Sf.calls(name) if l.fn == f.short]


def run(E: Engine, rep: Report, tier: str) -> dict:
    # ------------------------------------------------------ add_eom_pulse
    aep = E.method(SEQ, "add_eom_pulse")
    Sa = S(E, aep)
    ctors = _own_calls(Sa, aep, "ConstantPulse")
    adds = [l for l in Sa.log if l.fn == aep.short and l.kind == "call" and l.target == ("attr", ("name", "self"), "_add")]
    if not ctors or not adds:
        raise AnalysisError("anchor: add_eom_pulse no longer builds a Pulse.ConstantPulse / calls _add")
    pc = ctors[-1]
    w = E.where(aep, pc.node)
    block = sym.Pattern("self._schedule[channel].eom_blocks[-1]").term
    rep.check(arg(pc, 1, "amplitude") == ("attr", block, "rabi_freq"), "FLOW", "add_eom_pulse|amplitude=current-block.rabi_freq", "EOM pulse amplitude = rabi_freq of the open block", f"EOM pulse amplitude is {sh(arg(pc, 1, 'amplitude'), 120)}", w)
    rep.check(arg(pc, 2, "detuning") == ("attr", block, "detuning_on"), "FLOW", "add_eom_pulse|detuning=current-block.detuning_on", "EOM pulse detuning = detuning_on of the open block", f"EOM pulse detuning is {sh(arg(pc, 2, 'detuning'), 120)}", w)
    rep.check(arg(pc, 0, "duration") == ("name", "duration"), "FLOW", "add_eom_pulse|duration-from-argument", "duration is the requested one", "EOM pulse duration no longer comes from the argument", w)
    rep.check(arg(adds[-1], 1, "channel") == ("name", "channel") and arg(adds[-1], 0, "pulse") == pc.value, "FLOW", "add_eom_pulse|same-channel", "block read and pulse added on the same channel", "add_eom_pulse reads the EOM block of a different channel than the one it adds to (or adds another pulse)", E.where(aep, adds[-1].node))
    # ------------------------------------------------- add_delay (detuned)
    ad = E.method(SCHED, "add_delay")
    Sd = S(E, ad)
    cblock = sym.Pattern("self[channel].eom_blocks[-1]").term
    dp = _own_calls(Sd, ad, "ConstantPulse")
    for l in dp:
        rep.check(arg(l, 2, "detuning") == ("attr", cblock, "detuning_off"), "FLOW", "add_delay|detuned-delay=block.detuning_off", "idle detuning in EOM mode = detuning_off of the open block", f"detuned delay detuning is {sh(arg(l, 2, 'detuning'), 120)}", E.where(ad, l.node))
        a1 = arg(l, 1, "amplitude")
        rep.check(a1 is not None and a1[0] == "const" and float(a1[1]) == 0.0, "FLOW", "add_delay|detuned-delay-zero-amplitude", "zero amplitude", "detuned delay has non-zero amplitude", E.where(ad, l.node))
    slots = _own_calls(Sd, ad, "_TimeSlot")
    ok = bool(slots) and bool(dp)
    for l in slots:
        ty = arg(l, 0, "type")
        alts = dict()
        for conds, leaf in branches(ty):
            alts[leaf if leaf[0] == "const" else "pulse"] = sym.mk_and(list(conds) + list(sym.conj_of(l.cond)))
        # either one construction with a conditional type, or one construction per branch
        pulse_c = alts.get("pulse")
        if pulse_c is not None:
            okc = any(any(is_(x, "self[channel].in_eom_mode()") is not None for x in cj) and any(is_(x, "self[channel].eom_blocks[-1].detuning_off != 0") is not None for x in cj) for cj in dnf(pulse_c)) and all(any(is_(x, "self[channel].in_eom_mode()") is not None for x in cj) and any(is_(x, "self[channel].eom_blocks[-1].detuning_off != 0") is not None for x in cj) for cj in dnf(pulse_c))
            ok = ok and okc
        delay_c = alts.get(("const", "delay"))
        if delay_c is not None:
            ok = ok and all(any(is_(x, "not self[channel].in_eom_mode()") is not None or is_(x, "self[channel].eom_blocks[-1].detuning_off == 0") is not None for x in cj) for cj in dnf(delay_c))
    rep.check(ok, "FLOW", "add_delay|detuned-iff-in-eom-and-nonzero-off", "delay is a detuned pulse iff in EOM mode with non-zero detuning_off", "the condition for a detuned delay changed", E.where(ad))
    # ----------------------------------------------------------- enable_eom
    en = E.method(SCHED, "enable_eom")
    Se = S(E, en)
    ctor = [l for l in Se.log if l.kind == "call" and l.target == ("name", "_EOMSettings")]
    if not ctor:
        raise AnalysisError("anchor: enable_eom no longer builds _EOMSettings")
    kws = dict(ctor[-1].value[3])
    want = {"rabi_freq": "amp_on", "detuning_on": "detuning_on", "detuning_off": "detuning_off", "switching_beams": "switching_beams"}
    rep.check(all(kws.get(k) == ("name", v) for k, v in want.items()), "FLOW", "enable_eom|settings-slots", "rabi_freq<-amp_on, detuning_on<-detuning_on, detuning_off<-detuning_off", f"_EOMSettings is filled as { {k: sh(v, 30) for k, v in kws.items()} }: a parameter landed in the wrong slot", E.where(en, ctor[-1].node))
    rep.check(kws.get("ti") == sym.Pattern("self[channel_id][-1].tf").term, "FLOW", "enable_eom|block-starts-at-current-end", "block starts at the channel's current end (after the buffer)", f"EOM block start is {sh(kws.get('ti'), 80)}", E.where(en, ctor[-1].node))
    BUF = "self[channel_id].adjust_duration(self[channel_id].channel_obj._eom_buffer_time)"
    # buffer pulse uses detuning_off; duration adjusted  (helpers of enable_eom are inlined: look at every logged call)
    bp = Se.calls("ConstantPulse")
    for l in bp:
        rep.check(arg(l, 2, "detuning") == ("name", "detuning_off") and is_(arg(l, 0, "duration"), BUF) is not None, "FLOW", "enable_eom|buffer=detuning_off,adjusted", "buffer pulse: adjusted _eom_buffer_time at detuning_off", f"buffer pulse is {sh(l.value, 160)}", E.where(en, l.node))
    bd = [l for l in Se.calls("add_delay") if l.target == ("attr", ("name", "self"), "add_delay")]
    ok = bool(bp) and bool(bd) and all(is_(arg(l, 0, "duration"), BUF) is not None and arg(l, 1, "channel") == ("name", "channel_id") for l in bd)
    rep.check(ok, "FLOW", "enable_eom|buffer-time=adjust(_eom_buffer_time)", "buffer = adjust_duration(channel._eom_buffer_time)", "enable_eom's buffer no longer derives from _eom_buffer_time through adjust_duration", E.where(en))
    wf = [l for l in Se.log if l.kind == "call" and l.target == ("attr", ("name", "self"), "wait_for_fall")]
    ok = bool(wf) and all(("not", ("name", "_skip_buffer")) in sym.conj_of(l.cond) and ("not", ("name", "_skip_wait_for_fall")) in sym.conj_of(l.cond) for l in wf) and all(("not", ("name", "_skip_buffer")) in sym.conj_of(l.cond) for l in bp + bd)
    first_buf = min((Se.log.index(l) for l in bp + bd), default=-1)
    ok = ok and all(Se.log.index(l) < first_buf for l in wf)
    rep.check(ok, "FLOW", "enable_eom|waits-for-fall-unless-skipped", "waits for the previous pulse to ramp down (before the buffer) unless _skip_buffer/_skip_wait_for_fall", "enable_eom no longer waits for the fall time before the buffer (or the skip flags changed)", E.where(en))
    # ---------------------------------------------------------- disable_eom
    de = E.method(SCHED, "disable_eom")
    Sx = S(E, de, inline=False)
    st = [l for l in Sx.logged("store") if l.target == sym.Pattern("self[channel_id].eom_blocks[-1].tf").term]
    rep.check(len(st) == 1 and st[0].value == sym.Pattern("self[channel_id][-1].tf").term and st[0].cond == sym.TRUE, "FLOW", "disable_eom|block-closed-at-current-end", "eom_blocks[-1].tf = current end", "disable_eom no longer closes the block at the channel's current end", E.where(de))
    dl = [l for l in Sx.calls("add_delay")]
    wl = [l for l in Sx.calls("wait_for_fall")]
    CB = "Q_cfg and Q_cfg.custom_buffer_time"
    ok = bool(dl) and bool(wl)
    for l in dl:
        ok = ok and any(is_(x, "Q_cfg.custom_buffer_time") is not None for x in sym.conj_of(l.cond)) and is_(arg(l, 0, "duration"), "self[channel_id].adjust_duration(self[channel_id].channel_obj._eom_buffer_time)") is not None and ("not", ("name", "_skip_buffer")) in sym.conj_of(l.cond)
    for l in wl:
        ok = ok and ("not", ("name", "_skip_buffer")) in sym.conj_of(l.cond) and any(mentions(x, "custom_buffer_time") for x in sym.conj_of(l.cond))
    rep.check(ok, "FLOW", "disable_eom|buffer-iff-custom-else-wait", "custom buffer delay if configured, else wait for the fall time", "disable_eom's buffering branches changed", E.where(de))
    # _eom_buffer_time
    bt = [f for f in E.cls(CH).methods["_eom_buffer_time"] if f.kind == "property"][0]
    r = S(E, bt).ret
    rep.check(is_(r, "int(self.eom_config.custom_buffer_time or 2 * self.rise_time)") is not None, "FLOW", "Channel._eom_buffer_time|custom-or-2*rise_time", "custom_buffer_time or 2*rise_time", f"_eom_buffer_time is no longer `custom_buffer_time or 2*rise_time`: {sh(r, 120)}", E.where(bt))
    # ------------------------------------------------ calculate_detuning_off
    cdo = [f for f in E.cls(EOM).methods["calculate_detuning_off"] if f.kind != "overload"][0]
    r = S(E, cdo, inline=False).ret
    IDX = "np.abs(Q_opts.as_array(detach=True) - optimal_detuning_off).argmin()"
    m = has(r, "Q_opts[" + IDX + "]")
    rep.check(m is not None and is_(m["Q_opts"], "self.detuning_off_options(amp_on, detuning_on)") is not None, "FLOW", "calculate_detuning_off|argmin-abs-distance", "index = argmin(|options - optimum|)", f"the closest option is no longer options[argmin(|options - optimal_detuning_off|)]: {sh(r, 200)}", E.where(cdo))
    mb = has(r, "self._switching_beams_combos[" + IDX + "]", m) if m else None
    rep.check(mb is not None, "FLOW", "calculate_detuning_off|same-index-for-beams", "detuning and switching beams picked with the same index", "detuning_off and the switching beams are no longer picked with the same closest-option index", E.where(cdo))
    doo = [f for f in E.cls(EOM).methods["detuning_off_options"]][0]
    r = S(E, doo, inline=False).ret
    comps = [unobj(t) for t in sym.subterms(r) if unobj(t)[0] == "comp"]
    ls = [c for c in comps if len(c[3]) == 1 and c[3][0][0] == sym.Pattern("self._switching_beams_combos").term and c[3][0][1] == sym.TRUE]
    rep.check(bool(ls), "FLOW", "detuning_off_options|iterates-_switching_beams_combos", "options enumerated in the order of _switching_beams_combos", "detuning_off_options no longer enumerates _switching_beams_combos in order (index correspondence with the beams lookup lost)", E.where(doo))
    ok = False
    for c in ls:
        m = is_(c[2], "self._lightshift(Q_rf, *(set(RydbergBeam) - set(Q_off)))")
        ok = ok or (m is not None and elem_of(m["Q_off"], c[3][0][0]))
    rep.check(ok, "FLOW", "detuning_off_options|beams_on=all-beams_off", "beams left on = all beams minus the switched-off ones", "the set of beams contributing to the light shift is no longer all_beams - beams_off", E.where(doo))
    # Sequence level: enable passes the computed values to the scheduler
    for nm in ("enable_eom_mode", "modify_eom_setpoint"):
        m_ = E.method(SEQ, nm)
        Sm = S(E, m_, inline=False)
        cs = [l for l in Sm.log if l.kind == "call" and l.target is not None and l.target[0] == "attr" and l.target[2] == "enable_eom"]
        if not cs:
            raise AnalysisError(f"anchor: {nm} no longer calls _Schedule.enable_eom")
        c = cs[-1]
        a = [arg(c, i, n_) for i, n_ in ((1, "amp_on"), (2, "detuning_on"), (3, "detuning_off"))]
        ok = all(x is not None for x in a) and mentions(a[0], "amp_on") and not mentions(a[0], "detuning_on") and mentions(a[1], "detuning_on") and not mentions(a[1], "amp_on") and any(t[0] == "call" and t[1] == ("attr", ("name", "self"), "_process_eom_parameters") for t in sym.subterms(a[2]))
        rep.check(ok, "FLOW", f"Sequence.{nm}|passes-setpoint-to-scheduler", "(amp_on, detuning_on, computed detuning_off) handed to the scheduler in that order", f"{nm} hands {[sh(x, 50) for x in a]} to _Schedule.enable_eom", E.where(m_, c.node))
    # ---- round 5 (independent audit) ----
    # (a) enable_eom_mode's drift correction runs over the buffer that was actually scheduled: its start is read from the
    #     buffer slot (`self._last(channel).ti`), not predicted as the duration with fall time (enable_eom rounds the
    #     fall-time delay up to the clock period / minimum duration, so the buffer starts later)
    een = E.method(SEQ, "enable_eom_mode")
    pse = [l for l in S(E, een, inline=False).calls("_phase_shift") if l.fn == een.short]
    if not pse:
        raise AnalysisError("anchor: enable_eom_mode no longer calls _phase_shift")
    for l in pse:
        a0 = arg(l, 0)
        drift_p = [t for t in sym.subterms(a0) if t[0] == "call" and t[1] == ("name", "_PhaseDriftParams")] if a0 is not None else []
        ti_ = dict(drift_p[0][3]).get("ti") if drift_p else None
        predicted = ti_ is not None and any(t[0] == "call" and t[1][0] == "attr" and t[1][2] == "get_duration" for t in sym.subterms(ti_))
        from_slot = ti_ is not None and any(is_(t, "self._last(channel).ti") is not None for t in sym.subterms(ti_))
        # (on an empty channel no buffer is added and the last slot is the initial target slot, whose ti is the -1 sentinel:
        #  the start is clamped at 0)
        if from_slot:
            clamped = any(t[0] == "call" and t[1] == ("name", "max") and any(a_ == ("const", 0) for a_ in t[2]) for t in sym.subterms(ti_)) or any(t[0] == "ifexp" for t in sym.subterms(ti_))
            rep.check(clamped, "FLOW", "Sequence.enable_eom_mode|drift-start-not-before-0", "ti = max(<buffer slot>.ti, 0)", f"enable_eom_mode starts the phase drift at `{sh(ti_, 60)}`: on an empty channel the last slot is the initial target slot (ti = -1, tf = 0), so a drift of detuning_off * 1 ns is 'corrected' although no time has elapsed and every target's phase reference moves", E.where(een, l.node))
        rep.check(from_slot and not predicted, "FLOW", "Sequence.enable_eom_mode|drift-starts-at-the-scheduled-buffer", "ti of the drift = ti of the buffer slot", f"enable_eom_mode starts the phase drift at `{sh(ti_, 80) if ti_ is not None else '?'}`, predicted before _Schedule.enable_eom() runs: enable_eom rounds the fall-time delay up to the clock period / minimum duration, the detuning_off buffer starts later, and the phase is over-corrected by detuning_off times the rounding slack", E.where(een, l.node))
    # (b) the setpoint handed to the scheduler is a copy of the caller's values (AbstractArray does not copy an ndarray)
    for nm in ("enable_eom_mode", "modify_eom_setpoint"):
        m_ = E.method(SEQ, nm)
        for c in [l for l in S(E, m_, inline=False).log if l.kind == "call" and l.target is not None and l.target[0] == "attr" and l.target[2] == "enable_eom"][-1:]:
            for i_, n_ in ((1, "amp_on"), (2, "detuning_on")):
                a_ = arg(c, i_, n_)
                copied = a_ is not None and any(t[0] == "call" and t[1][0] == "attr" and t[1][2] in ("copy", "clone") for t in sym.subterms(a_)) or (a_ is not None and any(t[0] == "call" and t[1] == ("name", "float") for t in sym.subterms(a_)))
                rep.check(copied, "FLOW", f"Sequence.{nm}|setpoint-{n_}-copied", f"{n_} is copied before it is stored as the EOM setpoint", f"{nm} stores `{sh(a_, 60) if a_ is not None else '?'}` as the EOM setpoint: AbstractArray shares memory with the caller's (0-d) array, so an in-place edit afterwards changes the amplitude / detuning of later EOM pulses while detuning_off stays the one chosen for the old values", E.where(m_, c.node))
    # (c) `tf is None` means "still open": a closed block may end at t = 0 (enabled and immediately modified / disabled on
    #     an empty channel), so the end of a block is never taken by truthiness (`block.tf or duration`)
    from .common import own_nodes as _own15
    mod_f = E.fn("pulser.sampler.samples.ChannelSamples.modulate")
    truthy_tf = [n_ for n_ in ast.walk(mod_f.node) if isinstance(n_, ast.BoolOp) and isinstance(n_.op, ast.Or) and isinstance(n_.values[0], ast.Attribute) and n_.values[0].attr == "tf"]
    rep.check(not truthy_tf, "GUARD", "ChannelSamples.modulate|block-end-tested-with-is-None", "`duration if block.tf is None else block.tf`", "ChannelSamples.modulate takes the end of an EOM block as `block.tf or self.duration`: a block closed at t = 0 (tf == 0 is falsy) is treated as still open and the whole channel is modulated with the EOM bandwidth", E.where(mod_f, truthy_tf[0] if truthy_tf else None))
    # (d) the controlled beams of a RydbergEOM are distinct (a repeated beam adds the 'both off' switching combination)
    rpi = E.fn("pulser.channels.eom.RydbergEOM.__post_init__")
    dup = any(l.kind == "raise" and mentions(l.cond, "controlled_beams") and any(t[0] == "call" and t[1] == ("name", "set") for t in sym.subterms(l.cond)) for l in S(E, rpi, inline=False).log)
    rep.check(dup, "GUARD", "RydbergEOM.__post_init__|controlled-beams-distinct", "len(set(controlled_beams)) != len(controlled_beams) is rejected", "RydbergEOM accepts the same beam twice in controlled_beams: (RED, RED) adds the 'both beams off' switching combination, so a detuning_off is chosen that an EOM controlling one beam cannot produce", E.where(rpi))
    # (e) get_samples recognises the end buffer by the amplitude at the start of the slot after an EOM block: a zero-length
    #     slot (a retarget at the very end) has no sample there
    gs15 = E.method("pulser.sequence._schedule._ChannelSchedule", "get_samples")
    reads = [l for l in S(E, gs15, inline=False).log if l.kind in ("test",) and l.value is not None and any(is_(t, "Q_a[Q_s.ti] == 0") is not None or is_(t, "0 == Q_a[Q_s.ti]") is not None for t in sym.subterms(l.value))]
    ok_e = all(any(x[0] == "cmp" and x[1] in ("Lt", "Gt", "NotEq") and mentions(x, "ti") and mentions(x, "tf") for x in sym.subterms(l.value)) or any(x[0] == "cmp" and mentions(x, "ti") and mentions(x, "tf") for x in sym.conj_of(l.cond)) for l in reads)
    rep.check(ok_e, "GUARD", "_ChannelSchedule.get_samples|end-buffer-slot-not-empty", "`s.tf > s.ti and amp[s.ti] == 0`", "get_samples reads amp[s.ti] of the slot that follows an EOM block without checking that the slot has a sample: a zero-length retarget at the very end of a Local channel has s.ti == len(amp) and sample() / draw() / the emulator raise IndexError", E.where(gs15))
    # modify_eom_setpoint corrects the phase reference by: drift at the OLD setpoint until the buffer starts, plus drift
    # at the NEW setpoint until the buffer ends (the buffer is played at the new off-detuning; counting it twice or
    # not at all leaves a residual phase)
    mes = E.method(SEQ, "modify_eom_setpoint")
    pcs = [l for l in S(E, mes, inline=False).calls("_phase_shift") if l.fn == mes.short]
    if not pcs:
        raise AnalysisError("anchor: modify_eom_setpoint no longer calls _phase_shift")
    for l in pcs:
        a0 = arg(l, 0)
        # the old block's drift is evaluated at the instant the new drift starts (new.ti = the channel's end before the
        # buffer): when a buffer is added that is the buffer's ti, and when none is (empty channel) the last slot is the
        # initial target slot whose ti is the -1 sentinel -- not a time
        m = has(a0, "Q_old.calc_phase_drift(Q_new.ti) + Q_new.calc_phase_drift(Q_b.tf)") if a0 is not None else None
        stale = has(a0, "Q_old.calc_phase_drift(Q_b.ti) + Q_new.calc_phase_drift(Q_b.tf)") if a0 is not None and m is None else None
        if stale is not None and is_(stale["Q_b"], "self._last(channel)") is not None:
            rep.violation("FLOW", "Sequence.modify_eom_setpoint|old-drift-until-the-new-drift-starts", "modify_eom_setpoint evaluates the old setpoint's drift at `self._last(channel).ti`: on an empty channel no buffer is added, the last slot is the initial target slot and its ti is the -1 sentinel, so the phase reference moves by -detuning_off_old * 1e-3 rad although no time has elapsed (enable/disable/add_eom_pulse give exactly 0 there)", E.where(mes, l.node))
            m = stale
        ok = m is not None and mentions(m["Q_old"], "_get_last_eom_pulse_phase_drift") and unobj(m["Q_new"])[0] == "call" and unobj(m["Q_new"])[1] == ("name", "_PhaseDriftParams") and is_(m["Q_b"], "self._last(channel)") is not None
        rep.check(ok, "FLOW", "Sequence.modify_eom_setpoint|old-drift-until-buffer-start+new-drift-until-buffer-end", "old.calc_phase_drift(buffer.ti) + new.calc_phase_drift(buffer.tf)", f"the phase correction of modify_eom_setpoint is `{sh(a0, 200)}`: it must be the old setpoint's drift up to the start of the buffer plus the new setpoint's drift up to its end", E.where(mes, l.node))
    # who may build drift parameters: the two methods that open a block (drift counted from the buffer start) and the
    # one helper that looks up the last EOM pulse; every correction of an *elapsed* drift goes through that helper
    ctor_sites = set()
    for f in E.P.all_functions():
        if f.kind == "overload" or not f.module.name.startswith("pulser.sequence"):
            continue
        if any(isinstance(n, ast.Call) and (dotted(n.func) or "") == "_PhaseDriftParams" for n in own_nodes(f)):
            ctor_sites.add(f.short)
    allowed_ctor = {"Sequence.enable_eom_mode", "Sequence.modify_eom_setpoint", "Sequence._get_last_eom_pulse_phase_drift"}
    rep.check(ctor_sites <= allowed_ctor and "Sequence._get_last_eom_pulse_phase_drift" in ctor_sites, "OWN", "_PhaseDriftParams|who-may-construct", f"built only in {sorted(ctor_sites)}", f"_PhaseDriftParams is also built in {sorted(ctor_sites - allowed_ctor)}: the drift reference of an elapsed interval must come from _get_last_eom_pulse_phase_drift (drift since the last EOM pulse, not since the start of the block)", E.where(aep))
    dem = E.method(SEQ, "disable_eom_mode")
    Sdm = S(E, dem, inline=False)
    psh = [l for l in Sdm.log if l.fn == dem.short and l.kind == "call" and l.target == ("attr", ("name", "self"), "_phase_shift")]
    ok = bool(psh)
    for l in psh:
        m = is_(arg(l, 0), "-float(self._get_last_eom_pulse_phase_drift(channel).calc_phase_drift(Q_tf))")
        ok = ok and m is not None and is_(m["Q_tf"], "self._schedule[channel].eom_blocks[-1].tf") is not None
    rep.check(ok, "FLOW", "disable_eom_mode|drift-since-last-eom-pulse-until-block-end", "phase shift = -drift(last EOM pulse -> end of the block)", "disable_eom_mode no longer corrects the drift accumulated from the last EOM pulse (via _get_last_eom_pulse_phase_drift) up to the end of the block", E.where(dem))
    # modulation: every EOM block gets its mask AND its fall-time extension (same loop, same block end)
    mod = E.method("pulser.sampler.samples.ChannelSamples", "modulate")
    Sm_ = S(E, mod, inline=False)
    blocks = sym.Pattern("self.eom_blocks").term
    sts = [l for l in Sm_.logged("store") if l.fn == mod.short and l.target is not None and l.target[0] == "idx" and l.target[2][0] == "slice" and l.value == ("const", True) and l.loops and l.loops[-1] == blocks]
    inside = {}
    for l in sts:
        inside.setdefault(l.target[1], []).append(l.target[2])
    ok = len(inside) == 2
    if ok:
        (o1, s1), (o2, s2) = sorted(inside.items(), key=lambda kv: sym.tkey(kv[1][0]))
        pair = None
        for a, b in ((s1[0], s2[0]), (s2[0], s1[0])):
            m = is_(a, "slice(Q_b.ti, Q_end)")
            if m is not None and is_(b, "slice(Q_end, Q_end + Q_fall)", {"Q_end": m["Q_end"]}) is not None:
                pair = m
        ok = pair is not None and elem_of(pair["Q_b"], blocks)
    rep.check(ok, "FLOW", "modulate|every-block-mask-extended-by-fall-time", "for each EOM block: mask[ti:end] and mask_ext[end:end+fall] are set in the same loop", "ChannelSamples.modulate no longer extends the EOM mask of *every* block by the EOM fall time (the extension must be written inside the loop over eom_blocks, from that block's end): the tail of every non-final block is cut off", E.where(mod))
    # the slot before an EOM block is that block's start buffer when it ends where the block starts AND ends at that
    # block's off-detuning: the interval start, the block and the buffer entry that is written carry the SAME index
    gs15 = E.method(CHS, "get_samples")
    Sg15 = S(E, gs15, inline=False)
    sb_obj = [l.value for l in Sg15.logged("assign") if l.target == ("name", "eom_start_buffers")]
    n_sb = 0
    for l in Sg15.logged("store"):
        if l.target is None or l.target[0] != "idx" or not sb_obj or unobj(l.target[1]) != unobj(sb_obj[0]) or not l.loops:
            continue
        K = l.target[2]
        idxs = [t for x in sym.conj_of(l.cond) for t in sym.subterms(x) if t[0] == "idx" and mentions(t[1], "eom_blocks") and t[2][0] != "slice"]
        if not idxs:
            continue
        n_sb += 1
        wrong = [t for t in idxs if t[2] != K]
        rep.check(not wrong, "FLOW", "_ChannelSchedule.get_samples|start-buffer-of-the-block-it-precedes", "eom_intervals_ti[k], eom_blocks[k].detuning_off and eom_start_buffers[k] use one index",
                  f"the start buffer written to entry [{sh(K, 60)}] is recognised by `{sh(wrong[0], 100) if wrong else ''}`, a different block: with two EOM blocks of different off-detunings the buffer before the first block is compared with the last block's detuning_off and is not marked, so the modulated output ramps with the channel bandwidth inside the configured buffer", E.where(gs15, l.node))
    if n_sb == 0:
        rep.excepted("FLOW", "_ChannelSchedule.get_samples|start-buffer-of-the-block-it-precedes", "the write of eom_start_buffers under a test on eom_blocks was not recognised: not decided", E.where(gs15))
    rep.floor("FLOW", 22)
    return {}
