"""Symbolic normal form of a function (DESIGN 2.10): what a rule matches instead of source text.

The rules of the narrow properties compare *formulas* and *conditions* in the code with the documented
ones.  Matching the source text of a statement would fire on every behaviour-preserving clean-up (a new
local temporary, an if/else turned into a conditional expression, an extracted private helper, a literal
replaced by a module constant, commuted factors).  This module therefore evaluates a function body
*symbolically* -- no code is run, no solver is involved: it is global value numbering over the syntax
tree -- into canonical terms in which

* local temporaries are replaced by their definitions (through if/else merges: ``x = a; if c: x = b``
  becomes ``ifexp(c, b, a)``), private module constants by their value expression;
* calls to private helpers (``self._name(...)``, module-level ``_name(...)``, nested functions) are
  replaced by the helper's own symbolic return value with the arguments substituted (bounded depth);
* sums and products are flattened, sorted and constant-folded (``a - (b - c)`` = ``a - b + c``,
  ``0.5 * x * y`` = ``y * x / 2``), comparisons are oriented (``a > b`` = ``b < a``), negations pushed
  inwards, ``and``/``or`` flattened and sorted, conditional expressions given one polarity,
  ``cast(T, x)`` and ``bool(x)`` are transparent, ``slice(a, b)`` = ``a:b``;
* a loop that only appends to a fresh list / stores into a fresh dict is the comprehension it spells;
* bound variables of comprehensions and lambdas are numbered, loop variables are ``elem(<iterable>)``.

Every call, store and return is logged with its *path condition* (conjunction of canonical literals,
early ``return``/``continue``/``raise`` exits included).  Rules then use ``find``/``match`` with patterns
written as Python expressions whose ``Q_*`` names are metavariables.

Terms are nested tuples: ('const', v) ('name', id) ('attr', base, name) ('idx', base, index)
('slice', lo, hi, step) ('call', func, (args...), ((kw, term)...)) ('add', t...) ('mul', t...)
('inv', t) ('bin', op, a, b) ('cmp', op, a, b) ('and', t...) ('or', t...) ('not', t)
('ifexp', c, a, b) ('tuple'|'list'|'set', t...) ('dict', (k, v)...) ('comp', elt, gens) ('lambda', n, body)
('elem', iterable, loop nesting depth) ('item', t, i) ('bound', i) ('raise', exc) ('loop', name, pre, body) ('opaque', text).
"""
from __future__ import annotations

import ast
import itertools
from dataclasses import dataclass, field
from typing import Any, Callable, Iterable, Optional

from .model import FunctionInfo, Program, dotted, norm

Term = tuple
FALL: Term = ("fall",)
UNDEF: Term = ("undef",)
TRUE: Term = ("const", True)
NONE: Term = ("const", None)

MAX_INLINE_DEPTH = 3
MAX_INLINE_STMTS = 80
MAX_TERM_NODES = 4000


# --------------------------------------------------------------------------- term constructors
def is_num(t: Term) -> bool:
    return t[0] == "const" and isinstance(t[1], (int, float, complex)) and not isinstance(t[1], bool)


def tkey(t: Any) -> str:
    return repr(t)


def size(t: Any, _cap: int = MAX_TERM_NODES) -> int:
    n = 0
    stack = [t]
    while stack:
        x = stack.pop()
        n += 1
        if n > _cap:
            return n
        if isinstance(x, tuple):
            stack.extend(x)
    return n


def mk_add(terms: Iterable[Term]) -> Term:
    flat: list[Term] = []
    c: Any = 0
    for t in terms:
        if t[0] == "add":
            sub = t[1:]
        else:
            sub = (t,)
        for s in sub:
            if is_num(s):
                c = c + s[1]
            else:
                flat.append(s)
    # collect like terms: 2*x + x - 3*x = 0 (exact for ints; for floats it identifies the formula, not the rounding)
    coef: dict = {}
    order: list = []
    for s in flat:
        k, base = 1, s
        if s[0] == "mul" and is_num(s[1]):
            k = s[1][1]
            base = s[2] if len(s) == 3 else ("mul",) + s[2:]
        if base not in coef:
            coef[base] = 0
            order.append(base)
        coef[base] = coef[base] + k
    flat = []
    for base in order:
        k = coef[base]
        if k == 0:
            continue
        flat.append(base if k == 1 else mk_mul([("const", k), base]))
    flat.sort(key=tkey)
    if c != 0 or not flat:
        flat.append(("const", c))
    if len(flat) == 1:
        return flat[0]
    return ("add",) + tuple(flat)


def _exact_inverse(v: Any) -> Optional[Any]:
    if isinstance(v, bool) or not isinstance(v, (int, float)) or v == 0:
        return None
    inv = 1.0 / v
    m = abs(float(v))
    # powers of two divide exactly: x / 2 == x * 0.5 bit for bit
    while m > 1:
        m /= 2
    while m < 1:
        m *= 2
    return inv if m == 1 else None


def mk_mul(factors: Iterable[Term]) -> Term:
    flat: list[Term] = []
    c: Any = 1
    for t in factors:
        sub = t[1:] if t[0] == "mul" else (t,)
        for s in sub:
            if is_num(s):
                c = c * s[1]
            elif s[0] == "inv" and is_num(s[1]) and _exact_inverse(s[1][1]) is not None:
                c = c * _exact_inverse(s[1][1])
            else:
                flat.append(s)
    # the order of the non-constant factors is kept: `*` may be a (non-commutative) operator product.
    # Patterns match products up to permutation anyway (see _match_ac).
    if isinstance(c, float) and c == int(c) and abs(c) < 2**53:
        c = int(c)
    if c == -1 and len(flat) == 1 and flat[0][0] == "add":
        # -(a + b) = -a - b exactly (negation commutes with rounding)
        return mk_add([mk_mul([("const", -1), x]) for x in flat[0][1:]])
    if c != 1 or not flat:
        flat.insert(0, ("const", c))
    if len(flat) == 1:
        return flat[0]
    return ("mul",) + tuple(flat)


def mk_neg(t: Term) -> Term:
    return mk_mul([("const", -1), t])


def mk_inv(t: Term) -> Term:
    if t[0] == "inv":
        return t[1]
    if t[0] == "mul":
        return mk_mul([mk_inv(x) for x in t[1:]])
    return ("inv", t)


MIRROR = {"Gt": "Lt", "GtE": "LtE"}
NEG = {"Eq": "NotEq", "NotEq": "Eq", "Lt": "GtE", "LtE": "Gt", "Gt": "LtE", "GtE": "Lt", "Is": "IsNot", "IsNot": "Is", "In": "NotIn", "NotIn": "In"}
SYMM = {"Eq", "NotEq", "Is", "IsNot"}


def mk_cmp(op: str, a: Term, b: Term) -> Term:
    if op in MIRROR:
        op, a, b = MIRROR[op], b, a
    if op in SYMM and tkey(b) < tkey(a):
        a, b = b, a
    return ("cmp", op, a, b)


def mk_not(t: Term) -> Term:
    if t[0] == "not":
        return t[1]
    if t[0] == "cmp":
        op = NEG[t[1]]
        return mk_cmp(op, t[2], t[3])
    if t[0] == "and":
        return mk_or([mk_not(x) for x in t[1:]])
    if t[0] == "or":
        return mk_and([mk_not(x) for x in t[1:]])
    if t[0] == "const" and isinstance(t[1], bool):
        return ("const", not t[1])
    return ("not", t)


def _strip_bool(t: Term) -> Term:
    if t[0] == "call" and t[1] == ("name", "bool") and len(t[2]) == 1 and not t[3]:
        return _strip_bool(t[2][0])
    # in a boolean context a conditional with a constant arm is a conjunction / disjunction (a private boolean helper
    # written with early `return False` inlines to this form)
    if t[0] == "ifexp" and len(t) == 4:
        c, a, b = t[1], t[2], t[3]
        if b == ("const", False):
            return mk_and([c, a])
        if a == ("const", False):
            return mk_and([mk_not(c), b])
        if a == ("const", True):
            return mk_or([c, b])
        if b == ("const", True):
            return mk_or([mk_not(c), a])
    return t


def mk_and(ts: Iterable[Term]) -> Term:
    flat: list[Term] = []
    for t in ts:
        t = _strip_bool(t)
        for s in t[1:] if t[0] == "and" else (t,):
            if s == TRUE:
                continue
            if s not in flat:
                flat.append(s)
    flat.sort(key=tkey)
    if not flat:
        return TRUE
    if len(flat) == 1:
        return flat[0]
    return ("and",) + tuple(flat)


def mk_or(ts: Iterable[Term]) -> Term:
    flat: list[Term] = []
    for t in ts:
        t = _strip_bool(t)
        for s in t[1:] if t[0] == "or" else (t,):
            if s not in flat:
                flat.append(s)
    flat.sort(key=tkey)
    if len(flat) == 1:
        return flat[0]
    return ("or",) + tuple(flat)


def mk_ifexp(c: Term, a: Term, b: Term) -> Term:
    c = _strip_bool(c)
    if a == b:
        return a
    if a[0] == "building" and b[0] == "building" and a[1] == b[1]:
        # a container being filled: each item carries its own path condition, so the merge of two
        # states one of which extends the other (skipped by `continue` / an if without else) is the longer one
        if a[2][: len(b[2])] == b[2]:
            return a
        if b[2][: len(a[2])] == a[2]:
            return b
        if len(a[2]) == len(b[2]) and a[2] and a[2][:-1] == b[2][:-1] and a[2][-1][2] == b[2][-1][2]:
            # `if c: out.append(x) else: out.append(y)`: one item whose value is conditional
            (ea, pa, la), (eb, pb, _lb) = a[2][-1], b[2][-1]
            shared = [x for x in conj_of(pa) if x in conj_of(pb)]
            if ea[0] == "tuple" and eb[0] == "tuple" and len(ea) == 3 and len(eb) == 3 and ea[1] == eb[1]:
                em: Term = ("tuple", ea[1], mk_ifexp(c, ea[2], eb[2]))
            else:
                em = mk_ifexp(c, ea, eb)
            return ("building", a[1], a[2][:-1] + ((em, mk_and(shared), la),))
    if c == TRUE:
        return a
    if c == ("const", False):
        return b
    if c[0] == "not":
        return mk_ifexp(c[1], b, a)
    if c[0] == "cmp" and c[1] in ("NotEq", "IsNot", "NotIn"):
        return mk_ifexp(mk_not(c), b, a)
    if c[0] == "cmp" and c[1] in ("Lt", "LtE") and tkey(c[3]) < tkey(c[2]):
        return ("ifexp", mk_not(c), b, a)  # not(a < b) = (b <= a): one orientation per pair of operands
    if c[0] == "or":
        return ("ifexp", mk_not(c), b, a)
    return ("ifexp", c, a, b)


def conj_of(c: Term) -> tuple:
    """Literals of a path condition."""
    if c == TRUE:
        return ()
    if c[0] == "and":
        return c[1:]
    return (c,)


def subst(t: Any, fn: Callable[[Term], Optional[Term]]) -> Any:
    """Bottom-up rewrite; ``fn`` returns a replacement or None."""
    if not isinstance(t, tuple):
        return t
    r = fn(t)
    if r is not None:
        return r
    if not t:
        return t
    tag = t[0]
    if not isinstance(tag, str):
        return tuple(subst(x, fn) for x in t)
    kids = tuple(subst(x, fn) for x in t[1:])
    if kids == t[1:]:
        return t
    return rebuild(tag, kids)


def rebuild(tag: str, kids: tuple) -> Term:
    if tag == "add":
        return mk_add(kids)
    if tag == "mul":
        return mk_mul(kids)
    if tag == "inv":
        return mk_inv(kids[0])
    if tag == "and":
        return mk_and(kids)
    if tag == "or":
        return mk_or(kids)
    if tag == "not":
        return mk_not(kids[0])
    if tag == "cmp":
        return mk_cmp(kids[0], kids[1], kids[2])
    if tag == "ifexp":
        return mk_ifexp(kids[0], kids[1], kids[2])
    return (tag,) + kids


def renumber(t: Any) -> Any:
    """Number the object identities of a term in order of first occurrence (to compare terms of two functions)."""
    ids: dict = {}

    def fn(x: Term) -> Optional[Term]:
        if x and x[0] == "obj":
            k = ids.setdefault(x[1], len(ids))
            return ("obj", k, subst(x[2], fn))
        return None

    return subst(t, fn)


def subterms(t: Any) -> Iterable[Term]:
    stack = [t]
    while stack:
        x = stack.pop()
        if isinstance(x, tuple):
            if x and isinstance(x[0], str):
                yield x
            stack.extend(x)


def show(t: Any, depth: int = 0) -> str:
    """Readable rendering of a term (for evidence and messages)."""
    if not isinstance(t, tuple) or not t:
        return repr(t)
    tag = t[0]
    if depth > 12:
        return "..."
    s = lambda x: show(x, depth + 1)  # noqa: E731
    if not isinstance(tag, str):
        return "(" + ", ".join(s(x) for x in t) + ")"
    if tag == "comp":
        gens = " ".join(f"for _ in {s(g[0])}" + ("" if g[1] == TRUE else f" if {s(g[1])}") for g in t[3])
        return f"[{s(t[2])} {gens}]"
    if tag == "dict":
        return "{" + ", ".join(f"{s(k)}: {s(v)}" for k, v in t[1:]) + "}"
    if tag == "const":
        return repr(t[1])
    if tag == "name":
        return t[1]
    if tag == "attr":
        return f"{s(t[1])}.{t[2]}"
    if tag == "idx":
        return f"{s(t[1])}[{s(t[2])}]"
    if tag == "slice":
        return ":".join("" if x == NONE else s(x) for x in t[1:])
    if tag == "call":
        args = [s(a) for a in t[2]] + [f"{k}={s(v)}" for k, v in t[3]]
        return f"{s(t[1])}({', '.join(args)})"
    if tag == "add":
        return "(" + " + ".join(s(x) for x in t[1:]) + ")"
    if tag == "mul":
        return "*".join(s(x) for x in t[1:])
    if tag == "inv":
        return f"1/({s(t[1])})"
    if tag == "bin":
        return f"({s(t[2])} {t[1]} {s(t[3])})"
    if tag == "cmp":
        ops = {"Eq": "==", "NotEq": "!=", "Lt": "<", "LtE": "<=", "Is": "is", "IsNot": "is not", "In": "in", "NotIn": "not in"}
        return f"({s(t[2])} {ops.get(t[1], t[1])} {s(t[3])})"
    if tag in ("and", "or"):
        return "(" + f" {tag} ".join(s(x) for x in t[1:]) + ")"
    if tag == "not":
        return f"not {s(t[1])}"
    if tag == "ifexp":
        return f"({s(t[2])} if {s(t[1])} else {s(t[3])})"
    if tag in ("tuple", "list", "set"):
        br = {"tuple": "()", "list": "[]", "set": "{}"}[tag]
        return br[0] + ", ".join(s(x) for x in t[1:]) + br[1]
    if tag == "elem":
        return f"elem({s(t[1])})"
    if tag == "item":
        return f"{s(t[1])}#{t[2]}"
    if tag == "raise":
        return f"raise {s(t[1])}"
    if tag == "opaque":
        return f"<{t[1]}>"
    return tag + "(" + ", ".join(s(x) for x in t[1:]) + ")"


# --------------------------------------------------------------------------- evaluation
def _getattr_const(t: Term) -> Optional[Term]:
    if isinstance(t, tuple) and len(t) == 4 and t[0] == "call" and t[1] == ("name", "getattr") and len(t[2]) == 2 and not t[3] and t[2][1][0] == "const" and isinstance(t[2][1][1], str) and t[2][1][1].isidentifier():
        return ("attr", t[2][0], t[2][1][1])
    return None


@dataclass
class Logged:
    kind: str  # 'call' | 'store' | 'aug' | 'return' | 'raise' | 'assign' | 'del' | 'test'
    node: ast.AST
    target: Optional[Term]  # call: function term; store/aug/assign: target term
    value: Optional[Term]  # call: the whole call term; others: value term
    cond: Term  # path condition
    loops: tuple = ()  # iterable terms of the enclosing loops, outermost first
    fn: str = ""  # short name of the function the node belongs to (helpers are inlined)
    op: str = ""  # aug: operator name

    def literals(self) -> tuple:
        return conj_of(self.cond)


@dataclass
class Outcome:
    env: Optional[dict]  # None: the block never falls through
    ret: Optional[Term]  # term with FALL placeholders, or None when no path returns/raises
    path: Term = TRUE  # path condition holding when the block falls through


class Sym:
    """Symbolic evaluation of one function."""

    def __init__(self, P: Program, f: FunctionInfo, inline: bool = True, args: Optional[dict] = None, _depth: int = 0, _stack: tuple = (), _log: Optional[list] = None, _path: Term = TRUE, _loops: tuple = (), _n_obj: Any = None):
        self.P = P
        self.f = f
        self.inline = inline
        self.depth = _depth
        self.stack = _stack + (f.qualname,)
        self.log: list[Logged] = _log if _log is not None else []
        self.path0 = _path
        self.loops0 = _loops
        self.local_fns: dict[str, ast.FunctionDef] = {}
        self._pending: list[Term] = []
        self._exits: list[list] = []
        self._mutated = _mutated_names(f.node)
        self._n_obj = _n_obj if _n_obj is not None else itertools.count()
        env: dict[str, Term] = {}
        a = f.node.args
        for p in a.posonlyargs + a.args + a.kwonlyargs + ([a.vararg] if a.vararg else []) + ([a.kwarg] if a.kwarg else []):
            env[p.arg] = ("name", p.arg)
        if args:
            env.update(args)
        self.params = dict(env)
        self._bound = itertools.count()
        out = self.block(f.node.body, env, _path, _loops)
        self.env = out.env or {}
        r = out.ret
        if r is None:
            r = NONE
        elif out.env is not None:
            r = self._fill(r, NONE)
        self.ret_full: Term = self._fill(r, NONE)  # with the raising alternatives
        # the value when the function returns normally (what a caller sees; raises are in the log with their conditions)
        self.ret, self.ret_facts = _strip_raises(self.ret_full)

    # ------------------------------------------------------------------ helpers
    @staticmethod
    def _fill(t: Term, rest: Term) -> Term:
        if t == FALL:
            return rest
        return subst(t, lambda x: rest if x == FALL else None)

    def _record(self, kind: str, node: ast.AST, target: Optional[Term], value: Optional[Term], path: Term, loops: tuple, op: str = "") -> None:
        self.log.append(Logged(kind, node, target, value, path, loops, self.f.short, op))

    def _module_const(self, name: str) -> Optional[Term]:
        m = self.f.module
        node = m.assigns.get(name)
        if node is None:
            tgt = m.imports.get(name)
            if tgt and "." in tgt:
                mod, _, attr = tgt.rpartition(".")
                m2 = self.P.modules.get(mod)
                if m2 is not None and attr in m2.assigns:
                    m, node, name = m2, m2.assigns[attr], attr
        if node is None:
            return None
        if not name.startswith("_"):
            return None  # public constants keep their name (it is part of the vocabulary rules use)
        if _const_like(node):
            return self.ev(node, {}, TRUE, ())
        if name.isupper() and _table_like(node):
            # a private UPPER_CASE literal table (lookup dict, tuple of names): read-only by convention
            return self.ev(node, {}, TRUE, ())
        return None

    # --------------------------------------------------------------- expressions
    def ev(self, e: Optional[ast.AST], env: dict, path: Term, loops: tuple) -> Term:
        if e is None:
            return NONE
        E = lambda x: self.ev(x, env, path, loops)  # noqa: E731
        if isinstance(e, ast.Constant):
            return ("const", e.value)
        if isinstance(e, ast.Name):
            if e.id in env:
                return env[e.id]
            c = self._module_const(e.id)
            if c is not None:
                return c
            return ("name", e.id)
        if isinstance(e, ast.Attribute):
            return ("attr", E(e.value), e.attr)
        if isinstance(e, ast.Subscript):
            base, ix = E(e.value), E(e.slice)
            # for k, v in d.items(): d[k] is v
            if ix[0] == "item" and ix[2] == 0 and ix[1][0] == "elem" and ix[1][1] == ("call", ("attr", base, "items"), (), ()):
                return ("item", ix[1], 1)
            return ("idx", base, ix)
        if isinstance(e, ast.Slice):
            return ("slice", E(e.lower), E(e.upper), E(e.step))
        if isinstance(e, ast.Tuple):
            return ("tuple",) + tuple(E(x) for x in e.elts)
        if isinstance(e, ast.List):
            return ("list",) + tuple(E(x) for x in e.elts)
        if isinstance(e, ast.Set):
            return ("set",) + tuple(sorted((E(x) for x in e.elts), key=tkey))
        if isinstance(e, ast.Dict):
            return ("dict",) + tuple((E(k) if k is not None else ("const", "**"), E(v)) for k, v in zip(e.keys, e.values))
        if isinstance(e, ast.Starred):
            return ("star", E(e.value))
        if isinstance(e, ast.UnaryOp):
            v = E(e.operand)
            if isinstance(e.op, ast.Not):
                return mk_not(_strip_bool(v))
            if isinstance(e.op, ast.USub):
                return mk_neg(v)
            if isinstance(e.op, ast.UAdd):
                return v
            return ("bin", "Invert", v, NONE)
        if isinstance(e, ast.BinOp):
            a, b = E(e.left), E(e.right)
            if isinstance(e.op, ast.Add):
                if (_strlike(a) or _strlike(b)) and not (_listy(a) or _listy(b)):
                    # "sigma_" + a + b  is the f-string f"sigma_{a}{b}"
                    return mk_fstr(_str_parts(a) + _str_parts(b))
                if _stringy(a) or _stringy(b) or _listy(a) or _listy(b):
                    return ("bin", "Concat", a, b)
                return mk_add([a, b])
            if isinstance(e.op, ast.Sub):
                return mk_add([a, mk_neg(b)])
            if isinstance(e.op, ast.Mult):
                if _stringy(a) or _stringy(b) or a[0] in ("list", "tuple") or b[0] in ("list", "tuple"):
                    return ("bin", "Repeat", a, b)
                return mk_mul([a, b])
            if isinstance(e.op, ast.Div):
                return mk_mul([a, mk_inv(b)])
            opn = type(e.op).__name__
            if opn in ("BitAnd", "BitOr", "BitXor") and tkey(b) < tkey(a):
                a, b = b, a  # commutative on sets, ints and boolean arrays
            return ("bin", opn, a, b)
        if isinstance(e, ast.BoolOp):
            # short-circuit: later operands are evaluated under the earlier ones
            vals = []
            p = path
            for v in e.values:
                t = self.ev(v, env, p, loops)
                vals.append(t)
                p = mk_and([p, t if isinstance(e.op, ast.And) else mk_not(t)])
            return mk_and(vals) if isinstance(e.op, ast.And) else mk_or(vals)
        if isinstance(e, ast.Compare):
            parts = []
            left = E(e.left)
            for op, r in zip(e.ops, e.comparators):
                right = E(r)
                parts.append(mk_cmp(type(op).__name__, left, right))
                left = right
            return parts[0] if len(parts) == 1 else mk_and(parts)
        if isinstance(e, ast.IfExp):
            c = _strip_bool(E(e.test))
            self._record("test", e, None, c, path, loops)
            a = self.ev(e.body, env, mk_and([path, c]), loops)
            b = self.ev(e.orelse, env, mk_and([path, mk_not(c)]), loops)
            return mk_ifexp(c, a, b)
        if isinstance(e, ast.NamedExpr):
            v = E(e.value)
            if isinstance(e.target, ast.Name):
                env[e.target.id] = v
            return v
        if isinstance(e, ast.Call):
            return self._call(e, env, path, loops)
        if isinstance(e, (ast.ListComp, ast.SetComp, ast.GeneratorExp, ast.DictComp)):
            return self._comp(e, env, path, loops)
        if isinstance(e, ast.Lambda):
            env2 = dict(env)
            names = [x.arg for x in e.args.posonlyargs + e.args.args + e.args.kwonlyargs]
            for i, nm in enumerate(names):
                env2[nm] = ("bound", f"l{i}")
            return ("lambda", len(names), self.ev(e.body, env2, path, loops))
        if isinstance(e, ast.JoinedStr):
            return mk_fstr([E(v.value) if isinstance(v, ast.FormattedValue) else ("const", v.value if isinstance(v, ast.Constant) else "?") for v in e.values])
        if isinstance(e, ast.Await):
            return E(e.value)
        return ("opaque", norm(e)[:80])

    def _comp(self, e: ast.AST, env: dict, path: Term, loops: tuple) -> Term:
        env2 = dict(env)
        gens = []
        p = path
        lp = loops
        for g in e.generators:  # type: ignore[attr-defined]
            it = self.ev(g.iter, env2, p, lp)
            self._bind_target(g.target, ("elem", it, len(lp)), env2)
            it = self._pairs_source(it, g.target)
            lp = lp + (it,)
            conds = []
            for c in g.ifs:
                ct = _strip_bool(self.ev(c, env2, p, lp))
                conds.append(ct)
                p = mk_and([p, ct])
            gens.append((it, mk_and(conds)))
        if isinstance(e, ast.DictComp):
            elt: Term = ("tuple", self.ev(e.key, env2, p, lp), self.ev(e.value, env2, p, lp))
            kind = "dict"
        else:
            elt = self.ev(e.elt, env2, p, lp)  # type: ignore[attr-defined]
            kind = {"ListComp": "list", "SetComp": "set", "GeneratorExp": "gen"}[type(e).__name__]
        # a comprehension over a literal tuple/list is the literal of its instances:
        # [f(w) for w in (a, b)]  ==  [f(a), f(b)]
        if len(gens) == 1 and gens[0][1] == TRUE and gens[0][0][0] in ("tuple", "list") and 1 <= len(gens[0][0]) - 1 <= 8 and kind != "dict":
            it = gens[0][0]
            var = ("elem", it, len(loops))
            items = tuple(subst(elt, lambda t, v=v: v if t == var else None) for v in it[1:])
            # getattr(x, <loop variable>) became getattr(x, "name") in each instance: that is x.name
            items = tuple(subst(i_, _getattr_const) for i_ in items)
            return ("list",) + items
        return ("comp", kind, elt, tuple(gens))

    def _fresh(self, name: str, val: Term) -> Term:
        """A local that is mutated in place later keeps its identity: two arrays created by the same expression
        (``amp, det = zeros(n), zeros(n)``) are different objects.  They are numbered in binding order."""
        if val[0] in ("call", "list", "dict", "set", "comp", "tuple"):
            k = next(self._n_obj)  # every creation is counted, so the number of an object does not depend on the others' use
            if name in self._mutated:
                return ("obj", k, val)
        return val

    @staticmethod
    def _pairs_source(it: Term, tgt: ast.AST) -> Term:
        """`for k, v in [(f(x), g(x)) for x in X]` (no filter) iterates over X: the names are bound to f(x), g(x)."""
        if (
            isinstance(tgt, (ast.Tuple, ast.List))
            and it[0] == "comp"
            and it[1] in ("list", "gen", "set")
            and it[2][0] == "tuple"
            and len(it[2]) - 1 == len(tgt.elts)
            and len(it[3]) == 1
            and it[3][0][1] == TRUE
            and not any(isinstance(y, ast.Starred) for y in tgt.elts)
        ):
            return it[3][0][0]
        return it

    def _bind_target(self, tgt: ast.AST, val: Term, env: dict) -> None:
        if isinstance(tgt, ast.Name):
            env[tgt.id] = self._fresh(tgt.id, val)
        elif isinstance(tgt, (ast.Tuple, ast.List)) and val[0] == "elem" and len(tgt.elts) == 3 and all(isinstance(x, ast.Name) for x in tgt.elts) and any(
            t[0] == "attr" and t[2] in ("_calls", "_to_build_calls") for t in subterms(val[1])
        ):
            # the call record holds _Call(name, args, kwargs) named tuples: unpacking one is reading its three fields
            for x, fld in zip(tgt.elts, ("name", "args", "kwargs")):
                env[x.id] = ("attr", val, fld)
        elif (
            isinstance(tgt, (ast.Tuple, ast.List))
            and val[0] == "elem"
            and val[1][0] == "comp"
            and val[1][1] in ("list", "gen", "set")
            and val[1][2][0] == "tuple"
            and len(val[1][2]) - 1 == len(tgt.elts)
            and len(val[1][3]) == 1
            and not any(isinstance(y, ast.Starred) for y in tgt.elts)
        ):
            # `for k, v in [(f(x), g(x)) for x in X]` (also `{f(x): g(x) for x in X}.items()`): the unpacked names are the
            # components of the pair built for the element of X
            src, depth = val[1][3][0][0], val[2]
            for x, comp_i in zip(tgt.elts, val[1][2][1:]):
                self._bind_target(x, subst(comp_i, lambda t: ("elem", src, depth) if t and t[0] == "elem" and len(t) == 3 and t[1] == src else None), env)
        elif isinstance(tgt, (ast.Tuple, ast.List)):
            for i, x in enumerate(tgt.elts):
                if isinstance(x, ast.Starred):
                    self._bind_target(x.value, ("item", val, f"{i}*"), env)
                elif val[0] in ("tuple", "list") and len(val) - 1 == len(tgt.elts) and not any(isinstance(y, ast.Starred) for y in tgt.elts):
                    self._bind_target(x, val[1 + i], env)
                else:
                    self._bind_target(x, ("item", val, i), env)

    def _call(self, e: ast.Call, env: dict, path: Term, loops: tuple) -> Term:
        E = lambda x: self.ev(x, env, path, loops)  # noqa: E731
        fd = dotted(e.func) or ""
        last = fd.split(".")[-1]
        args = tuple(E(a) for a in e.args)
        kws = tuple(sorted(((k.arg or "**", E(k.value)) for k in e.keywords), key=lambda kv: kv[0]))
        # transparent wrappers
        if last == "cast" and len(args) == 2 and not kws:
            return args[1]
        if fd == "slice" and not kws and 1 <= len(args) <= 3:
            a3 = (NONE,) * (3 - len(args))
            return ("slice",) + ((NONE, args[0], NONE) if len(args) == 1 else args + a3)
        # getattr(x, "name") is x.name (no default given)
        if fd == "getattr" and len(args) == 2 and not kws and args[1][0] == "const" and isinstance(args[1][1], str) and args[1][1].isidentifier() and "getattr" not in env:
            return ("attr", args[0], args[1][1])
        # all([a, b, c]) / any([a, b, c]) over a literal (e.g. an unrolled comprehension over a literal tuple of cases)
        if fd in ("all", "any") and len(args) == 1 and not kws and args[0][0] in ("list", "tuple") and 1 <= len(args[0]) - 1 <= 8 and fd not in env:
            return (mk_and if fd == "all" else mk_or)([_strip_bool(x) for x in args[0][1:]])
        func = E(e.func)
        # views of a dict comprehension are comprehensions of its values / keys / pairs
        if func[0] == "attr" and func[2] in ("values", "keys", "items") and func[1][0] == "comp" and func[1][1] == "dict" and not args and not kws:
            kv = func[1][2]
            elt = kv[2] if func[2] == "values" else kv[1] if func[2] == "keys" else kv
            return ("comp", "gen", elt, func[1][3])
        # iterating a dict (comprehension) yields its keys: tuple(d) == tuple(d.keys())
        if last in ("tuple", "list", "set", "frozenset", "sorted", "max", "min", "any", "all") and len(args) == 1 and not kws and args[0][0] == "comp" and args[0][1] == "dict":
            args = (("comp", "gen", args[0][2][1], args[0][3]),)
        # reducers ignore the container kind of a comprehension argument
        if last in ("max", "min", "sum", "any", "all", "set", "sorted", "list", "tuple", "frozenset") and len(args) == 1 and args[0][0] == "comp" and args[0][1] in ("list", "gen", "set" if last in ("max", "min", "any", "all", "set", "frozenset") else "gen"):
            args = (("comp", "gen") + args[0][2:],)
        if last in ("max", "min") and len(args) == 1 and not kws and args[0][0] in ("list", "tuple") and len(args[0]) >= 3:
            args = args[0][1:]  # max([a, b]) == max(a, b)
        if last in ("max", "min", "maximum", "minimum") and len(args) >= 2 and not kws:
            args = tuple(sorted(args, key=tkey))
        if func[0] == "ifexp" and all(b[0] == "name" or (b[0] == "attr" and b[1] == ("name", "self")) for b in func[2:4]):
            # (f if c else g)(args)  ==  f(args) if c else g(args): a callee chosen ahead of the call
            outs = []
            for b, c in ((func[2], func[1]), (func[3], mk_not(func[1]))):
                bp = mk_and([path, c])
                bt: Term = ("call", b, args, kws)
                self._record("call", e, b, bt, bp, loops)
                fake = ast.Call(func=ast.Name(id=b[1], ctx=ast.Load()) if b[0] == "name" else ast.Attribute(value=ast.Name(id="self", ctx=ast.Load()), attr=b[2], ctx=ast.Load()), args=e.args, keywords=e.keywords)
                ast.copy_location(fake, e)
                ast.copy_location(fake.func, e)
                inl = self._inline(fake, b, args, kws, env, bp, loops)
                outs.append(inl if inl is not None else bt)
            return mk_ifexp(func[1], outs[0], outs[1])
        if func == ("name", "dict") and not args and kws and all(k != "**" for k, _v in kws) and "dict" not in env:
            # dict(a=x, b=y) is the literal {"a": x, "b": y} (source order)
            return ("dict",) + tuple((("const", k.arg), E(k.value)) for k in e.keywords)
        term: Term = ("call", func, args, kws)
        self._record("call", e, func, term, path, loops)
        inl = self._inline(e, func, args, kws, env, path, loops)
        if inl is not None:
            return inl
        # mutators as stores (list building)
        return term

    # ----------------------------------------------------------------- inlining
    def _resolve_helper(self, e: ast.Call) -> Optional[tuple[FunctionInfo, bool]]:
        """Private helper the call certainly denotes: (function, receiver_is_first_arg)."""
        f = self.f
        if isinstance(e.func, ast.Name):
            nm = e.func.id
            g: Optional[FunctionInfo] = None
            scope: Optional[FunctionInfo] = f
            while scope is not None and g is None:
                g = scope.nested.get(nm)
                scope = scope.parent
            if g is not None:
                return g, False
            if nm.startswith("_") and not nm.startswith("__"):
                g = f.module.functions.get(nm)
                if g is not None:
                    return g, False
            return None
        if isinstance(e.func, ast.Attribute) and isinstance(e.func.value, ast.Name) and e.func.value.id in ("self", "cls"):
            nm = e.func.attr
            if not nm.startswith("_") or nm.startswith("__"):
                return None
            top = f
            while top.parent is not None:
                top = top.parent
            if top.cls is None:
                return None
            cands = self.P.lookup_method_with_overrides(top.cls, nm)
            cands = [c for c in cands if c.kind in ("normal", "staticmethod", "classmethod")]
            if len(cands) != 1:
                return None
            g = cands[0]
            if g.node.decorator_list and g.kind == "normal":
                return None  # decorated helpers (e.g. block_if_measured) are not plain expressions
            return g, g.kind != "staticmethod"
        return None

    def _inline(self, e: ast.Call, func: Term, args: tuple, kws: tuple, env: dict, path: Term, loops: tuple) -> Optional[Term]:
        if not self.inline or self.depth >= MAX_INLINE_DEPTH:
            return None
        r = self._resolve_helper(e)
        if r is None:
            return None
        g, bound = r
        if g.qualname in self.stack or _n_stmts(g.node) > MAX_INLINE_STMTS:
            return None
        if any(isinstance(a, ast.Starred) for a in e.args) or any(k.arg is None for k in e.keywords):
            return None
        a = g.node.args
        pos = [x.arg for x in a.posonlyargs + a.args]
        binding: dict[str, Term] = {}
        if bound and pos:
            binding[pos[0]] = func[1] if func[0] == "attr" else ("name", "self")
            pos = pos[1:]
        if len(args) > len(pos) and a.vararg is None:
            return None
        for nm, t in zip(pos, args):
            binding[nm] = t
        if a.vararg is not None:
            binding[a.vararg.arg] = ("tuple",) + tuple(args[len(pos):])
        for k, t in kws:
            binding[k] = t
        defaults = g.param_defaults()
        for nm in pos + [x.arg for x in a.kwonlyargs]:
            if nm not in binding:
                if nm in defaults:
                    binding[nm] = self.ev(defaults[nm], {}, TRUE, ())
                else:
                    return None
        # closures read the enclosing environment
        base_env = dict(env) if g.parent is not None else {}
        base_env.update(binding)
        sub = Sym(self.P, g, True, base_env, self.depth + 1, self.stack, self.log, path, loops, self._n_obj)
        t = sub.ret
        if size(t) > MAX_TERM_NODES:
            return None
        # a helper that returned did not raise: its raising branches become facts of the caller's path
        self._pending.extend(sub.ret_facts)
        return t

    # ----------------------------------------------------------------- statements
    def block(self, stmts: list, env: dict, path: Term, loops: tuple) -> Outcome:
        ret: Optional[Term] = None
        cur: Optional[dict] = env
        p = path
        for st in stmts:
            if cur is None:
                break
            o, p = self.stmt(st, cur, p, loops)
            if o.ret is not None:
                ret = o.ret if ret is None else self._fill(ret, o.ret)
            cur = o.env
        return Outcome(cur, ret, p)

    def stmt(self, st: ast.stmt, env: dict, path: Term, loops: tuple) -> tuple[Outcome, Term]:
        """Returns (outcome, path condition holding *after* the statement when it falls through)."""
        o, p = self._stmt(st, env, path, loops)
        if self._pending:
            p = mk_and([p] + self._pending)
            if o.env is not None:
                o = Outcome(o.env, o.ret, mk_and([o.path] + self._pending))
            self._pending = []
        return o, p

    def _stmt(self, st: ast.stmt, env: dict, path: Term, loops: tuple) -> tuple[Outcome, Term]:
        ev = lambda x: self.ev(x, env, path, loops)  # noqa: E731
        if isinstance(st, ast.Expr):
            if isinstance(st.value, ast.Constant):
                return Outcome(env, None), path
            t = ev(st.value)
            self._mutator(st.value, t, env, path, loops)
            return Outcome(env, None), path
        if isinstance(st, ast.Assign):
            v = ev(st.value)
            for tgt in st.targets:
                self._assign(tgt, v, st, env, path, loops)
            return Outcome(env, None), path
        if isinstance(st, ast.AnnAssign):
            if st.value is not None:
                self._assign(st.target, ev(st.value), st, env, path, loops)
            return Outcome(env, None), path
        if isinstance(st, ast.AugAssign):
            v = ev(st.value)
            opn = type(st.op).__name__
            if isinstance(st.target, ast.Name):
                old = env.get(st.target.id, ("name", st.target.id))
                if opn == "Add" and not (_stringy(old) or _stringy(v) or _listy(old) or _listy(v)):
                    new = mk_add([old, v])
                elif opn == "Sub":
                    new = mk_add([old, mk_neg(v)])
                elif opn == "Mult":
                    new = mk_mul([old, v])
                elif opn == "Div":
                    new = mk_mul([old, mk_inv(v)])
                else:
                    new = ("bin", opn, old, v)
                env[st.target.id] = new
                self._record("assign", st, ("name", st.target.id), new, path, loops, opn)
            else:
                self._record("aug", st, ev(st.target), v, path, loops, opn)
            return Outcome(env, None), path
        if isinstance(st, ast.Return):
            t = ev(st.value) if st.value is not None else NONE
            self._record("return", st, None, t, path, loops)
            return Outcome(None, t), path
        if isinstance(st, ast.Raise):
            t = ("raise", ev(st.exc) if st.exc is not None else ("name", "<reraise>"))
            self._record("raise", st, None, t, path, loops)
            return Outcome(None, t), path
        if isinstance(st, ast.Assert):
            c = _strip_bool(ev(st.test))
            self._record("test", st, None, c, path, loops)
            return Outcome(env, None), mk_and([path, c])
        if isinstance(st, ast.If):
            c = _strip_bool(ev(st.test))
            self._record("test", st, None, c, path, loops)
            e1, e2 = dict(env), dict(env)
            p1, p2 = mk_and([path, c]), mk_and([path, mk_not(c)])
            o1 = self.block(st.body, e1, p1, loops)
            o2 = self.block(st.orelse, e2, p2, loops)
            ret = None
            if o1.ret is not None or o2.ret is not None:
                ret = mk_ifexp(c, o1.ret if o1.ret is not None else FALL, o2.ret if o2.ret is not None else FALL)
            if o1.env is None and o2.env is None:
                return Outcome(None, ret), path
            if o1.env is None:
                return Outcome(o2.env, ret), o2.path
            if o2.env is None:
                return Outcome(o1.env, ret), o1.path
            merged = {}
            for k in set(o1.env) | set(o2.env):
                merged[k] = mk_ifexp(c, o1.env.get(k, env.get(k, UNDEF)), o2.env.get(k, env.get(k, UNDEF)))
            # what each branch learnt on the way (early exits inside it) survives as a disjunction
            base = set(conj_of(path))
            x1 = [l for l in conj_of(o1.path) if l not in base and l != c and l not in conj_of(c)]
            x2 = [l for l in conj_of(o2.path) if l not in base and l != mk_not(c) and l not in conj_of(mk_not(c))]
            after = path
            if x1 or x2:
                after = mk_and([path, mk_or([mk_and([c] + x1), mk_and([mk_not(c)] + x2)])])
            return Outcome(merged, ret), after
        if isinstance(st, (ast.For, ast.AsyncFor)):
            un = self._for_unrolled(st, env, path, loops)
            if un is not None:
                return un
            return self._for(st, env, path, loops), path
        if isinstance(st, ast.While):
            c = _strip_bool(ev(st.test))
            assigned = _assigned_names(st.body)
            pre = {k: env.get(k) for k in assigned}
            e2 = dict(env)
            for k in assigned:
                e2[k] = ("carried", k)
            c2 = _strip_bool(self.ev(st.test, e2, path, loops))
            self._record("test", st, None, c2, path, loops)
            self._exits.append([])
            o = self.block(st.body, e2, mk_and([path, c2]), loops + (("while", c2),))
            exits = self._exits.pop()
            wenv = self._merge_exits(o.env if o.env is not None else (None if exits else e2), exits, mk_and([path, c2]), e2)
            out = dict(env)
            for k in assigned:
                out[k] = ("loop", k, pre[k] if pre[k] is not None else UNDEF, wenv.get(k, UNDEF))
            ret = ("loopexit", ("while", c), o.ret, FALL) if o.ret is not None else None
            return Outcome(out, ret), path
        if isinstance(st, (ast.With, ast.AsyncWith)):
            for it in st.items:
                t = ev(it.context_expr)
                if it.optional_vars is not None:
                    self._bind_target(it.optional_vars, ("enter", t), env)
            o = self.block(st.body, env, path, loops)
            return o, o.path
        if isinstance(st, ast.Try):
            pre_env = dict(env)
            o = self.block(st.body, env, path, loops)
            body_env = o.env
            rets = [o.ret] if o.ret is not None else []
            handler_rets: list = []
            outs = []
            if body_env is not None:
                if st.orelse:
                    oe = self.block(st.orelse, body_env, path, loops)
                    body_env = oe.env
                    if oe.ret is not None:
                        rets.append(oe.ret)
                if body_env is not None:
                    outs.append((TRUE, body_env))
            assigned = _assigned_names(st.body)
            for h in st.handlers:
                he = dict(pre_env)
                for k in assigned:
                    # a variable assigned in the body may or may not be set when the handler runs
                    he[k] = mk_ifexp(("exc-after", ("const", k)), (body_env or env).get(k, UNDEF), pre_env.get(k, UNDEF)) if k in pre_env else (body_env or env).get(k, UNDEF)
                exc_t = self.ev(h.type, pre_env, path, loops) if h.type is not None else ("name", "BaseException")
                if h.name:
                    he[h.name] = ("caught", exc_t)
                hp = mk_and([path, ("caught", exc_t)])
                oh = self.block(h.body, he, hp, loops)
                if oh.ret is not None and not (oh.ret[0] == "raise" and oh.env is None):
                    # a handler that only raises yields no value: it stays in the log as a 'raise' entry
                    handler_rets.append(("onexc", exc_t, oh.ret))
                if oh.env is not None:
                    outs.append((("caught", exc_t), oh.env))
            ret = None
            if rets or handler_rets:
                ret = FALL
                for r in rets:
                    ret = r if ret == FALL else self._fill(ret, r)
                for r in handler_rets:
                    ret = ("alt", ret, r)
            if not outs:
                final_env = None
            elif len(outs) == 1:
                final_env = outs[0][1]
            else:
                final_env = dict(outs[0][1])
                for c, e_h in outs[1:]:
                    for k in set(final_env) | set(e_h):
                        final_env[k] = mk_ifexp(c, e_h.get(k, UNDEF), final_env.get(k, UNDEF))
            if st.finalbody and final_env is not None:
                of = self.block(st.finalbody, final_env, path, loops)
                final_env = of.env
            return Outcome(final_env, ret), path
        if isinstance(st, (ast.FunctionDef, ast.AsyncFunctionDef)):
            self.local_fns[st.name] = st
            return Outcome(env, None), path
        if isinstance(st, (ast.Continue, ast.Break)):
            self._record("break" if isinstance(st, ast.Break) else "continue", st, None, None, path, loops)
            if self._exits:
                self._exits[-1].append((path, dict(env)))
            return Outcome(None, None), path
        if isinstance(st, ast.Delete):
            for t in st.targets:
                self._record("del", st, ev(t), None, path, loops)
            return Outcome(env, None), path
        if isinstance(st, ast.Match):
            subj = ev(st.subject)
            outs = []
            for c in st.cases:
                e2 = dict(env)
                o = self.block(c.body, e2, mk_and([path, ("case", subj, ("opaque", norm(c.pattern)[:60]))]), loops)
                if o.env is not None:
                    outs.append(o.env)
            return Outcome(outs[0] if outs else env, None), path
        return Outcome(env, None), path  # pass, import, global, nonlocal, class

    def _assign(self, tgt: ast.AST, v: Term, st: ast.stmt, env: dict, path: Term, loops: tuple) -> None:
        if isinstance(tgt, ast.Name):
            v = self._fresh(tgt.id, v)
            env[tgt.id] = v
            self._record("assign", st, ("name", tgt.id), v, path, loops)
        elif isinstance(tgt, (ast.Tuple, ast.List)):
            self._bind_target(tgt, v, env)
            for x in ast.walk(tgt):
                if isinstance(x, ast.Name):
                    self._record("assign", st, ("name", x.id), env.get(x.id, UNDEF), path, loops)
        else:
            t = self.ev(tgt, env, path, loops)
            self._record("store", st, t, v, path, loops)
            # fresh-dict building: d[k] = v
            if isinstance(tgt, ast.Subscript) and isinstance(tgt.value, ast.Name) and tgt.value.id in env:
                cur = env[tgt.value.id]
                if cur[0] == "building" and cur[1] == "dict":
                    env[tgt.value.id] = ("building", "dict", cur[2] + ((("tuple", t[2], v), path, loops),))

    def _mutator(self, e: ast.AST, t: Term, env: dict, path: Term, loops: tuple) -> None:
        if isinstance(e, ast.Call) and isinstance(e.func, ast.Attribute) and isinstance(e.func.value, ast.Name) and e.func.attr in ("append", "add") and len(e.args) == 1 and e.func.value.id in env:
            cur = env[e.func.value.id]
            if cur[0] == "building" and cur[1] in ("list", "set"):
                env[e.func.value.id] = ("building", cur[1], cur[2] + ((self.ev(e.args[0], env, path, loops), path, loops),))

    @staticmethod
    def _merge_exits(body_env: Optional[dict], exits: list, entry_path: Term, fallback: dict) -> dict:
        """Environment at the end of one iteration: the fall-through one merged with those at break/continue."""
        base = set(conj_of(entry_path))
        cur = body_env
        for p, e in reversed(exits):
            extra = mk_and([l for l in conj_of(p) if l not in base])
            if cur is None:
                cur = e
                continue
            merged = {}
            for k in set(cur) | set(e):
                merged[k] = mk_ifexp(extra, e.get(k, UNDEF), cur.get(k, UNDEF))
            cur = merged
        return cur if cur is not None else fallback

    def _for_unrolled(self, st: ast.For, env: dict, path: Term, loops: tuple) -> Optional[tuple[Outcome, Term]]:
        """A loop over a literal tuple/list of at most 8 entries (a table of cases written in place) is the
        sequence of its iterations."""
        if st.orelse or any(isinstance(n, (ast.Break, ast.Continue)) for b in st.body for n in ast.walk(b)):
            return None
        if not isinstance(st.iter, (ast.Tuple, ast.List)) and not (isinstance(st.iter, ast.Name) and env.get(st.iter.id, ("?",))[0] in ("tuple", "list")):
            return None
        it = self.ev(st.iter, env, path, loops)
        lit = it
        while lit[0] == "obj":
            lit = lit[2]
        if lit[0] not in ("tuple", "list") or not (1 <= len(lit) - 1 <= 8) or any(x[0] == "star" for x in lit[1:]):
            return None
        cur: Optional[dict] = env
        ret: Optional[Term] = None
        p = path
        for el in lit[1:]:
            e2 = dict(cur)
            self._bind_target(st.target, el, e2)
            o = self.block(st.body, e2, p, loops)
            if o.ret is not None:
                ret = o.ret if ret is None else self._fill(ret, o.ret)
            if o.env is None:
                cur = None
                break
            cur, p = o.env, o.path
        return Outcome(cur, ret, p), p

    def _for(self, st: ast.For, env: dict, path: Term, loops: tuple) -> Outcome:
        it = self.ev(st.iter, env, path, loops)
        assigned = _assigned_names(st.body) | {x.id for x in ast.walk(st.target) if isinstance(x, ast.Name)}
        pre = {k: env.get(k) for k in assigned}
        e2 = dict(env)
        # containers being filled: empty list/dict/set literal (or list()/dict()/set()) defined before the loop
        building = {}
        for k, v0 in env.items():
            v = v0[2] if v0[0] == "obj" else v0
            if v in (("list",), ("set",), ("dict",), ("call", ("name", "list"), (), ()), ("call", ("name", "dict"), (), ()), ("call", ("name", "set"), (), ())):
                kind = v[0] if v[0] != "call" else v[1][1]
                building[k] = kind
                e2[k] = ("building", kind, ())
        for k in assigned:
            if k not in building:
                e2[k] = ("carried", k) if pre.get(k) is not None else UNDEF
        self._bind_target(st.target, ("elem", it, len(loops)), e2)
        it = self._pairs_source(it, st.target)
        inner_loops = loops + (it,)
        self._exits.append([])
        o = self.block(st.body, e2, path, inner_loops)
        exits = self._exits.pop()
        body_env = o.env if o.env is not None else (None if exits else e2)
        body_env = self._merge_exits(body_env, exits, path, e2)
        out = dict(env)
        for k in assigned:
            if k in building:
                continue
            out[k] = ("loop", k, pre[k] if pre[k] is not None else UNDEF, body_env.get(k, UNDEF))
        for k, kind in building.items():
            b = body_env.get(k)
            if b is not None and b[0] == "building":
                items = b[2]
                if not items:
                    out[k] = env[k]
                elif len(items) == 1 and items[0][2] == inner_loops:
                    elt, p_item, _l = items[0]
                    conds = [c for c in conj_of(p_item) if c not in conj_of(path)]
                    out[k] = ("comp", kind, elt, ((it, mk_and(conds)),))
                elif len(items) == 2 and items[0][2] == inner_loops and items[1][2] == inner_loops and _complementary(items[0][1], items[1][1], path) is not None:
                    # `if c: out.append(x) else: out.append(y)`  is  [x if c else y for ...]
                    c_, shared = _complementary(items[0][1], items[1][1], path)
                    e1, e2 = items[0][0], items[1][0]
                    if e1[0] == "tuple" and e2[0] == "tuple" and len(e1) == 3 and len(e2) == 3 and e1[1] == e2[1]:
                        elt = ("tuple", e1[1], mk_ifexp(c_, e1[2], e2[2]))
                    else:
                        elt = mk_ifexp(c_, e1, e2)
                    out[k] = ("comp", kind, elt, ((it, mk_and(shared)),))
                else:
                    out[k] = ("loop", k, env[k], ("tuple",) + tuple(i[0] for i in items))
            else:
                out[k] = ("loop", k, env[k], b if b is not None else UNDEF)
        if st.orelse:
            # the else block runs only when the loop was not left by `break`: keep both values
            before = dict(out)
            oo = self.block(st.orelse, dict(out), path, loops)
            if oo.env is not None:
                for k, v in oo.env.items():
                    if before.get(k) != v:
                        out[k] = ("loopelse", before.get(k, UNDEF), v)
        ret = ("loopexit", it, o.ret, FALL) if o.ret is not None else None
        return Outcome(out, ret)

    # ------------------------------------------------------------------- queries
    def calls(self, name: str) -> list[Logged]:
        """Logged calls whose function is (or ends in the attribute) ``name``."""
        out = []
        for l in self.log:
            if l.kind != "call" or l.target is None:
                continue
            t = l.target
            if (t[0] == "name" and t[1] == name) or (t[0] == "attr" and t[2] == name):
                out.append(l)
        return out

    def logged(self, *kinds: str) -> list[Logged]:
        return [l for l in self.log if l.kind in kinds]


FALSE: Term = ("const", False)


def _strip_raises(t: Term) -> tuple[Term, list]:
    """Remove the raising alternatives of a helper's return term; returns (term, conditions that therefore hold)."""

    def strip(x: Term) -> tuple[Term, Term]:
        if x[0] == "raise":
            return x, FALSE
        if x[0] == "ifexp":
            c = x[1]
            a, ca = strip(x[2])
            b, cb = strip(x[3])
            if ca == FALSE and cb == FALSE:
                return x, FALSE
            if ca == FALSE:
                return b, mk_and([mk_not(c), cb])
            if cb == FALSE:
                return a, mk_and([c, ca])
            cond = TRUE if (ca == TRUE and cb == TRUE) else mk_or([mk_and([c, ca]), mk_and([mk_not(c), cb])])
            return mk_ifexp(c, a, b), cond
        return x, TRUE

    r, cond = strip(t)
    if cond == FALSE:
        return t, []
    return r, list(conj_of(cond))


MUTATING_METHODS = {"append", "extend", "insert", "add", "update", "pop", "remove", "clear", "sort", "reverse", "setdefault", "discard", "popitem", "appendleft"}


def _mutated_names(fnode: ast.AST) -> set:
    """Local names whose object is modified in place somewhere in the function."""
    out = set()

    def base(t: ast.AST) -> Optional[str]:
        while isinstance(t, (ast.Subscript, ast.Attribute)):
            t = t.value
        return t.id if isinstance(t, ast.Name) else None

    for n in ast.walk(fnode):
        if isinstance(n, (ast.Assign, ast.AugAssign, ast.AnnAssign, ast.Delete)):
            tg = n.targets if isinstance(n, (ast.Assign, ast.Delete)) else [n.target]
            for t in tg:
                for x in (t.elts if isinstance(t, (ast.Tuple, ast.List)) else [t]):
                    if isinstance(x, (ast.Subscript, ast.Attribute)):
                        b = base(x)
                        if b:
                            out.add(b)
        elif isinstance(n, ast.Call) and isinstance(n.func, ast.Attribute) and n.func.attr in MUTATING_METHODS:
            b = base(n.func.value)
            if b and isinstance(n.func.value, ast.Name):
                out.add(b)
    out.discard("self")
    out.discard("cls")
    return out


def _const_like(node: ast.AST) -> bool:
    for n in ast.walk(node):
        if isinstance(n, (ast.Call, ast.Lambda, ast.ListComp, ast.DictComp, ast.SetComp, ast.GeneratorExp, ast.Dict, ast.List, ast.Set, ast.Subscript)):
            return False
    return True


def _table_like(node: ast.AST) -> bool:
    """A literal dict/tuple/list/set of constants (keys may be frozenset({...}) / tuple literals), at most 64 nodes."""
    n_nodes = 0
    for n in ast.walk(node):
        n_nodes += 1
        if isinstance(n, ast.Call):
            if not (isinstance(n.func, ast.Name) and n.func.id in ("frozenset", "tuple", "set") and len(n.args) <= 1 and not n.keywords):
                return False
        elif not isinstance(n, (ast.Dict, ast.List, ast.Set, ast.Tuple, ast.Constant, ast.Name, ast.Attribute, ast.Load, ast.UnaryOp, ast.USub)):
            return False
    # (names are allowed as entries: a table of classes / functions of the module)
    return n_nodes <= 64


def _complementary(p1: Term, p2: Term, base: Term) -> Optional[tuple]:
    """The two path conditions differ by exactly one literal and its negation (beyond ``base``): returns
    (that literal as it holds on the first path, the literals they share), else None."""
    b = set(conj_of(base))
    l1 = [x for x in conj_of(p1) if x not in b]
    l2 = [x for x in conj_of(p2) if x not in b]
    only1 = [x for x in l1 if x not in l2]
    only2 = [x for x in l2 if x not in l1]
    if len(only1) == 1 and len(only2) == 1 and mk_not(only1[0]) == only2[0]:
        return only1[0], [x for x in l1 if x in l2]
    return None


def _strlike(t: Term) -> bool:
    return (t[0] == "const" and isinstance(t[1], str)) or t[0] == "fstr"


def _str_parts(t: Term) -> list:
    return list(t[1:]) if t[0] == "fstr" else [t]


def mk_fstr(parts: list) -> Term:
    """f-string / string concatenation: adjacent literal pieces merged; a single literal is that constant."""
    out: list = []
    for p in parts:
        if p[0] == "const" and isinstance(p[1], str) and out and out[-1][0] == "const" and isinstance(out[-1][1], str):
            out[-1] = ("const", out[-1][1] + p[1])
        elif p == ("const", ""):
            continue
        else:
            out.append(p)
    if len(out) == 1 and out[0][0] == "const":
        return out[0]
    return ("fstr",) + tuple(out)


def _stringy(t: Term) -> bool:
    return (t[0] == "const" and isinstance(t[1], (str, bytes))) or t[0] == "fstr" or (t[0] == "bin" and t[1] == "Concat")


def _listy(t: Term) -> bool:
    while t[0] == "obj":
        t = t[2]
    return t[0] in ("list", "tuple") or (t[0] == "idx" and t[2][0] == "slice") or (t[0] == "comp" and t[1] == "list") or (t[0] == "bin" and t[1] == "Concat") or (t[0] == "call" and t[1] in (("name", "list"), ("name", "tuple")))


def _n_stmts(node: ast.AST) -> int:
    return sum(1 for n in ast.walk(node) if isinstance(n, ast.stmt))


def _assigned_names(stmts: list) -> set:
    out = set()
    for st in stmts:
        for n in ast.walk(st):
            if isinstance(n, (ast.FunctionDef, ast.AsyncFunctionDef, ast.ClassDef, ast.Lambda)):
                continue
            if isinstance(n, ast.Name) and isinstance(n.ctx, (ast.Store, ast.Del)):
                out.add(n.id)
    # names bound only inside comprehensions are not function locals
    return out


# --------------------------------------------------------------------------- patterns
class Pattern:
    """A term with metavariables, written as a Python expression.

    ``Q_x`` matches any term (bound consistently), ``Q__`` matches anything; inside a sum, product,
    ``and`` or ``or`` a ``QS_x`` operand matches the remaining operands (possibly none).
    """

    def __init__(self, src: str):
        self.src = src
        tree = ast.parse(src.strip(), mode="eval").body
        dummy = Sym.__new__(Sym)
        dummy.P = None  # type: ignore[assignment]
        dummy.inline = False
        dummy.depth = 0
        dummy.log = []
        dummy.f = None  # type: ignore[assignment]
        dummy._module_const = lambda name: None  # type: ignore[method-assign]
        dummy._record = lambda *a, **k: None  # type: ignore[method-assign]
        dummy._inline = lambda *a, **k: None  # type: ignore[method-assign]
        self.term = dummy.ev(tree, {}, TRUE, ())


def _is_meta(t: Any) -> Optional[str]:
    if isinstance(t, tuple) and len(t) == 2 and t[0] == "name" and isinstance(t[1], str) and (t[1].startswith("Q_") or t[1].startswith("QS_")):
        return t[1]
    return None


AC = {"add", "mul", "and", "or", "set"}


def match(p: Any, t: Any, b: Optional[dict] = None) -> Optional[dict]:
    """Match pattern term ``p`` against ``t``; returns the bindings or None."""
    b = dict(b or {})
    return _match(p, t, b)


def _match(p: Any, t: Any, b: dict) -> Optional[dict]:
    m = _is_meta(p)
    if m is not None and not m.startswith("QS_"):
        if m == "Q__":
            return b
        if m in b:
            return b if b[m] == t else None
        b2 = dict(b)
        b2[m] = t
        return b2
    if not isinstance(p, tuple) or not isinstance(t, tuple):
        return b if p == t and type(p) is type(t) or (p == t and isinstance(p, (int, float)) and isinstance(t, (int, float)) and not isinstance(p, bool) and not isinstance(t, bool)) else None
    if not p or not t:
        return b if p == t else None
    if isinstance(p[0], str) and p[0] in AC and isinstance(t[0], str):
        if t[0] != p[0]:
            # a one-operand AC pattern with a rest variable matches a single term
            rest = [x for x in p[1:] if (_is_meta(x) or "").startswith("QS_")]
            fixed = [x for x in p[1:] if not (_is_meta(x) or "").startswith("QS_")]
            if rest and len(fixed) == 1:
                r = _match(fixed[0], t, b)
                if r is not None:
                    r = dict(r)
                    r[_is_meta(rest[0])] = ()
                return r
            return None
        return _match_ac(p[0], list(p[1:]), list(t[1:]), b)
    if p[0] == "call" and t[0] == "call" and len(p) == 4 and len(t) == 4 and not p[3] and not t[3] and _commutative_call(p[1]) and len(p[2]) >= 2:
        # max(a, b) = max(b, a): the arguments are sorted in the normal form, but a metavariable sorts differently
        r = _match(p[1], t[1], b)
        return _match_ac("args", list(p[2]), list(t[2]), r) if r is not None else None
    if p[0] == "call" and t[0] == "call" and len(p) == 4 and len(t) == 4 and (len(p[2]) != len(t[2]) or tuple(k for k, _ in p[3]) != tuple(k for k, _ in t[3])):
        # f(a, b) vs f(a, y=b): compare by parameter name when the callee's signature is known
        r = _match(p[1], t[1], b)
        if r is None:
            return None
        pk = _all_keyword((p[0], t[1], p[2], p[3]))
        tk = _all_keyword(t)
        if pk is None or tk is None or set(pk) != set(tk):
            return None
        for k in sorted(pk):
            r = _match(pk[k], tk[k], r)
            if r is None:
                return None
        return r
    if len(p) != len(t):
        return None
    if (p[0] == "cmp" and t[0] == "cmp" and p[1] == t[1] and p[1] in SYMM) or (p[0] == "bin" and t[0] == "bin" and p[1] == t[1] and p[1] in ("BitAnd", "BitOr", "BitXor")):
        for x, y in ((t[2], t[3]), (t[3], t[2])):
            r = _match(p[2], x, b)
            if r is not None:
                r = _match(p[3], y, r)
                if r is not None:
                    return r
        return None
    cur: Optional[dict] = b
    for x, y in zip(p, t):
        cur = _match(x, y, cur)  # type: ignore[arg-type]
        if cur is None:
            return None
    return cur


# ---- signatures: positional and keyword spellings of one call are the same call
SIGS: dict[str, list] = {}


def register_signatures(P: "Program") -> None:
    """name -> parameter lists (without self/cls) of every function / constructor of that name in the program."""
    if SIGS.get("__program__") == [id(P)]:
        return
    SIGS.clear()
    SIGS["__program__"] = [id(P)]
    for f in P.all_functions():
        if f.kind in ("overload", "setter", "property", "cached_property"):
            continue
        a = f.node.args
        params = [x.arg for x in a.posonlyargs + a.args]
        if f.cls is not None and f.kind != "staticmethod" and params:
            params = params[1:]
        entry = (tuple(params), a.vararg is not None)
        SIGS.setdefault(f.name, []).append(entry)
        if f.name == "__init__" and f.cls is not None:
            SIGS.setdefault(f.cls.name, []).append(entry)


def _fname(func: Any) -> Optional[str]:
    if isinstance(func, tuple) and func:
        if func[0] == "name":
            return func[1]
        if func[0] == "attr":
            return func[2]
    return None


def param_name(func: Any, index: int) -> Optional[str]:
    """Name of positional parameter ``index`` of the callee, when every candidate of that name agrees."""
    cands = [c for c in SIGS.get(_fname(func) or "", []) if isinstance(c, tuple)]
    names = {c[0][index] for c in cands if len(c[0]) > index and not c[1]}
    if len(names) == 1 and all(len(c[0]) > index and not c[1] for c in cands):
        return next(iter(names))
    return None


def param_index(func: Any, name: str) -> Optional[int]:
    cands = [c for c in SIGS.get(_fname(func) or "", []) if isinstance(c, tuple) and name in c[0]]
    idx = {c[0].index(name) for c in cands if not c[1]}
    if len(idx) == 1 and all(not c[1] for c in cands):
        return next(iter(idx))
    return None


def _all_keyword(t: Any) -> Optional[dict]:
    """The arguments of a call term as {parameter name: term}, when the signature is known for every positional."""
    out = {}
    for i, a in enumerate(t[2]):
        if isinstance(a, tuple) and a and a[0] == "star":
            return None
        n = param_name(t[1], i)
        if n is None:
            return None
        out[n] = a
    for k, v in t[3]:
        if k == "**" or k in out:
            return None
        out[k] = v
    return out


def _commutative_call(f: Any) -> bool:
    return isinstance(f, tuple) and ((f[0] == "name" and f[1] in ("max", "min")) or (f[0] == "attr" and f[2] in ("maximum", "minimum")))


def _match_ac(tag: str, ps: list, ts: list, b: dict) -> Optional[dict]:
    rest = [x for x in ps if (_is_meta(x) or "").startswith("QS_")]
    fixed = [x for x in ps if not (_is_meta(x) or "").startswith("QS_")]
    if not rest and len(fixed) != len(ts):
        return None
    if len(fixed) > len(ts):
        return None

    def rec(i: int, remaining: list, bb: dict) -> Optional[dict]:
        if i == len(fixed):
            if rest:
                bb = dict(bb)
                bb[_is_meta(rest[0])] = tuple(remaining)
                return bb
            return bb if not remaining else None
        for j, cand in enumerate(remaining):
            r = _match(fixed[i], cand, bb)
            if r is not None:
                out = rec(i + 1, remaining[:j] + remaining[j + 1 :], r)
                if out is not None:
                    return out
        return None

    # match the most specific operands first (metavariables last)
    fixed.sort(key=lambda x: (1 if _is_meta(x) else 0, -size(x, 50)))
    return rec(0, ts, b)


def find(t: Any, pat: "Pattern | Term", b: Optional[dict] = None) -> Optional[dict]:
    """First subterm of ``t`` matching the pattern (pre-order); bindings or None."""
    p = pat.term if isinstance(pat, Pattern) else pat
    for s in _preorder(t):
        r = match(p, s, b)
        if r is not None:
            return r
    return None


def find_all(t: Any, pat: "Pattern | Term") -> list[dict]:
    p = pat.term if isinstance(pat, Pattern) else pat
    out = []
    for s in _preorder(t):
        r = match(p, s)
        if r is not None:
            r = dict(r)
            r["@"] = s
            out.append(r)
    return out


def _preorder(t: Any) -> Iterable[Any]:
    stack = [t]
    while stack:
        x = stack.pop()
        if isinstance(x, tuple):
            if x and isinstance(x[0], str):
                yield x
            stack.extend(reversed(x))


def contains(t: Any, sub: Term) -> bool:
    return any(s == sub for s in _preorder(t))


_CACHE: dict = {}


def sym_of(P: Program, f: FunctionInfo, inline: bool = True) -> Sym:
    register_signatures(P)
    k = (id(P), f.qualname, inline)
    if k not in _CACHE:
        _CACHE[k] = Sym(P, f, inline)
    return _CACHE[k]
