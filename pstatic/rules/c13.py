"""C13 -- which building operations are accepted follows the documented typestate.

DOM-GUARD instances are derived from the effect analysis (a public method is
an instance iff its summary writes a timeline region), not from a list.
"""
from __future__ import annotations

import ast

from ..engine import CHS, DECOS, DMMS, SCHED, SEQ, Engine, event_desc
from ..flow import Event, FunctionFlow, Node
from ..guards import GuardAnalysis, GuardSpec, always_raises, cond_calls, reads_of, reject_if_call, writes_before_guard
from ..model import AnalysisError, dotted, norm
from ..report import Report
from ..resolve import Callable_

EXPLANATION = (
    "Typestate guards decided by an interprocedural must-pass-through dataflow over the statement CFGs (decorator wrappers composed): "
    "MEASURED: every public Sequence method whose write summary contains a timeline region (fields of _ChannelSchedule/_DMMSchedule/_EOMSettings, the _Schedule map) "
    "passes `if self.is_measured(): raise` on every path before its first such write. EOM: add/target/target_index pass _validate_channel(block_eom_mode=True) before scheduling; "
    "add_eom_pulse/disable_eom_mode/modify_eom_setpoint pass `if not is_in_eom_mode: raise`, enable_eom_mode passes `if is_in_eom_mode: raise`. "
    "PARAM: inspection entry points pass `if is_parametrized(): raise` before returning. DECLARE: the declare-once rejection atoms exist with the right polarity "
    "(name in schedule; channel not in available_channels; occupied-or-reusable filter; XY/non-XY split; empty local channel rejects). "
    "NOT decided: the bounded-length transition system as a whole (which sequences of calls are accepted is a runtime question); only the guards that implement it are checked. MODE (added): a rejection that depends only on the XY/Ising mode is evaluated before the `if self.is_parametrized(): return` short-cut."
    ' Round 4 (added): the scan of stored enable/disable_eom_mode calls in is_in_eom_mode answers only at a record whose channel argument equals the inspected channel (loop or generator form).'
    ' Round 5 (added): the once-only and availability rules of config_slm_mask hold on the parametrized path; a stored SLM mask declares a DMM only outside XY mode.'
    ' Round 6 (added after the fifth independent round of breaking changes): Sequence.measure writes the measurement as its last step: no raise or warnings.warn follows the write (a warning is an exception under -W error, and the call would not be stored).'
)
ASSUMPTIONS = [
    "a guard is recognised as an `if <call>: raise` (or mirrored else) statement or a call establishing it on all its paths",
    "timeline regions = all fields of the schedule classes in pulser.sequence._schedule",
]

TIMELINE_OWNERS = (
    "pulser.sequence._schedule._ChannelSchedule",
    "pulser.sequence._schedule._DMMSchedule",
    "pulser.sequence._schedule._EOMSettings",
    "pulser.sequence._schedule._Schedule",
)


def _timeline_target(E: Engine, with_call_log: bool = False):
    def target(fl: FunctionFlow, node: Node, e: Event) -> bool:
        if e.kind != "write":
            return False
        hit = any(o in TIMELINE_OWNERS for o, _f in e.places)
        if with_call_log and any(o == SEQ and f in ("_calls", "_to_build_calls") for o, f in e.places):
            # recording the call changes the timeline of every sequence built later
            hit = True
        if not hit:
            return False
        return any(r != "fresh" for r in e.roots)

    return target


def _never(fl: FunctionFlow, x) -> bool:  # noqa
    return False


def run(E: Engine, rep: Report, tier: str) -> dict:
    E.prepare_summaries()
    S = E.S
    seq = E.cls(SEQ)
    q_measured = {E.method(SEQ, "is_measured").qualname}
    q_in_eom = {E.method(SEQ, "is_in_eom_mode").qualname}
    q_param = {E.method(SEQ, "is_parametrized").qualname}

    # ----------------------------------------------------------- MEASURED
    spec_meas = GuardSpec("measured", reject_if_call(E, q_measured, True), _never)
    GA = GuardAnalysis(E, spec_meas, _timeline_target(E, with_call_log=True))
    reads_measured = reads_of(E, E.R.effective(E.method(SEQ, "is_measured")))
    timeline_methods = []
    stable_clash: dict = {}
    n_guard_sites = 0
    for f in E.public_entries():
        if f.name.startswith("__"):
            continue
        c = E.R.effective(f)
        w, _r = S.of(c)
        tw = {x for x in w if x.owner in TIMELINE_OWNERS and x.root != "fresh"}
        if not tw:
            continue
        timeline_methods.append(f.name)
        viol, _exit = GA.run(c)
        key = f"Sequence.{f.name}|measured-guard"
        if viol:
            v = viol[0]
            rep.violation(
                "DOM-GUARD", key,
                f"public method {f.name} can reach a timeline write without passing `if self.is_measured(): raise`: "
                f"{v['event']} in {v['function']} via {' -> '.join(v.get('via', []))} ({len(viol)} unguarded write sites)",
                v["where"], sites=[x["function"] + ":" + x["event"] for x in viol][:10],
            )
        else:
            rep.ok("DOM-GUARD", key, f"all timeline writes ({sorted({x.owner.split('.')[-1] + '.' + x.field for x in tw})}) and the call record are dominated by the measured rejection", E.where(f))
        # GUARD-STABLE: the guard must not read state that this very call has already written
        for g in writes_before_guard(E, c, spec_meas):
            n_guard_sites += 1
            for o, fl_ in sorted(g["written"] & reads_measured):
                stable_clash.setdefault((o.split(".")[-1], fl_), []).append((f.name, g))
    rep.notes["timeline_methods"] = sorted(timeline_methods)
    for (o, fl_), hits in sorted(stable_clash.items()):
        meths = sorted({m for m, _g in hits})
        g = hits[0][1]
        rep.violation("GUARD-STABLE", f"measured-guard|reads-state-written-earlier-in-the-call|{o}.{fl_}",
                      f"when the measured guard runs (e.g. in {g['function']} via {' -> '.join(g['via'])}) the same call may already have written {o}.{fl_}, which is_measured() reads: "
                      f"the guard can answer for a different mode than the one the call started in. Affected entry points: {meths}", g["where"], methods=meths)
    if not stable_clash:
        rep.ok("GUARD-STABLE", "measured-guard|reads-only-unmodified-state", f"{n_guard_sites} guard evaluations: nothing is_measured() reads has been written earlier in the same call", E.where(E.method(SEQ, "is_measured")))
    if n_guard_sites < 10:
        rep.error(f"GUARD-STABLE: only {n_guard_sites} measured-guard evaluations found")

    # ---------------------------------------------------------------- EOM
    vc = E.method(SEQ, "_validate_channel")

    def ev_block_eom(fl: FunctionFlow, e: Event) -> bool:
        n = e.node
        if e.kind != "call" or not isinstance(n, ast.Call):
            return False
        if not any(c.innermost() is vc for c, _m in e.callees):
            return False
        for kw in n.keywords:
            if kw.arg == "block_eom_mode" and isinstance(kw.value, ast.Constant) and kw.value.value is True:
                return True
        params = vc.params
        if "block_eom_mode" in params:
            idx = params.index("block_eom_mode") - 1
            if 0 <= idx < len(n.args) and isinstance(n.args[idx], ast.Constant) and n.args[idx].value is True:
                return True
        return False

    # the guard inside _validate_channel must itself reject when in EOM mode: a raise whose path condition is
    # exactly `block_eom_mode and self.is_in_eom_mode(channel)` (plus the negations of the earlier rejections)
    from .. import sym as _sym
    from .symutil import S as _S, is_ as _is

    ok_inner = False
    for l in _S(E, vc, inline=False).logged("raise"):
        pos = [x for x in _sym.conj_of(l.cond) if x[0] != "not" and not (x[0] == "cmp" and x[1] in ("NotIn", "NotEq", "IsNot"))]
        lits = _sym.conj_of(l.cond)
        if ("name", "block_eom_mode") in lits and any(_is(x, "self.is_in_eom_mode(channel)") is not None for x in lits) and not any(_is(x, "not self.is_in_eom_mode(channel)") is not None for x in lits):
            extra = [x for x in pos if x != ("name", "block_eom_mode") and _is(x, "self.is_in_eom_mode(channel)") is None and x[0] != "or"]
            ok_inner = ok_inner or not [x for x in extra if not (x[0] == "cmp" and x[1] in ("In", "Eq", "Is"))]
    rep.check(ok_inner, "DOM-GUARD", "Sequence._validate_channel|block_eom_mode-rejects-in-eom", "`if block_eom_mode and self.is_in_eom_mode(channel): raise` present", "_validate_channel no longer rejects a channel in EOM mode when block_eom_mode is set", E.where(vc))

    # the EOM state of a channel in a parametrized sequence is read off the stored enable/disable calls: the scan may
    # answer only at a record of the *inspected* channel (a record of another channel says nothing about this one)
    from .symutil import mentions as _ment13, sh as _sh13

    iem = E.method(SEQ, "is_in_eom_mode")
    scan_rets = [l for l in _S(E, iem).logged("return") if l.fn == iem.short and any(_ment13(it, "_calls", "_to_build_calls") for it in l.loops)]
    # (the same scan written as next(<generator over the stored calls>, False): the generator's filter is the path)
    scan_items = [(l, l.cond, l.value) for l in scan_rets]
    if not scan_items:
        for l in _S(E, iem).logged("return"):
            for t in _sym.subterms(l.value) if l.value is not None and l.fn == iem.short else ():
                if t[0] == "comp" and len(t[3]) >= 1 and any(_ment13(it_, "_calls", "_to_build_calls") for it_, _f in t[3]):
                    scan_items.append((l, _sym.mk_and([f_ for _it, f_ in t[3]]), t[2]))
    if not scan_items:
        raise AnalysisError("anchor: Sequence.is_in_eom_mode no longer answers from a scan of the stored calls")
    for i_, (l, cond_, val_) in enumerate(scan_items):
        same_ch = [x for x in _sym.conj_of(cond_) if x[0] == "cmp" and x[1] == "Eq" and ("name", "channel") in (x[2], x[3])
                   and _ment13(x[3] if x[2] == ("name", "channel") else x[2], "args", "kwargs")]
        rep.check(bool(same_ch), "DOM-GUARD", f"Sequence.is_in_eom_mode|scan-answers-at-own-channel|return{i_}", "the scan returns only at a stored call whose channel argument == channel",
                  f"is_in_eom_mode returns `{_sh13(val_, 80)}` at the latest stored enable/disable_eom_mode call of *any* channel (no `<call's channel> == channel` on the path): with two EOM channels the state of one is reported from the other's calls, so a channel in EOM mode accepts regular pulses / a second enable and refuses add_eom_pulse / disable", E.where(iem, l.node))
    spec_noeom = GuardSpec("not-in-eom", _never, ev_block_eom)
    spec_ineom = GuardSpec("in-eom", reject_if_call(E, q_in_eom, False), _never)
    spec_notin = GuardSpec("not-in-eom-direct", reject_if_call(E, q_in_eom, True), _never)
    eom_table = [
        ("add", spec_noeom, "regular pulses are refused while the channel is in EOM mode"),
        ("target", spec_noeom, "retargeting is refused while the channel is in EOM mode"),
        ("target_index", spec_noeom, "retargeting is refused while the channel is in EOM mode"),
        ("add_eom_pulse", spec_ineom, "EOM pulses are refused outside EOM mode"),
        ("disable_eom_mode", spec_ineom, "disabling requires EOM mode"),
        ("modify_eom_setpoint", spec_ineom, "modifying the setpoint requires EOM mode"),
        ("enable_eom_mode", spec_notin, "enabling twice is refused"),
    ]
    for name, spec, why in eom_table:
        f = E.method(SEQ, name)
        GA2 = GuardAnalysis(E, spec, _timeline_target(E))
        viol, _ = GA2.run(E.R.effective(f))
        key = f"Sequence.{name}|{spec.name}"
        if viol:
            v = viol[0]
            rep.violation("DOM-GUARD", key, f"{why}: but {name} reaches {v['event']} in {v['function']} without the {spec.name} guard", v["where"])
        else:
            rep.ok("DOM-GUARD", key, why, E.where(f))
    # every other timeline-writing public method is either in the table or excepted with a reason
    eom_exceptions = {
        "add_dmm_detuning": "a DMM channel has no EOM (DMM.eom_config is init=False, always None), so it can never be in EOM mode",
        "delay": "delays are allowed in EOM mode (they become detuned delays)",
        "align": "alignment only adds delays, which are allowed in EOM mode",
        "declare_channel": "creates the channel; it cannot be in EOM mode yet",
        "config_detuning_map": "creates a DMM channel; no EOM",
        "config_slm_mask": "acts on a DMM channel; no EOM",
    }
    for name in sorted(timeline_methods):
        if name in {n for n, _s, _w in eom_table}:
            continue
        if name in eom_exceptions:
            rep.excepted("DOM-GUARD", f"Sequence.{name}|eom-guard", eom_exceptions[name], E.where(E.method(SEQ, name)))
        else:
            rep.violation("DOM-GUARD", f"Sequence.{name}|eom-guard", f"new timeline-writing public method {name} has no EOM-mode rule (neither guarded nor excepted with a reason)", E.where(E.method(SEQ, name)))
    # DMM has no EOM: the exception's reason is itself checked
    dmm = E.cls("pulser.channels.dmm.DMM")
    lf = E.P.lookup_field(dmm, "eom_config")
    fld = lf[1] if lf else None
    rep.check(fld is not None and fld.init is False, "DOM-GUARD", "DMM.eom_config|init-false", "DMM.eom_config is init=False (a DMM can never carry an EOM)", "DMM.eom_config became initialisable: add_dmm_detuning's EOM exception no longer holds", E.where_mod(dmm.module.relpath, dmm.node))

    # -------------------------------------------------------------- PARAM
    spec_par = GuardSpec("not-parametrized", reject_if_call(E, q_param, True), _never)

    def exit_target(fl: FunctionFlow, node: Node, e: Event) -> bool:
        return False

    insp = [(SEQ, "get_duration"), (SEQ, "current_phase_ref"), (SEQ, "draw")]
    for cq, name in insp:
        f = E.method(cq, name)
        GA3 = GuardAnalysis(E, spec_par, exit_target)
        _v, exit_fact = GA3.run(E.R.effective(f))
        rep.check(exit_fact, "DOM-GUARD", f"Sequence.{name}|not-parametrized", "refused on a parametrized sequence on every path", f"{name} can return without passing `if self.is_parametrized(): raise`", E.where(f))
    for q, sub in (("pulser.sampler.sampler.sample", "sample"),):
        f = E.fn(q)
        GA3 = GuardAnalysis(E, spec_par, exit_target)
        _v, exit_fact = GA3.run(E.R.effective(f))
        rep.check(exit_fact, "DOM-GUARD", f"{sub}|not-parametrized", "refused on a parametrized sequence on every path", f"{sub} can return without passing `if seq.is_parametrized(): raise`", E.where(f))
    # estimate_added_delay: rejection is `if self.is_parametrized() or isinstance(pulse, Parametrized): raise`
    f = E.method(SEQ, "estimate_added_delay")
    fl = E.flow(f)
    found = False
    dom = fl.dominators()
    for node in fl.nodes:
        st = node.stmt
        if node.kind == "test" and isinstance(st, ast.If) and always_raises(st.body):
            t = st.test
            parts = t.values if isinstance(t, ast.BoolOp) and isinstance(t.op, ast.Or) else [t]
            for p in parts:
                for pol, call in cond_calls(p):
                    cs, _ = E.R.callees(call, fl.ctx)
                    if pol and cs and {c.innermost().qualname for c, _m in cs} <= q_param:
                        # must dominate the exit
                        if node.id in dom.get(fl.exit.id, set()):
                            found = True
    rep.check(found, "DOM-GUARD", "Sequence.estimate_added_delay|not-parametrized", "refused on a parametrized sequence on every path", "estimate_added_delay can return without rejecting a parametrized sequence", E.where(f))
    rep.floor("DOM-GUARD", 25)

    # ------------------------------------------------------------ DECLARE
    _declare_rules(E, rep)
    rep.floor("DECLARE", 8)

    # MODE: a rejection that depends only on the sequence's mode (XY / Ising) is not skipped for parametrized
    # sequences: it is evaluated before the `if self.is_parametrized(): return` short-cut, because the call is
    # stored and the mode is already known then (otherwise the wrong-mode call surfaces only at build time)
    from .. import sym as _sym2
    from .symutil import S as _S2, is_ as _is2, mentions as _mentions

    par = _sym2.Pattern("self.is_parametrized()").term
    n_mode = 0
    for name, fs in E.cls(SEQ).methods.items():
        for g in fs:
            if g.kind == "overload" or "is_parametrized" not in norm(g.node) or ("_in_xy" not in norm(g.node) and "_in_ising" not in norm(g.node)):
                continue
            Sg = _S2(E, g, inline=False)
            if not any(par in _sym2.conj_of(l.cond) for l in Sg.logged("return")):
                continue
            own_log = [l for l in Sg.log if l.fn == g.short]
            for l in Sg.logged("raise"):
                lits = set(_sym2.conj_of(l.cond))
                tests = [t for t in own_log[: own_log.index(l)] if t.kind == "test" and set(_sym2.conj_of(t.value)) <= lits]
                if not tests:
                    continue
                own = _sym2.conj_of(tests[-1].value)
                pure_mode = bool(own) and all(x in (("attr", ("name", "self"), "_in_xy"), ("attr", ("name", "self"), "_in_ising"), ("not", ("attr", ("name", "self"), "_in_xy")), ("not", ("attr", ("name", "self"), "_in_ising"))) for x in own)
                if not pure_mode:
                    continue
                n_mode += 1
                rep.check(_sym2.mk_not(par) not in lits, "MODE", f"{g.short}|mode-rejection-before-parametrized-shortcut|{_sym2.show(tests[-1].value)[:30]}", "the mode rejection is evaluated for parametrized sequences too", f"{g.short}: the rejection guarded by `{_sym2.show(tests[-1].value)}` is reached only when the sequence is not parametrized -- on a parametrized sequence the call is stored although the mode forbids it, and fails only at build()", E.where(g, l.node))
    # round 5 (independent audit): on a parametrized sequence config_slm_mask() returns early -- the once-only rule and the
    # availability of the DMM (which the regular path and _config_detuning_map enforce) are decided before that return
    csm = E.method(SEQ, "config_slm_mask")
    par_raises = [l for l in _S2(E, csm).logged("raise") if any(_is2(x, "self.is_parametrized()") is not None for x in _sym2.conj_of(l.cond))]
    once = any(_ment13(l.cond, "_slm_mask_targets") or (_ment13(l.cond, "_to_build_calls") and "config_slm_mask" in _sh13(l.cond, 2000)) for l in par_raises)
    avail = any(_ment13(l.cond, "available_channels") for l in par_raises)
    rep.check(once, "MODE", "Sequence.config_slm_mask|once-only-on-parametrized-sequence", "a second SLM mask is refused on the parametrized path too", "on a parametrized sequence config_slm_mask() returns before the 'SLM mask can be configured only once' guard: a second mask is accepted (declared_channels then lists dmm_0 and dmm_0_1) and only build() fails", E.where(csm))
    rep.check(avail, "MODE", "Sequence.config_slm_mask|dmm-availability-on-parametrized-sequence", "the DMM must still be available on the parametrized path (Ising mode)", "on a parametrized sequence config_slm_mask() never checks that the DMM is still available: on a physical device the mask is accepted on the DMM a detuning map already uses, which a regular sequence refuses", E.where(csm))
    # a stored config_slm_mask call declares a DMM only outside XY mode (in XY the mask is not played by a DMM)
    dcp = next(g for g in E.cls(SEQ).methods.get("declared_channels", []) if g.kind != "setter")
    # (decided on the writes of the returned table: in the disjunctive normal form of the condition of every write made
    #  inside the scan of the stored calls, a disjunct that selects `name == 'config_slm_mask'` also holds `not self._in_xy`)
    from .symutil import dnf as _dnf13

    not_xy = _sym2.mk_not(("attr", ("name", "self"), "_in_xy"))
    n_slm = 0
    ok_xy = True
    for l in _S2(E, dcp).log:
        if not (l.kind == "store" and l.loops and l.target is not None and l.target[0] == "idx"):
            continue
        for conj in _dnf13(l.cond):
            sel = [x for x in conj if x[0] == "cmp" and x[1] == "Eq" and ("const", "config_slm_mask") in (x[2], x[3])] + [x for x in conj if x[0] == "cmp" and x[1] == "In" and "config_slm_mask" in _sh13(x[3], 200)]
            if not sel:
                continue
            if any(x[0] == "cmp" and x[1] == "Eq" and ("const", "config_detuning_map") in (x[2], x[3]) for x in conj):
                continue  # (an infeasible / detuning-map disjunct)
            n_slm += 1
            ok_xy = ok_xy and not_xy in conj
    ok_xy = ok_xy and n_slm > 0
    rep.check(ok_xy, "MODE", "Sequence.declared_channels|stored-slm-mask-declares-a-dmm-only-outside-xy", "`call.name == 'config_slm_mask' and not self._in_xy`", "declared_channels counts a stored config_slm_mask call as a DMM declaration in XY mode too: a parametrized XY sequence lists 'dmm_0' next to its Microwave channel and accepts add_dmm_detuning / delay on it", E.where(dcp))
    # measure() records the measurement as its LAST step: everything that can still stop the call (the unsupported-basis
    # error, and the "basis not addressed" warning, which is an exception under -W error / pytest's error filter)
    # comes before the write, otherwise the sequence reads as measured although the call failed and was not stored
    mf = E.method(SEQ, "measure")
    mlog = _S2(E, mf, inline=False).log
    w_idx = [i for i, l in enumerate(mlog) if l.kind == "store" and l.target is not None and l.target[0] == "attr" and l.target[1] == ("name", "self") and l.target[2] in ("_measurement", "_param_measurement")]
    if not w_idx:
        raise AnalysisError("anchor: Sequence.measure no longer writes _measurement / _param_measurement")
    late = [l for i, l in enumerate(mlog) if i > min(w_idx) and (l.kind == "raise" or (l.kind == "call" and l.target is not None and l.target[0] == "attr" and l.target[2] == "warn"))]
    rep.check(not late, "MODE", "Sequence.measure|measurement-recorded-last", "raises and warnings precede the write of the measurement", f"Sequence.measure records the measurement and then still runs `{_sh13(late[0].value, 80) if late else ''}`: when that stops the call (a warning is an exception under -W error) the measurement is set but the call is not stored -- every later timeline change is refused although no measurement took place", E.where(mf, late[0].node if late else None))
    rep.floor("MODE", 5)
    return {
        "functions_analysed": len(E.S._callables),
        "timeline_writing_public_methods": sorted(timeline_methods),
        "unresolved_call_count": sum(len(v) for v in E.S.unresolved.values()),
    }


def _raising_tests(E: Engine, f) -> list[ast.AST]:
    out = []
    for n in ast.walk(f.node):
        if isinstance(n, ast.If) and always_raises(n.body):
            out.append(n.test)
    return out


def _declare_rules(E: Engine, rep: Report) -> None:
    from .. import sym as _symD
    from .symutil import S as _Sd, dnf as _dnfD, is_ as _isd, raises_when as _rw, sh as _shD

    dc = E.method(SEQ, "declare_channel")
    Sdc = _Sd(E, dc)
    rep.check(_rw(Sdc, "name in self._schedule"), "DECLARE", "declare_channel|name-in-use", "rejects a channel name already in the schedule", "declare_channel no longer rejects a name already in use", E.where(dc))
    rep.check(_rw(Sdc, "channel_id not in self.available_channels"), "DECLARE", "declare_channel|not-available", "rejects a channel id that is not in available_channels", "declare_channel no longer rejects an unavailable channel id", E.where(dc))
    rep.check(_rw(Sdc, "channel_id not in self._device.channels") or _rw(Sdc, "channel_id not in self.device.channels"), "DECLARE", "declare_channel|unknown-id", "rejects a channel id the device does not have", "declare_channel no longer rejects an unknown channel id", E.where(dc))
    # DMM side
    cdm = E.method(SEQ, "_config_detuning_map")
    Scd = _Sd(E, cdm)
    rep.check(_rw(Scd, "dmm_id not in self.available_channels"), "DECLARE", "_config_detuning_map|not-available", "rejects a DMM id that is not available", "_config_detuning_map no longer rejects an unavailable DMM", E.where(cdm))
    rep.check(_rw(Scd, "self._in_xy"), "DECLARE", "_config_detuning_map|xy-excludes-dmm", "a DMM is refused in XY mode", "_config_detuning_map no longer refuses a DMM in XY mode", E.where(cdm))
    # an id that the device must know is checked before the parametrized short-cut too: a stored call with an id the
    # device does not have makes every later query of the sequence fail (declared_channels -> KeyError)
    n_short = 0
    for g in E.P.all_functions():
        if g.module.name != "pulser.sequence.sequence" or g.kind == "overload" or "is_parametrized" not in norm(g.node):
            continue
        Sg = _Sd(E, g)
        shortcuts = [l for l in Sg.logged("return") if l.fn == g.short and any(x == _symD.Pattern("self.is_parametrized()").term for x in _symD.conj_of(l.cond))]
        if not shortcuts:
            continue
        member = []
        for l in Sg.logged("raise"):
            for conj_ in _dnfD(l.cond):
                for x in conj_:
                    if x[0] == "cmp" and x[1] == "NotIn" and x[2][0] == "name" and x[2][1] in g.params and x[3][0] == "attr" and x[3][1] in (_symD.Pattern("self._device").term, _symD.Pattern("self.device").term):
                        member.append((x[2], x))
        for idt, lit in {(a, b) for a, b in member}:
            n_short += 1
            ok_s = all(any(x == _symD.mk_not(lit) for x in _symD.conj_of(l.cond)) for l in shortcuts)
            rep.check(ok_s, "MODE", f"{g.short}|{idt[1]}|device-membership-checked-before-parametrized-shortcut", f"`{idt[1]}` is known to the device on the path that returns early for a parametrized sequence", f"{g.short} returns early when the sequence is parametrized without having checked `{_shD(lit, 80)}`: the call is stored with an id the device does not have, and declared_channels / available_channels then raise KeyError on every later call", E.where(g))
    if n_short < 1:
        rep.error("no device-membership check next to a parametrized short-cut found (expected config_slm_mask / _config_detuning_map)")
    # an optional *qubit id* is tested with `is (not) None`: 0 and "" are legal ids, a truthiness test would treat
    # them as "no id given" (declare_channel(..., initial_target=0) would silently leave the channel without target)
    n_idp = 0
    for g in E.P.all_functions():
        if g.module.name != "pulser.sequence.sequence" or g.kind == "overload":
            continue
        a_ = g.node.args
        idp = set()
        for x in a_.posonlyargs + a_.args + a_.kwonlyargs:
            if x.annotation is None:
                continue
            an = ast.unparse(x.annotation)
            d_ = g.param_defaults().get(x.arg)
            # the annotation admits a bare QubitId (not only collections of ids) and the default is None
            def _alts(n_):
                if isinstance(n_, ast.BinOp) and isinstance(n_.op, ast.BitOr):
                    return _alts(n_.left) + _alts(n_.right)
                if isinstance(n_, ast.Subscript) and (dotted(n_.value) or "").split(".")[-1] in ("Optional", "Union"):
                    sl = n_.slice
                    return [y for e_ in (sl.elts if isinstance(sl, ast.Tuple) else [sl]) for y in _alts(e_)]
                return [n_]

            bare = any(isinstance(y, ast.Name) and y.id == "QubitId" for y in _alts(x.annotation))
            if bare and isinstance(d_, ast.Constant) and d_.value is None:
                idp.add(x.arg)
        if not idp:
            continue
        for l in _Sd(E, g, inline=False).logged("test"):
            for lit in ([l.value] if l.value[0] not in ("and", "or") else list(l.value[1:])):
                t = lit[1] if lit[0] == "not" else lit
                if t[0] == "name" and t[1] in idp and l.fn == g.short:
                    n_idp += 1
                    rep.violation("DECLARE", f"{g.short}|{t[1]}|optional-id-tested-by-truthiness", f"{g.short} tests the optional qubit id `{t[1]}` for truthiness: the ids 0 and '' are legal and would be treated as if no id had been given; test `is not None`", E.where(g, l.node))
                m_ = _isd(lit, "Q_v is not None") or _isd(lit, "Q_v is None")
                if m_ is not None and m_["Q_v"][0] == "name" and m_["Q_v"][1] in idp and l.fn == g.short:
                    n_idp += 1
                    rep.ok("DECLARE", f"{g.short}|{m_['Q_v'][1]}|optional-id-tested-with-is-None", "optional qubit id tested with `is (not) None`", E.where(g, l.node))
    if n_idp < 1:
        rep.error("no presence test of an optional qubit-id parameter found (expected declare_channel.initial_target)")
    # available_channels filter
    av = E.method(SEQ, "available_channels")
    from .. import sym as _symA
    from .symutil import S as _SA, branches as _brA, has as _hasA, unobj as _unA

    ok_occ = False
    ok_xy = False
    occ_terms: list = []
    rav = _SA(E, av).ret
    for conds_, leaf_ in _brA(rav) if rav is not None else []:
        # the branch taken once a mode is chosen (the other branches list every channel of the device)
        if not any(_symA.contains(c_, _symA.Pattern("self._in_xy").term) and c_[0] == "or" for c_ in conds_):
            continue
        for t_ in _symA.subterms(leaf_):
            if t_[0] != "comp" or len(t_[3]) != 1:
                continue
            filt = t_[3][0][1]
            el = ("elem", t_[3][0][0], 0)
            id_, ch_ = ("item", el, 0), ("item", el, 1)
            for x in _symA.conj_of(filt):
                m_ = _symA.match(_symA.Pattern("self._device.reusable_channels or Q_id not in Q_occ").term, x)
                if m_ is not None and m_["Q_id"] == id_:
                    ok_occ = True
                    occ_terms.append(m_["Q_occ"])
                m_ = _symA.match(_symA.Pattern("(Q_ch.basis == 'XY' or QS_dmm) if self._in_xy else Q_ch.basis != 'XY'").term, x)
                if m_ is not None and m_["Q_ch"] == ch_:
                    ok_xy = True
    rep.check(ok_occ, "DECLARE", "available_channels|occupied-or-reusable", "a channel id stays available iff it is not occupied or the device has reusable channels", "available_channels no longer filters occupied channel ids (declare-once broken)", E.where(av))
    rep.check(ok_xy, "DECLARE", "available_channels|xy-split", "XY channels and non-XY channels never coexist in the available set", "available_channels no longer separates XY from non-XY channels", E.where(av))
    # a local channel needs a target first
    gi = E.method(CHS, "__getitem__")
    Sgi = _Sd(E, gi)
    ok = _rw(Sgi, "key == -1", "not self.slots") or _rw(Sgi, "key == -1", "len(self.slots) == 0") or _rw(Sgi, "key == -1", "len(self.slots) < 1")
    rep.check(ok, "DECLARE", "_ChannelSchedule.__getitem__|needs-target", "reading the last slot of an empty (local, untargeted) channel is rejected", "an empty channel no longer rejects access to its last slot (a local channel could take a pulse before a target)", E.where(gi))
    # the EOM typestate predicate: an open block is one whose end is None (an end of 0 is a closed block)
    iem = E.method(CHS, "in_eom_mode")
    from ..absval import abstractor as _abs

    ab = _abs(E.flow(iem))
    ok = False
    for r in ast.walk(iem.node):
        if isinstance(r, ast.Return) and r.value is not None and "eom_blocks" in norm(r.value) and "get_eom_mode_intervals" not in norm(r.value):
            for conj in ab.literals(r.value):
                has_nonempty = any(l.atom is None and l.truth is not None and l.positive and "self.eom_blocks" in l.truth.roots for l in conj)
                has_open = any(l.atom is not None and l.atom.rel == "Is" and "self.eom_blocks.tf" in l.atom.lhs.roots and "const:None" in l.atom.rhs.roots for l in conj)
                ok = has_nonempty and has_open and len(conj) == 2
    rep.check(ok, "DECLARE", "_ChannelSchedule.in_eom_mode|open-block-iff-tf-is-None", "in EOM mode iff there is a block and its end `is None`", "in_eom_mode() is no longer `bool(eom_blocks) and eom_blocks[-1].tf is None`: a block closed at t=0 (or another falsy end) would still count as open", E.where(iem))
    # occupied channel ids derive from declared_channels (which includes DMM/SLM configurations stored for build)
    from .symutil import sh as _shA

    ok_decl = bool(occ_terms) and all(_symA.contains(t_, _symA.Pattern("self.declared_channels").term) for t_ in occ_terms)
    rep.check(ok_decl, "DECLARE", "available_channels|occupied-from-declared_channels", "occupied ids range over declared_channels (schedule + stored DMM/SLM configurations)", f"occupied channel ids no longer derive from declared_channels ({[_shA(t_, 120) for t_ in occ_terms]}): DMMs configured on a parametrized sequence (stored for build, not yet in the schedule) would stay available", E.where(av))
    # XY / ising exclusivity in the setter and declare_channel
    st = E.method(SEQ, "_in_ising", kind="setter")
    ok = _rw(_Sd(E, st), "self._in_xy")
    rep.check(ok, "DECLARE", "_in_ising.setter|rejects-xy", "Ising mode is refused while in XY mode", "_in_ising setter no longer rejects when the sequence is in XY mode", E.where(st))


def _nested_if_tests(fn_node: ast.AST) -> list[ast.AST]:
    """Tests of ifs all of whose branches raise (if/elif/else chain of raises)."""
    out = []
    for n in ast.walk(fn_node):
        if isinstance(n, ast.If) and always_raises(n.body):
            out.append(n.test)
    return out


def _is_membership(test: ast.AST, elem: str, containers: tuple[str, ...], negated: bool) -> bool:
    if isinstance(test, ast.Compare) and len(test.ops) == 1:
        op = test.ops[0]
        if isinstance(op, ast.NotIn if negated else ast.In) and norm(test.left) == elem and norm(test.comparators[0]) in containers:
            return True
    if isinstance(test, ast.UnaryOp) and isinstance(test.op, ast.Not):
        return _is_membership(test.operand, elem, containers, not negated)
    return False
