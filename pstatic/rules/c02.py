"""C02 -- channel timelines are gap-free, non-overlapping, clock-aligned and never move."""
from __future__ import annotations

import ast

from ..absval import abstractor
from ..engine import CHS, DMMS, SCHED, SEQ, Engine
from ..flow import flow_of
from ..model import AnalysisError, dotted, norm
from ..report import Report

EXPLANATION = (
    "OWN: a whole-program scan of write sites: the slot list of a channel is only ever appended to (no insert/pop/remove/sort/reverse/clear/del/slice assignment anywhere in the 88 modules), only by "
    "pulser.sequence._schedule and pulser.sequence.sequence; the one index assignment (Sequence._set_register) rebuilds the slot from its own fields with only `targets` replaced; _TimeSlot is an immutable NamedTuple; "
    "EOM block ends are written only by the scheduler. FLOW (continuity): at each slot construction in the scheduler the start time has provenance 'tf of the current last slot' (never its ti, no arithmetic), "
    "the end time is start + a duration whose provenance is validate_duration/adjust_duration/pulse.duration (validated upstream, C01) or literal 0; the automatic delay inserted by add_pulse is exactly slot.ti - last.tf; "
    "adjust_duration = validate_duration(max(d, min_duration)); align delays go through adjust_duration. GUARD: sequence duration aggregates with max over all channels; channel duration starts from the last slot's tf. "
    "NOT decided: non-negativity and exact clock multiples as numbers. FLOW (added): a pulse built for a slot lasts exactly tf - ti of that slot; the start of a pulse slot exceeds the previous end only by a delay that is <= 0 or an adjust_duration result. Round 3 (added): add_pulse inserts the delay under `slot.ti - last.tf > 0` only (no protocol-dependent gap); Sequence._set_register rewrites slot i with slot i itself, `targets` replaced."
    ' Round 4 (added): the gap before a pulse is filled through add_delay (a hand-made delay slot bypasses the EOM/idle bookkeeping).'
    ' Round 5 (added): the backward scan of get_duration(include_fall_time=True) stops only under `not include_fall_time` or under the look-back window test (never merely because a pulse was met), and the window uses the EOM rise time in EOM mode.'
)
ASSUMPTIONS = ["formulas, guards and sibling code are matched on the symbolic normal form (pstatic/sym.py): temporaries, private helpers, conditional forms and operand order do not matter; state mutation between two reads of one access path is not modelled (orderings are taken from the program order of the logged calls)", "write ownership (OWN) uses the whole-program effect summaries at (class, field) granularity"]

BAD_OPS = {"call:insert", "call:pop", "call:remove", "call:sort", "call:reverse", "call:clear", "call:extend", "delitem", "del", "augassign", "call:__setitem__", "call:__delitem__"}


def run(E: Engine, rep: Report, tier: str) -> dict:
    P = E.P
    E.call_index()
    # ---------------------------------------------------------------- OWN
    n_sites = 0
    allowed_modules = ("pulser.sequence._schedule", "pulser.sequence.sequence")
    for f in P.all_functions():
        if f.kind == "overload":
            continue
        fl = flow_of(E.R, f)
        for node, _i, e in fl.all_events():
            if e.kind != "write":
                continue
            for owner, fld in e.places:
                if owner in (CHS, DMMS) and fld == "slots":
                    n_sites += 1
                    key = f"{f.short}|slots|{e.op}"
                    where = E.where(f, e.node)
                    if e.op == "call:append":
                        rep.check(f.module.name in allowed_modules, "OWN", key, "append-only write inside the scheduler/Sequence", f"{f.short} (module {f.module.name}) appends to a channel's slot list: only the scheduler may write the timeline", where)
                    elif e.op == "assign" and f.name == "__post_init__" and isinstance(e.node, (ast.Assign, ast.AnnAssign)) and isinstance(e.node.value, ast.List) and not e.node.value.elts:
                        rep.ok("OWN", key, "initialisation to the empty list", where)
                    elif e.op == "setitem" and f.short == "Sequence._set_register":
                        ok = _rebuilds_same_slot(E, f)
                        rep.check(ok, "OWN", key, "index assignment rebuilds the slot from its own fields, only `targets` replaced", "Sequence._set_register rewrites a slot with something other than its own fields (+targets): instruction times could move", where)
                    else:
                        rep.violation("OWN", key, f"`{e.text}` in {f.short}: the slot list must only be appended to (instruction times never move once scheduled); found operation '{e.op}'", where)
                if owner == "pulser.sequence._schedule._EOMSettings" or (owner == CHS and fld == "eom_blocks"):
                    n_sites += 1
                    rep.check(f.module.name == "pulser.sequence._schedule" and e.op in ("assign", "call:append"), "OWN", f"{f.short}|{owner.split('.')[-1]}.{fld}|{e.op}", "EOM blocks are written by the scheduler only (append / close)", f"`{e.text}` in {f.short}: EOM block storage written outside the scheduler or with operation '{e.op}'", E.where(f, e.node))
    ts = P.cls("pulser.sequence._schedule._TimeSlot")
    rep.check(any((dotted(b) or "").split(".")[-1] == "NamedTuple" for b in ts.node.bases), "OWN", "_TimeSlot|immutable-record", "_TimeSlot derives from NamedTuple", "_TimeSlot is no longer an immutable NamedTuple: scheduled times could be edited in place", E.where_mod(ts.module.relpath, ts.node))
    rep.floor("OWN", 9)

    # --------------------------------------------------------------- FLOW
    from .. import sym
    from .symutil import S, arg, has, is_, mentions, sh, unobj
    from .symutil import branches as _branches_util

    LAST = sym.Pattern("self[channel][-1]").term
    LAST_TF = ("attr", LAST, "tf")

    def duration_ok(d, guards: tuple = ()) -> bool:
        """d is a duration the channel accepted: a validate/adjust result, the (validated) pulse's duration, or 0 /
        a value known to be <= 0 on this path (nothing to adjust)."""
        if d == ("const", 0) or d == ("attr", ("name", "pulse"), "duration"):
            return True
        if d[0] == "call" and d[1][0] == "attr" and d[1][2] in ("validate_duration", "adjust_duration"):
            return True
        if any(g == sym.mk_cmp("Eq", ("const", 0), d) or g == sym.mk_cmp("LtE", d, ("const", 0)) for g in guards):
            return True
        if d[0] == "ifexp":
            c = d[1]
            return duration_ok(d[2], guards + (c,)) and duration_ok(d[3], guards + (sym.mk_not(c),))
        return False

    def branches(t, conds: tuple = ()):
        if t is not None and t[0] == "ifexp":
            yield from branches(t[2], conds + (t[1],))
            yield from branches(t[3], conds + (sym.mk_not(t[1]),))
        else:
            yield conds, t

    n_ctor = 0
    per_fn = {}
    for mname in ("add_delay", "add_target", "make_next_pulse_slot"):
        f = E.method(SCHED, mname)
        Sf = S(E, f)
        for l in [l for l in Sf.calls("_TimeSlot") if l.fn == f.short]:
            n_ctor += 1
            per_fn[mname] = per_fn.get(mname, 0) + 1
            ti, tf = arg(l, 1, "ti"), arg(l, 2, "tf")
            where = E.where(f, l.node)
            key = f"_Schedule.{mname}|{sh(arg(l, 0, 'type'), 14)}"
            tf_b = dict(branches(tf))
            ok_ti = ok_tf = ti is not None and tf is not None
            why = ""
            for conds, t in branches(ti):
                if not ok_ti:
                    break
                if t == ("const", -1) and tf_b.get(conds) == ("const", 0) and mname == "add_target" and any(c == sym.mk_not(("attr", ("idx", ("name", "self"), ("name", "channel")), "slots")) for c in conds):
                    continue  # the initial target of an empty channel: the conventional (-1, 0) slot
                start_extra = sym.mk_add([t, sym.mk_neg(LAST_TF)])
                if mname != "make_next_pulse_slot":
                    if t != LAST_TF:
                        ok_ti, why = False, f"ti = {sh(t, 120)}"
                else:
                    # the automatic delay: zero/negative or adjusted
                    if sym.contains(start_extra, LAST_TF) and not duration_ok(start_extra):
                        pass
                    if not duration_ok(start_extra):
                        ok_ti, why = False, f"ti - last.tf = {sh(start_extra, 160)}"
                t_end = tf_b.get(conds, tf if tf is not None and tf[0] != "ifexp" else None)
                if t_end is None:
                    ok_tf, why = False, f"tf = {sh(tf, 120)}"
                    continue
                d = sym.mk_add([t_end, sym.mk_neg(t)])
                if not duration_ok(d):
                    ok_tf, why = False, f"tf - ti = {sh(d, 160)}"
            # a pulse stored in a slot lasts exactly as long as the slot
            ty = unobj(arg(l, 0, "type")) if arg(l, 0, "type") is not None else None
            for _c, leaf in _branches_util(ty):
                leaf = unobj(leaf)
                if leaf is not None and leaf[0] == "call" and leaf[1][0] == "attr" and leaf[1][2] in ("ConstantPulse", "ConstantAmplitude", "ConstantDetuning") and leaf[2]:
                    fills = ti is not None and tf is not None and leaf[2][0] == sym.mk_add([tf, sym.mk_neg(ti)])
                    rep.check(fills, "FLOW", key + "|pulse-fills-its-slot", "the pulse built for the slot lasts tf - ti", f"the pulse stored in the slot lasts {sh(leaf[2][0], 80)} but the slot lasts {sh(sym.mk_add([tf, sym.mk_neg(ti)]), 80)}: the pulse does not occupy exactly its slot (and its samples do not fit the timeline)", where)
            rep.check(ok_ti, "FLOW", key + "|ti=previous-tf", "the slot starts at the end of the channel's current last slot (plus an adjusted automatic delay for pulses)", f"the start time of the new slot is not the end of the current last slot (plus a delay accepted by the channel): {why}", where)
            rep.check(ok_tf, "FLOW", key + "|tf=ti+validated-duration", "tf = ti + duration validated/adjusted by the channel", f"the end time is not `ti + <duration validated or adjusted by the channel>`: {why}", where)
    if n_ctor < 3 or set(per_fn) != {"add_delay", "add_target", "make_next_pulse_slot"}:
        rep.error(f"_TimeSlot constructions found per scheduler method: {per_fn} (expected at least one in each of add_delay, add_target, make_next_pulse_slot)")
    # the EOM buffer pulse's duration is adjusted as well
    en = E.method(SCHED, "enable_eom")
    for l in [l for l in S(E, en).calls("ConstantPulse") if l.fn == en.short]:
        a = arg(l, 0, "duration")
        rep.check(a is not None and is_(a, "Q_x.adjust_duration(Q_d)") is not None, "FLOW", "_Schedule.enable_eom|buffer-pulse-duration-adjusted", "EOM buffer pulse duration comes from adjust_duration", f"the EOM buffer pulse duration {sh(a, 80)} does not pass adjust_duration", E.where(en, l.node))
    # add_pulse inserts exactly slot.ti - last.tf
    f = E.method(SCHED, "add_pulse")
    Sp = S(E, f)
    dls = [l for l in Sp.calls("add_delay") if l.fn == f.short]
    mk = [l for l in Sp.calls("make_next_pulse_slot") if l.fn == f.short]
    if not mk:
        raise AnalysisError("anchor: _Schedule.add_pulse no longer calls make_next_pulse_slot")
    if not dls:
        dls = [l for l in Sp.calls("add_delay")]  # through an extracted private helper
    rep.check(bool(dls), "FLOW", "_Schedule.add_pulse|gap-filled-by-add_delay", "the gap before the pulse is filled by add_delay",
              "_Schedule.add_pulse no longer fills the gap before a pulse through add_delay: add_delay is what decides how idle time is represented (in EOM mode a detuned zero-amplitude pulse, otherwise a delay slot on the current targets), so a hand-made slot leaves the EOM bookkeeping and the phase drift of that interval wrong", E.where(f))
    for l in dls:
        a = arg(l, 0, "duration")
        ok = a == sym.mk_add([("attr", mk[-1].value, "ti"), sym.mk_neg(LAST_TF)]) and arg(l, 1, "channel") == ("name", "channel")
        rep.check(ok, "FLOW", "_Schedule.add_pulse|delay=slot.ti-last.tf", "inserted delay = slot.ti - last.tf (no gap, no overlap)", f"the delay inserted before the pulse is not exactly slot.ti - last.tf: {sh(a, 200)}", E.where(f, l.node))
        # ... whenever it is positive: the only condition on the insertion is `slot.ti - last.tf > 0` (in any
        # protocol the slot may start later than the channel's end, e.g. behind a phase barrier under 'no-delay')
        gap = sym.mk_add([("attr", mk[-1].value, "ti"), sym.mk_neg(LAST_TF)])
        extra = [x for x in sym.conj_of(l.cond) if not (sym.contains(x, ("attr", mk[-1].value, "ti")) and x[0] == "cmp" and x[1] in ("Lt", "LtE", "NotEq"))]
        rep.check(not extra and bool(sym.conj_of(l.cond)), "FLOW", "_Schedule.add_pulse|gap-filled-whenever-positive", "the delay is inserted under `slot.ti - last.tf > 0` only", f"the delay before the pulse is inserted only under `{sh(l.cond, 160)}`: when the extra condition fails and the slot starts after the channel's end, the timeline has a gap", E.where(f, l.node))
    # append order in add_pulse: the delay comes before the pulse slot
    fl = E.flow(f)
    add_delay = E.method(SCHED, "add_delay")
    evs = [(node.id, i, e) for node, i, e in fl.all_events()]
    i_delay = next((k for k, (_n, _i, e) in enumerate(evs) if e.kind == "call" and any(c.innermost() is add_delay for c, _m in e.callees)), None)
    i_app = next((k for k, (_n, _i, e) in enumerate(evs) if e.kind == "write" and e.op == "call:append"), None)
    rep.check(i_delay is not None and i_app is not None and i_delay < i_app, "FLOW", "_Schedule.add_pulse|delay-before-slot", "the automatic delay is appended before the pulse slot", "add_pulse appends the pulse slot before its delay: slots out of time order", E.where(f))
    # adjust_duration
    f = E.method(CHS, "adjust_duration")
    r = S(E, f).ret
    rep.check(is_(r, "self.channel_obj.validate_duration(max(duration, self.channel_obj.min_duration))") is not None, "FLOW", "_ChannelSchedule.adjust_duration|validate(max(d,min))", "adjust_duration = validate_duration(max(duration, min_duration))", f"adjust_duration no longer lifts to the minimum duration and validates (clock multiple): {sh(r)}", E.where(f))
    # wait_for_fall / EOM buffers / align hand adjust_duration results to add_delay
    for cq, mname in ((SCHED, "wait_for_fall"), (SCHED, "enable_eom"), (SCHED, "disable_eom")):
        f = E.method(cq, mname)
        for l in [l for l in S(E, f, inline=False).calls("add_delay") if l.fn == f.short]:
            a = arg(l, 0, "duration")
            rep.check(a is not None and is_(a, "Q_x.adjust_duration(Q_d)") is not None, "FLOW", f"_Schedule.{mname}|delay-adjusted", "delay duration comes from adjust_duration", f"{mname} adds a delay whose duration does not pass adjust_duration: {sh(a, 160)}", E.where(f, l.node))
    al = E.method(SEQ, "align")
    dl = [l for l in S(E, al).calls("_delay") if l.fn == al.short]
    if not dl:
        raise AnalysisError("anchor: Sequence.align no longer calls _delay")
    for l in dl:
        a = arg(l, 0, "duration")
        rep.check(a is not None and is_(a, "Q_x.adjust_duration(Q_d)") is not None, "FLOW", "Sequence.align|delay-adjusted", "alignment delay comes from adjust_duration", f"align adds a delay that does not pass adjust_duration: {sh(a, 160)}", E.where(al, l.node))
    rep.floor("FLOW", 12)

    # -------------------------------------------------------------- GUARD
    gd = E.method(SCHED, "get_duration")
    r = S(E, gd).ret
    from .symutil import branches as _br2, elem_of as _eo2

    def chan_duration(t, of) -> bool:
        """t = <of>.get_duration(include_fall_time)  (positional or by keyword)"""
        return is_(t, "Q_x.get_duration(include_fall_time)", {"Q_x": of}) is not None or is_(t, "Q_x.get_duration(include_fall_time=include_fall_time)", {"Q_x": of}) is not None

    def all_channels_max(t) -> bool:
        m_ = is_(t, "max(Q_c)")
        c = unobj(m_["Q_c"]) if m_ else None
        if c is None or c[0] != "comp" or len(c[3]) != 1 or c[3][0][1] != sym.TRUE:
            return False
        it = unobj(c[3][0][0])
        e_ = ("elem", c[3][0][0], 0)
        if is_(it, "self.values()") is not None:
            return chan_duration(c[2], e_)
        if is_(it, "self.keys()") is not None or is_(it, "tuple(self.keys())") is not None or it == ("name", "self") or is_(it, "list(self)") is not None:
            return chan_duration(c[2], ("idx", ("name", "self"), e_))
        return False

    def one_channel(t) -> bool:
        if chan_duration(t, sym.Pattern("self[channel]").term):
            return True
        m_ = is_(t, "max(Q_c)")
        c = unobj(m_["Q_c"]) if m_ else None
        # max over the one-element tuple (channel,)
        return bool(c is not None and c[0] == "comp" and len(c[3]) == 1 and c[3][0][0] == ("tuple", ("name", "channel")) and chan_duration(c[2], ("idx", ("name", "self"), ("elem", c[3][0][0], 0))))

    from .symutil import simplify_under as _su

    leaves = [(c, _su(t, c)) for c, t in _br2(r)]
    none_l = [(c, t) for c, t in leaves if any(x == sym.Pattern("channel is None").term for x in c)]
    some_l = [(c, t) for c, t in leaves if any(x == sym.Pattern("channel is not None").term for x in c)]
    ok_all = bool(none_l) and all(t == ("const", 0) or all_channels_max(t) for _c, t in none_l) and any(all_channels_max(t) for _c, t in none_l)
    ok_one = bool(some_l) and all(one_channel(t) for _c, t in some_l)
    if not none_l and not some_l:
        # single expression over a conditional tuple of channels
        m = has(r, "max(Q_c)")
        c = unobj(m["Q_c"]) if m else None
        ok_one = ok_all = bool(c is not None and c[0] == "comp" and chan_duration(c[2], ("idx", ("name", "self"), ("elem", c[3][0][0], 0))) and any(is_(x, "Q_a if channel is None else (channel,)") is not None and mentions(is_(x, "Q_a if channel is None else (channel,)")["Q_a"], "keys", "self") for x in sym.subterms(c[3][0][0])))
    rep.check(ok_all, "GUARD", "_Schedule.get_duration|max-over-channels", "sequence duration = max over all channels' durations when no channel is given", f"_Schedule.get_duration no longer aggregates with max over all the channels: {sh(r, 200)}", E.where(gd))
    rep.check(ok_one, "GUARD", "_Schedule.get_duration|all-channels", "a given channel's own duration otherwise", f"_Schedule.get_duration(channel) is no longer that channel's duration: {sh(r, 200)}", E.where(gd))
    cgd = E.method(CHS, "get_duration")
    r = S(E, cgd).ret
    slot_attrs = {t[2] for t in sym.subterms(r) if t[0] == "attr" and (t[1][0] in ("elem", "item") or is_(t[1], "self.slots[-1]") is not None) and t[2] in ("ti", "tf")}
    rep.check(slot_attrs == {"tf"} and has(r, "max(Q_a, Q_b)") is not None, "GUARD", "_ChannelSchedule.get_duration|last-slot-tf", "channel duration derives from the slots' tf (max with the pending fall time)", f"channel duration no longer derives from slot end times only: reads {sorted(slot_attrs)}", E.where(cgd))
    rev = any(is_(t, "self.slots[::-1]") is not None or is_(t, "reversed(self.slots)") is not None or is_(t, "self.slots[-1]") is not None for t in sym.subterms(r))
    rep.check(rev, "GUARD", "_ChannelSchedule.get_duration|from-last-slot", "scans from the last slot backwards", "channel duration no longer starts from the last slot", E.where(cgd))
    # the pending fall time is the latest `tf + fall_time` over EVERY pulse that can still be ramping down: the backward
    # scan stops only on the `not include_fall_time` shortcut or once a slot ended a whole look-back window before the
    # channel's end -- never merely because a pulse was met (a short pulse does not hide its predecessor's fall)
    brks = [l for l in S(E, cgd).log if l.kind == "break" and l.fn == cgd.short]
    if not brks:
        rep.excepted("GUARD", "_ChannelSchedule.get_duration|scan-stops-only-at-window", "no break in the scan (written without a loop exit): not decided", E.where(cgd))
    for i_, l in enumerate(brks):
        lits_ = sym.conj_of(l.cond)
        shortcut = sym.mk_not(("name", "include_fall_time")) in lits_
        window = any(x[0] == "cmp" and x[1] in ("LtE", "GtE", "Lt", "Gt") and mentions(x, "rise_time") and mentions(x, "tf") for x in lits_)
        rep.check(shortcut or window, "GUARD", f"_ChannelSchedule.get_duration|scan-stops-only-at-window|break{i_}", "break under `not include_fall_time` or under the look-back window test",
                  f"the backward scan of get_duration stops under `{sh(l.cond, 120)}` -- at the first pulse it meets: a pulse shorter than its predecessor's fall time (added with 'no-delay') hides that pending fall time, the reported at-rest duration drops and wait_for_fall / at_rest delays start early", E.where(cgd, l.node))
        if window:
            w_ = next(x for x in lits_ if x[0] == "cmp" and mentions(x, "rise_time") and mentions(x, "tf"))
            rep.check(mentions(w_, "eom_config"), "GUARD", f"_ChannelSchedule.get_duration|window-uses-eom-rise-time-in-eom-mode|break{i_}", "the look-back window is 2 * (EOM rise time in EOM mode, channel rise time otherwise)",
                      f"the look-back window `{sh(w_, 100)}` uses the channel's rise time only, while in EOM mode the fall time of a pulse is computed with the EOM's (possibly slower) rise time: behind plain delays a pending fall time longer than the window is lost", E.where(cgd, l.node))
    rep.floor("GUARD", 4)
    return {"slot_write_sites": n_sites, "functions_analysed": len(P.functions), "call_sites": getattr(E, "_n_call_events", 0)}


def _rebuilds_same_slot(E, f) -> bool:
    """Every `<...>.slots[i] = v` of ``f`` stores slot i itself with only `targets` replaced: either
    `slot._replace(targets=...)` or `_TimeSlot(**d)` with d = slot._asdict() and `d['targets']` the only key
    written; i and slot are the two items of one `enumerate(...)` element (symbolic normal form)."""
    from .. import sym
    from .symutil import S, is_, unobj

    Sf = S(E, f)
    sites = [l for l in Sf.logged("store") if l.target is not None and l.target[0] == "idx" and unobj(l.target[1])[0] == "attr" and unobj(l.target[1])[2] == "slots"]
    if not sites:
        return False
    for l in sites:
        idx, v = l.target[2], unobj(l.value)
        src = None
        m = is_(v, "Q_s._replace(targets=Q_t)")
        if m is not None:
            src = m["Q_s"]
        elif v[0] == "call" and v[1] == ("name", "_TimeSlot") and not v[2] and len(v[3]) == 1 and v[3][0][0] == "**":
            d = v[3][0][1]
            m2 = is_(unobj(d), "Q_s._asdict()")
            if m2 is not None:
                keys = [w.target[2] for w in Sf.logged("store") if w.target is not None and w.target[0] == "idx" and w.target[1] == d]
                if all(k == ("const", "targets") for k in keys):
                    src = m2["Q_s"]
        if src is None:
            return False
        same = idx[0] == "item" and src[0] == "item" and idx[1] == src[1] and idx[2] == 0 and src[2] == 1 and idx[1][0] == "elem" and unobj(idx[1][1])[0] == "call" and unobj(idx[1][1])[1] == ("name", "enumerate")
        if not same:
            return False
    return True
