"""C13: config_slm_mask after measure() changes the timeline.
cd /tmp && PYTHONPATH=/repo/pulser-core:/repo/pulser-simulation /venv/bin/python -W ignore /verif/findings/repro_c13.py"""
from pulser import Pulse, Register, Sequence
from pulser.devices import DigitalAnalogDevice

reg = Register.from_coordinates([(0, 0), (6, 0)], prefix="q")
seq = Sequence(reg, DigitalAnalogDevice)
seq.declare_channel("ch", "rydberg_global")
seq.add(Pulse.ConstantPulse(100, 1.0, 0.0, 0.0), "ch")
seq.measure()
before = (tuple(seq._schedule), seq.get_duration())
try:
    seq.config_slm_mask(["q0"])
    after = (tuple(seq._schedule), seq.get_duration())
    print("config_slm_mask_after_measure:", "VIOLATED (accepted; channels %s -> %s)" % (before[0], after[0]))
except RuntimeError as e:
    print("config_slm_mask_after_measure: holds (", e, ")")
