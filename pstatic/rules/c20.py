"""C20 -- observables and results are correct functions of the emulated state (narrow)."""
from __future__ import annotations

import ast

from ..absval import abstractor
from ..engine import Engine
from ..model import AnalysisError, dotted, norm
from ..report import Report
from .common import own_nodes, returns

EXPLANATION = (
    "TT: the storing condition of Observable.__call__ is checked against the documented truth table over the atoms (own = evaluation_times is not None, t in own times, t in default times): it must be "
    "(own and t in own) or (not own and t in default) -- an observable with its own evaluation times is not also evaluated at the configuration's default times. "
    "GUARD: no hard-coded qudit dimension: the zero density matrix accumulated in the stochastic branch of QutipBackendV2.run is sized from the emulator's dimension, not a literal; both branches of run() call every "
    "observable with the same keyword set; Results._store_raw rejects a repeated time and requires ascending times; default observables read their operands from the state/hamiltonian they are given "
    "(Energy: hamiltonian.expect(state); second moment: (hamiltonian @ hamiltonian).expect(state); variance = second moment - energy**2). "
    "NOT decided: the numeric values of the observables (runtime)."
)
ASSUMPTIONS = ["the truth table is evaluated symbolically over three named atoms of one boolean expression"]


def _eval(e: ast.AST, env: dict) -> bool:
    if isinstance(e, ast.BoolOp):
        vals = [_eval(v, env) for v in e.values]
        return all(vals) if isinstance(e.op, ast.And) else any(vals)
    if isinstance(e, ast.UnaryOp) and isinstance(e.op, ast.Not):
        return not _eval(e.operand, env)
    key = norm(e).replace(" ", "")
    for k, v in env.items():
        if key == k:
            return v
    raise KeyError(norm(e))


def run(E: Engine, rep: Report, tier: str) -> dict:
    P = E.P
    call = E.fn("pulser.backend.observable.Observable.__call__")
    # ----------------------------------------------------------------- TT
    cond = None
    for n in own_nodes(call):
        if isinstance(n, ast.If) and "_store" in norm(ast.Module(body=n.body, type_ignores=[])):
            cond = n.test
    if cond is None:
        raise AnalysisError("anchor: storing condition of Observable.__call__ not found")
    atoms = {}
    for sub in ast.walk(cond):
        if isinstance(sub, ast.Compare) and "evaluation_times" in norm(sub.left) and isinstance(sub.ops[0], (ast.Is, ast.IsNot)):
            atoms[norm(sub).replace(" ", "")] = ("own", isinstance(sub.ops[0], ast.IsNot))
        if isinstance(sub, ast.Call) and isinstance(sub.func, ast.Attribute) and sub.func.attr == "is_time_in_evaluation_times":
            atoms[norm(sub).replace(" ", "")] = ("in_own", True)
        if isinstance(sub, ast.Call) and isinstance(sub.func, ast.Attribute) and sub.func.attr == "is_evaluation_time":
            atoms[norm(sub).replace(" ", "")] = ("in_default", True)
    ok = True
    bad_rows = []
    try:
        for own in (False, True):
            for in_own in (False, True):
                for in_def in (False, True):
                    if not own and in_own:
                        continue  # t cannot be in non-existing own times
                    env = {}
                    for k, (nm, pol) in atoms.items():
                        val = {"own": own, "in_own": in_own, "in_default": in_def}[nm]
                        env[k] = val if pol else (not val)
                    got = _eval(cond, env)
                    want = (own and in_own) or ((not own) and in_def)
                    if got != want:
                        ok = False
                        bad_rows.append(f"own={own}, t_in_own={in_own}, t_in_default={in_def}: stores={got}, expected {want}")
    except KeyError as e:
        ok = False
        bad_rows.append(f"condition has an atom the rule does not know: {e}")
    rep.check(ok and len({v[0] for v in atoms.values()}) == 3, "TT", "Observable.__call__|stores-iff-own-times-else-default-times", "stores iff (own and t in own) or (not own and t in default) -- 6 rows",
              f"the storing condition `{norm(cond)[:160]}` deviates from the documented behaviour: {bad_rows}", E.where(call, cond))
    # the tolerance handed to both membership tests is the same
    tols = {norm(k.value) for sub in ast.walk(cond) if isinstance(sub, ast.Call) for k in sub.keywords if k.arg == "tol"}
    rep.check(len(tols) == 1, "TT", "Observable.__call__|same-tolerance", f"tolerance {sorted(tols)}", f"different tolerances {sorted(tols)} for own and default times", E.where(call, cond))
    rep.floor("TT", 2)

    # -------------------------------------------------------------- GUARD
    run_ = E.fn("pulser_simulation.qutip_backend.QutipBackendV2.run")
    zeros = [n for n in own_nodes(run_) if isinstance(n, ast.Call) and (dotted(n.func) or "").endswith("zeros")]
    if not zeros:
        rep.ok("GUARD", "QutipBackendV2.run|no-zero-matrix-literal", "no zero matrix is built", E.where(run_))
    for z in zeros:
        shape = z.args[0] if z.args else None
        lit = shape is not None and all(isinstance(x, ast.Constant) for x in (shape.elts if isinstance(shape, (ast.Tuple, ast.List)) else [shape]))
        rep.check(not lit, "GUARD", f"QutipBackendV2.run|qudit-dimension-not-hard-coded|{norm(z)[:30]}", f"accumulator sized by {norm(shape) if shape is not None else '?'}",
                  f"`{norm(z)}` hard-codes the single-atom dimension: with a three- or four-level basis (two bases addressed, or leakage) the stochastic branch cannot accumulate the density matrices", E.where(run_, z))
    # both branches call the observables the same way
    obs_calls = [n for n in own_nodes(run_) if isinstance(n, ast.Call) and isinstance(n.func, ast.Name) and n.func.id == "obs"]
    kwsets = {tuple(sorted(k.arg for k in c.keywords if k.arg)) for c in obs_calls}
    rep.check(len(obs_calls) == 2 and len(kwsets) == 1 and set(next(iter(kwsets))) == {"config", "t", "state", "hamiltonian", "result"}, "GUARD", "QutipBackendV2.run|observables-called-uniformly", "noiseless and stochastic branches call obs(config, t, state, hamiltonian, result)", f"observable call sites differ: {sorted(kwsets)}", E.where(run_))
    sr = E.fn("pulser.backend.results.Results._store_raw")
    src = norm(sr.node)
    dup = any(isinstance(n, ast.If) and norm(n.test) == "time in _times" and any(isinstance(x, ast.Raise) for x in n.body) for n in own_nodes(sr))
    asc = any(isinstance(n, ast.Assert) and "_times[-1] < time" in norm(n.test) for n in own_nodes(sr))
    rep.check(dup, "GUARD", "Results._store_raw|one-value-per-time", "a second value for the same time is rejected", "Results._store_raw no longer rejects a repeated time", E.where(sr))
    rep.check(asc, "GUARD", "Results._store_raw|ascending-times", "times must be ascending", "Results._store_raw no longer requires ascending times", E.where(sr))
    rep.check("_times.append(time)" in src and ".append(value)" in src, "GUARD", "Results._store_raw|paired-append", "time and value appended together", "times and values are no longer appended together", E.where(sr))
    # energy observables
    dom = "pulser.backend.default_observables"
    en = E.fn(dom + ".Energy.apply")
    rep.check(any(norm(r.value).replace(" ", "") == "hamiltonian.expect(state)" for r in returns(en)), "GUARD", "Energy.apply|<H>", "hamiltonian.expect(state)", "Energy no longer returns hamiltonian.expect(state)", E.where(en))
    e2 = E.fn(dom + ".EnergySecondMoment.apply")
    ev = E.fn(dom + ".EnergyVariance.apply")

    def result_expr(f):
        for n in own_nodes(f):
            if isinstance(n, (ast.Assign, ast.AnnAssign)) and norm(n.targets[0] if isinstance(n, ast.Assign) else n.target) == "result":
                return n.value
        return None

    r2, rv = result_expr(e2), result_expr(ev)
    hs_ok = all(any(isinstance(n, ast.Assign) and norm(n.targets[0]) == "h_state" and norm(n.value).replace(" ", "") == "hamiltonian.apply_to(state)" for n in own_nodes(f)) for f in (e2, ev))
    rep.check(hs_ok, "GUARD", "Energy moments|H-applied-to-the-given-state", "h_state = hamiltonian.apply_to(state) in both", "the energy moments no longer apply the given hamiltonian to the given state", E.where(e2))
    ok = r2 is not None and isinstance(rv, ast.BinOp) and isinstance(rv.op, ast.Sub) and norm(rv.left) == norm(r2) and norm(rv.right).replace(" ", "") == "state.overlap(h_state)"
    rep.check(ok, "SIB", "EnergyVariance|second-moment-minus-squared-mean", "variance = <second-moment expression> - state.overlap(h_state)", f"EnergyVariance computes `{norm(rv) if rv is not None else '?'}` while EnergySecondMoment computes `{norm(r2) if r2 is not None else '?'}`: the variance must be the second moment minus the squared mean", E.where(ev))
    rep.floor("SIB", 1)
    # H(t) handed to the observables is evaluated on the emulator's own time axis, identically in both branches
    gh = [n for n in own_nodes(run_) if isinstance(n, ast.Call) and isinstance(n.func, ast.Attribute) and n.func.attr == "get_hamiltonian"]
    targs = {norm(c.args[0]).replace(" ", "") for c in gh if c.args}
    res_ctor = [n for n in own_nodes(run_) if isinstance(n, ast.Call) and (dotted(n.func) or "") == "Results"]
    td = next((norm(k.value) for c in res_ctor for k in c.keywords if k.arg == "total_duration"), "")
    rep.check(len(gh) == 2 and targs == {"t*res.total_duration"} and td == "self._sim_obj.total_duration_ns", "GUARD", "QutipBackendV2.run|hamiltonian-at-emulated-time", "H(t * res.total_duration) with res.total_duration = the emulator's total duration, in both branches",
              f"the Hamiltonian handed to the observables is evaluated at {sorted(targs)} (Results.total_duration = {td}): relative times must be scaled by the emulator's own total duration (which includes modulation fall time), identically in both branches", E.where(run_))
    # several basis states can read as the same bitstring (g and h both read 0 with three levels): probabilities accumulate
    bp = E.fn("pulser_simulation.qutip_state.QutipState.bitstring_probabilities")
    acc = [n for n in own_nodes(bp) if isinstance(n, (ast.Assign, ast.AugAssign)) and isinstance((n.targets[0] if isinstance(n, ast.Assign) else n.target), ast.Subscript) and "bitstring" in norm(n.targets[0] if isinstance(n, ast.Assign) else n.target)]
    rep.check(bool(acc) and all(isinstance(n, ast.AugAssign) and isinstance(n.op, ast.Add) for n in acc), "GUARD", "QutipState.bitstring_probabilities|accumulates", "probabilities of basis states reading as the same bitstring are summed (+=)", "bitstring probabilities are assigned instead of accumulated: with 3+ levels several basis states map to one bitstring and all but one are lost", E.where(bp))
    # operator application on a density matrix is A rho A^dagger
    ap = E.fn("pulser_simulation.qutip_op.QutipOperator.apply_to")
    ok = False
    for n in own_nodes(ap):
        if isinstance(n, ast.If) and "isoper" in norm(n.test):
            for st in n.body:
                if isinstance(st, ast.Assign) and isinstance(st.value, ast.BinOp) and isinstance(st.value.op, (ast.Mult, ast.MatMult)):
                    ok = norm(st.value.right).replace(" ", "") == "self._operator.dag()" and norm(st.value.left) == norm(st.targets[0])
    left = any(isinstance(n, ast.Assign) and isinstance(n.value, ast.BinOp) and norm(n.value.left) == "self._operator" and "state._state" in norm(n.value.right) for n in own_nodes(ap))
    rep.check(ok and left, "GUARD", "QutipOperator.apply_to|A-rho-A-dagger", "ket: A|psi>; density matrix: A rho A^dagger", "applying an operator to a density matrix is no longer A rho A^dagger (the right factor must be the adjoint)", E.where(ap))
    ex = E.fn("pulser_simulation.qutip_op.QutipOperator.expect")
    rep.check(any("qutip.expect(self._operator, state._state)" in norm(r.value) for r in returns(ex)), "GUARD", "QutipOperator.expect|qutip.expect(op,state)", "expectation = qutip.expect(operator, state)", "QutipOperator.expect changed", E.where(ex))
    rep.floor("GUARD", 11)
    return {"atoms": {k: v[0] for k, v in atoms.items()}}
