"""C04 finding 4: a sequence on a 3D register that configures a detuning map
(DMM) cannot be serialised to the abstract representation: the serialiser
crashes with a bare "ValueError: too many values to unpack (expected 2)"
because DetuningMap._to_abstract_repr assumes 2D trap coordinates."""
import sys
import warnings

import numpy as np

from pulser import Pulse, Register, Register3D, Sequence
from pulser.devices import MockDevice
from pulser.sampler import sample
from pulser.waveforms import ConstantWaveform, RampWaveform

warnings.simplefilter("ignore")


def make(reg, weights):
    det_map = reg.define_detuning_map(weights, slug="my_map")
    seq = Sequence(reg, MockDevice)  # MockDevice is a 3D-capable device
    seq.config_detuning_map(det_map, "dmm_0")
    seq.declare_channel("ryd", "rydberg_global")
    seq.add_dmm_detuning(RampWaveform(200, -1.0, -5.0), "dmm_0")
    seq.add(Pulse.ConstantPulse(200, 1.0, 0.0, 0.0), "ryd")
    seq.add_dmm_detuning(ConstantWaveform(100, -2.0), "dmm_0", "wait-for-all")
    seq.measure()
    return seq, det_map


def identical(s1, s2):
    a, b = sample(s1), sample(s2)
    if set(a.channel_samples) != set(b.channel_samples):
        return False
    for ch in a.channel_samples:
        for f in ("amp", "det", "phase"):
            x = getattr(a.channel_samples[ch], f).as_array()
            y = getattr(b.channel_samples[ch], f).as_array()
            if x.shape != y.shape or not np.allclose(x, y):
                return False
    m1 = s1._schedule["dmm_0"].detuning_map
    m2 = s2._schedule["dmm_0"].detuning_map
    w1 = m1.get_qubit_weight_map(s1.register.qubits)
    w2 = m2.get_qubit_weight_map(s2.register.qubits)
    return m1 == m2 and w1 == w2 and s2.get_measurement_basis() == "ground-rydberg"


ok = True
cases = {
    "2D register": (Register.square(2, 5, prefix="q"), {"q0": 0.25, "q3": 0.75}),
    "3D register": (Register3D.cubic(2, 5, prefix="q"), {"q0": 0.25, "q7": 0.75}),
}
for label, (reg, weights) in cases.items():
    seq, det_map = make(reg, weights)  # builds and samples fine in 2D and 3D
    sample(seq)
    try:
        seq2 = Sequence.from_abstract_repr(seq.to_abstract_repr())
        res = identical(seq, seq2)
        print(f"{label}: abstract round trip done, identical: {res}")
        ok &= bool(res)
    except Exception as e:  # noqa
        print(f"{label}: abstract round trip failed with {type(e).__name__}: {e}")
        ok = False

print("PASS" if ok else "FAIL")
sys.exit(0 if ok else 1)
