"""C17 findings.
cd /tmp && PYTHONPATH=/repo/pulser-core:/repo/pulser-simulation /venv/bin/python -W ignore /verif/findings/repro_c17.py"""
from pulser.backend.state import StateRepr
from pulser.backend.config import EmulationConfig
from pulser.backend.default_observables import EnergySecondMoment

a = StateRepr.from_state_amplitudes(eigenstates=("r", "g"), amplitudes={"rg": 1.0})
n_before = a.n_qudits
b = StateRepr.from_state_amplitudes(eigenstates=("r", "g"), amplitudes={"rgr": 1.0})
print("state_repr_shared_n_qudits:", "VIOLATED (first state now reports %d qudits instead of %d)" % (a.n_qudits, n_before) if a.n_qudits != n_before else "holds")

try:
    s = EmulationConfig(observables=[EnergySecondMoment()]).to_abstract_repr()
    print("config_schema_energy_second_moment: holds")
except Exception as e:
    print("config_schema_energy_second_moment: VIOLATED (", type(e).__name__, str(e).splitlines()[0][:80], ")")
