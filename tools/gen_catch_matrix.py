#!/usr/bin/env python3
"""Write the catch matrix (which check reports which independent change) into DESIGN.md section 10.

Reads seeded/*/meta.json (refresh them first with `python3-vt tools/recheck_seeded.py`) and benign/*.
The text between <!-- CATCH-MATRIX-BEGIN --> and <!-- CATCH-MATRIX-END --> in DESIGN.md is replaced.
"""
import json
import os
import re

VERIF = os.path.dirname(os.path.dirname(os.path.abspath(__file__)))


def one_line(meta: dict) -> str:
    t = (meta.get("needs_to_manifest") or "").split("\n")[0]
    if not t and meta.get("what_fails"):
        t = meta.get("kind", "regression") + " -- fails again: " + meta["what_fails"][0]
    t = re.sub(r"^Change:\s*", "", t)
    t = t.replace("|", "\\|")
    return t[:170] + ("…" if len(t) > 170 else "")


def main() -> None:
    rows = []
    missed = []
    stale = []
    names = sorted(os.listdir(os.path.join(VERIF, "seeded")))
    for n in names:
        mp = os.path.join(VERIF, "seeded", n, "meta.json")
        if not os.path.exists(mp):
            continue
        m = json.load(open(mp))
        rb = m.get("reported_by", {})
        if m.get("stale"):
            stale.append(n)
            rows.append(f"| {n} | {one_line(m)} | *(stale: the patch no longer applies after later `fix:` commits; was reported by {', '.join(sorted(rb)) or '—'})* |")
            continue
        by = "; ".join(f"**{k}** " + ", ".join(sorted({r.split("rule=")[-1].split(" ")[0] + ":" + r.split("instance=")[-1].split("|")[-1][:40] for r in v.get("reports", [])})[:2]) for k, v in sorted(rb.items()))
        if not rb:
            missed.append(n)
            by = "— *(not decided statically, see below)*"
        rows.append(f"| {n} | {one_line(m)} | {by} |")
    nb = len([d for d in os.listdir(os.path.join(VERIF, "benign")) if os.path.exists(os.path.join(VERIF, "benign", d, "patch.diff"))])
    import subprocess
    import tempfile

    def rnd(n):
        return "regressions" if n.startswith("REGR-") else "round 6" if "-r6" in n else "round 5" if "-r5" in n else "round 4" if "-r4" in n else "round 3" if "-r3" in n else "round 2" if "-r2" in n else "round 1"

    cnt = {}
    for n in names:
        if os.path.exists(os.path.join(VERIF, "seeded", n, "meta.json")):
            cnt[rnd(n)] = cnt.get(rnd(n), 0) + 1
    total = sum(cnt.values())
    out = []
    out.append(f"Seeded (breaking) changes kept: {total} ({', '.join(f'{v} {k}' for k, v in sorted(cnt.items()))}); {len(stale)} of them are stale (cut against an earlier tree, they no longer apply after the later `fix:` commits and are skipped); of the {total - len(stale)} that apply, reported by at least one check: {total - len(stale) - len(missed)}; not reported: {len(missed)} ({', '.join(missed) or 'none'}).")
    # benign patches that still apply to /repo's HEAD
    nb_ok = 0
    wt = tempfile.mkdtemp(prefix="cm_", dir="/tmp")
    os.rmdir(wt)
    if subprocess.run(f"git worktree add -q --detach {wt} HEAD", shell=True, cwd="/repo").returncode == 0:
        for d in sorted(os.listdir(os.path.join(VERIF, "benign"))):
            pp = os.path.join(VERIF, "benign", d, "patch.diff")
            if os.path.exists(pp) and subprocess.run(f"git apply --check {pp}", shell=True, cwd=wt, capture_output=True).returncode == 0:
                nb_ok += 1
        subprocess.run(f"git worktree remove --force {wt}", shell=True, cwd="/repo")
        subprocess.run("git worktree prune", shell=True, cwd="/repo")
    out.append(f"Benign (behaviour-preserving) refactorings kept: {nb}; {nb_ok} still apply to the repaired tree and every check is silent on every one of them (`tools/sweep.py --benign`); the other {nb - nb_ok} are stale and skipped.")
    out.append("")
    out.append("| change | what was changed (first line of the agent's note) | reported by (rule: instance) |")
    out.append("|---|---|---|")
    out += rows
    text = "\n".join(out) + "\n"
    p = os.path.join(VERIF, "DESIGN.md")
    s = open(p).read()
    b, e = "<!-- CATCH-MATRIX-BEGIN -->\n", "<!-- CATCH-MATRIX-END -->\n"
    if b in s and e in s:
        s = s[: s.index(b) + len(b)] + text + s[s.index(e):]
        open(p, "w").write(s)
        print(f"catch matrix written: {len(rows)} rows, {len(missed)} missed")
    else:
        print(text)


if __name__ == "__main__":
    main()
