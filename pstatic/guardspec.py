"""GUARD rule: rejection atoms of a function compared with a spec table (DESIGN 3, App. B)."""
from __future__ import annotations

from typing import Optional

from .absval import AV, NEGATE, Atom, Literal, abstractor
from .engine import Engine
from .model import FunctionInfo
from .report import Report


def _side_matches(av: AV, roots: list[str], tags: list[str], not_tags: list[str] = (), num: Optional[dict] = None) -> bool:
    if not (all(av.has_root(r) for r in roots) and all(t in av.tags for t in tags)):
        return False
    if any(t in av.tags or (t.endswith(":") and any(x.startswith(t) for x in av.tags)) for t in not_tags):
        return False
    if num is not None:
        vals = [float(r[4:]) for r in av.roots if r.startswith("num:")]
        if not vals:
            return False
        v = vals[0]
        if num.get("sign") == "neg" and not v < 0:
            return False
        if num.get("sign") == "pos" and not v > 0:
            return False
        if "max_abs" in num and abs(v) > num["max_abs"]:
            return False
    return True


def orient(atom: Atom, row: dict) -> Optional[Atom]:
    """The atom oriented as (quantity rel limit) if both sides match the row, else None."""
    q_roots, q_tags = row["quantity"], row.get("q_tags", [])
    l_roots, l_tags = row["limit"], row.get("l_tags", [])
    for a in (atom, atom.mirrored()):
        if _side_matches(a.lhs, q_roots, q_tags, row.get("not_q_tags", ())) and _side_matches(a.rhs, l_roots, l_tags, (), row.get("limit_num")):
            # the quantity must not itself be the limit (x > x)
            return a
    return None


def _difference_form(atom: Atom) -> bool:
    """`f(q - limit) REL 0`: one side is the constant 0, the other a difference that involves an attribute of self."""
    for a in (atom, atom.mirrored()):
        if "const:0" in a.rhs.roots and len(a.rhs.roots) <= 2 and "Sub" in a.lhs.tags and any(r.startswith("self.") for r in a.lhs.roots) and any(not r.startswith(("self.", "const:", "num:")) for r in a.lhs.roots):
            return True
    return False


def private_helpers(E: Engine, f: FunctionInfo, depth: int = 2) -> list[tuple[FunctionInfo, FunctionInfo, object]]:
    """Private helpers (``self._x(...)`` of the same class hierarchy, module-level ``_x(...)``) called by ``f``:
    (helper, caller, call node).  A validation extracted into such a helper is still part of the validation of ``f``.
    """
    import ast as _ast

    out: list = []
    seen = {f.qualname}
    work = [(f, 0)]
    while work:
        g, d = work.pop()
        if d >= depth:
            continue
        for n in _ast.walk(g.node):
            if not isinstance(n, _ast.Call):
                continue
            h = None
            if isinstance(n.func, _ast.Attribute) and isinstance(n.func.value, _ast.Name) and n.func.value.id in ("self", "cls") and n.func.attr.startswith("_") and not n.func.attr.startswith("__") and g.cls is not None:
                cands = E.P.lookup_method_with_overrides(g.cls, n.func.attr)
                h = cands[0] if len(cands) == 1 else None
            elif isinstance(n.func, _ast.Name) and n.func.id.startswith("_") and not n.func.id.startswith("__"):
                h = g.module.functions.get(n.func.id)
            if h is not None and h.qualname not in seen:
                seen.add(h.qualname)
                out.append((h, g, n))
                work.append((h, d + 1))
    return out


def _rebind(av: AV, bind: dict) -> AV:
    """Replace roots that are (fields of) a helper's parameter by the provenance of the caller's argument."""
    roots, tags = set(), set(av.tags)
    for r in av.roots:
        head, _, rest = r.partition(".")
        pre = ""
        while head.startswith(("idx<-", "arg<-", "cond<-")):
            k, _, head2 = head.partition("<-")
            pre += k + "<-"
            head = head2
        if head in bind:
            b = bind[head]
            tags |= b.tags
            roots |= {pre + x + ("." + rest if rest else "") for x in b.roots}
        else:
            roots.add(r)
    return AV(frozenset(roots), frozenset(tags))


def rejection_conjunctions(E: Engine, f: FunctionInfo) -> list[tuple[int, list[Literal]]]:
    out = []
    binds: dict[str, dict] = {f.qualname: {}}
    for g, caller, call in [(f, None, None)] + private_helpers(E, f):
        ab = abstractor(E.flow(g))
        bind: dict = {}
        if caller is not None:
            cab = abstractor(E.flow(caller))
            params = g.params[1:] if g.cls is not None and g.kind != "staticmethod" else g.params
            up = binds.get(caller.qualname, {})
            for pn, a in zip(params, call.args):
                bind[pn] = _rebind(cab.av(a), up)
            for k in call.keywords:
                if k.arg:
                    bind[k.arg] = _rebind(cab.av(k.value), up)
            binds[g.qualname] = bind
        for r, dnf in ab.guards_of_raises():
            for conj in dnf:
                if bind:
                    conj = [Literal(Atom(_rebind(l.atom.lhs, bind), l.atom.rel, _rebind(l.atom.rhs, bind), l.atom.quant, l.atom.text) if l.atom is not None else None, _rebind(l.truth, bind) if l.truth is not None else None, l.positive, l.text) for l in conj]
                out.append((r.lineno, conj))
    return out


def assign_conjunctions(E: Engine, f: FunctionInfo) -> list[tuple[int, list[Literal]]]:
    """Comparison atoms of `name = <comparison>` statements (masks built before the decision)."""
    import ast as _ast

    ab = abstractor(E.flow(f))
    out = []
    for n in _ast.walk(f.node):
        if isinstance(n, _ast.Assign) and isinstance(n.value, _ast.Compare):
            for conj in ab.literals(n.value):
                out.append((n.lineno, conj))
    return out


def lit_is_raise_guard(conj: list, lit) -> bool:
    """Is ``lit`` the innermost (last) test guarding the raise of this conjunction?  Earlier literals of an
    if/elif chain are the negations of the tests that were *not* taken."""
    return bool(conj) and conj[-1] is lit


def check_rows(E: Engine, rep: Report, rule: str, rows: list[dict], source: str = "raise") -> None:
    """Each row: function, id, quantity[], q_tags[], rel, limit[], l_tags[], quant, none_guard(bool), why."""
    by_fn: dict[str, list[dict]] = {}
    for row in rows:
        if row["function"] not in E.P.functions and row.get("fallback"):
            # a private helper that was inlined at its call site: the same atom is required of the function
            # that absorbed it (the row names that function and the operand's name there)
            for alt in row["fallback"]:
                if alt["function"] in E.P.functions:
                    row = {**row, **alt, "id": row["id"], "why": row["why"] + f" [anchor {row['function'].split('.')[-1]} is gone: decided in {alt['function'].split('.')[-1]}]"}
                    break
        by_fn.setdefault(row["function"], []).append(row)
    for fq, frows in by_fn.items():
        f = E.fn(fq)
        conjs = rejection_conjunctions(E, f) if source == "raise" else assign_conjunctions(E, f)
        for row in frows:
            key = f"{f.short}|{row['id']}"
            found_ok = None
            found_wrong = []
            for line, conj in conjs:
                for lit in conj:
                    if lit.atom is None or _difference_form(lit.atom):
                        continue  # (`round(q - limit, 6) > 0` is decided on the symbolic normal form, which keeps the signs)
                    a = orient(lit.atom, row)
                    if a is None:
                        continue
                    quant_ok = (not row.get("quant")) or a.quant == row["quant"]
                    if a.rel == row["rel"] and quant_ok:
                        # Optional limit: the same conjunction must hold `limit is not None`
                        if row.get("none_guard"):
                            g = any(
                                l2.atom is not None and l2.atom.rel == "IsNot" and all(l2.atom.lhs.has_root(r) for r in row["limit"]) and "const:None" in l2.atom.rhs.roots
                                or (row.get("zero_excluded") and l2.atom is None and l2.truth is not None and l2.positive and all(l2.truth.has_root(r) for r in row["limit"]))
                                for l2 in conj
                            )
                            if not g:
                                found_wrong.append((line, a, "limit compared without a dominating `is not None` guard (an undefined limit would raise TypeError instead of constraining nothing; a truthiness test is not enough where 0 is a legal limit: it would switch the limit off)"))
                                continue
                        # the limit applies whatever the *other* optional limits are: a conjunction that also requires an
                        # unrelated `<other limit> is not None` switches this check off on channels that lack that other limit
                        unrelated = [
                            l2 for l2 in conj
                            if l2.atom is not None and l2.atom.rel == "IsNot" and "const:None" in l2.atom.rhs.roots
                            and any(r.startswith("self.") for r in l2.atom.lhs.roots)
                            and not any(l2.atom.lhs.has_root(r) for r in list(row["limit"]) + list(row["quantity"]))
                        ]
                        if unrelated and not row.get("allow_unrelated_guard"):
                            found_wrong.append((line, a, f"the check is only made when `{unrelated[0].show()}` -- an unrelated optional limit: on a channel without that limit this one is not enforced"))
                            continue
                        found_ok = (line, a, conj)
                    else:
                        complement = NEGATE.get(row["rel"]) == a.rel and not lit_is_raise_guard(conj, lit)
                        found_wrong.append((line, a, f"relation is {a.quant + ':' if a.quant else ''}{a.rel}, the property requires {row.get('quant', '') + ':' if row.get('quant') else ''}{row['rel']}", complement))
            if found_ok:
                # the complement of the required atom in the conjunction of a *later* raise is what an if/elif chain
                # (or an early exit) implies there -- not a second, contradicting guard
                found_wrong = [w for w in found_wrong if not (len(w) > 3 and w[3])]
            where = f"{f.module.relpath}:{(found_ok[0] if found_ok else (found_wrong[0][0] if found_wrong else f.node.lineno))} ({f.short})"
            if not found_ok and not found_wrong and source == "raise":
                # the abstraction lost the atom (guards written as a table of cases, a loop over a literal tuple,
                # a callee held in a local): decide the row on the symbolic normal form instead
                fb = _sym_fallback(E, f, row)
                if fb is not None:
                    ok_, text = fb
                    if ok_:
                        rep.ok(rule, key, f"{row['why']}: {text} [matched on the symbolic normal form]", where)
                    else:
                        rep.violation(rule, key, f"{row['why']}: rejection condition {text}", where)
                    continue
            if found_ok and not found_wrong:
                rep.ok(rule, key, f"{row['why']}: {found_ok[1].show()}", where)
            elif found_wrong:
                line, a, msg = found_wrong[0][:3]
                rep.violation(rule, key, f"{row['why']}: rejection atom {a.show()} -- {msg}", where)
            else:
                rep.violation(rule, key, f"{row['why']}: no rejection atom relating {row['quantity']} {row.get('q_tags', [])} to {row['limit']} found in {f.short} (limit not enforced)", where)


# ------------------------------------------------------------------ fallback on the symbolic normal form
_TAG_CALLS = {
    "max": {"max", "amax"}, "min": {"min", "amin"}, "sum": {"sum"}, "len": {"len"}, "avg": {"mean", "average"}, "norm": {"norm"},
    "int": {"int"}, "abs": {"abs", "absolute", "fabs"},
}
_MIRROR = {"Lt": "Gt", "Gt": "Lt", "LtE": "GtE", "GtE": "LtE", "Eq": "Eq", "NotEq": "NotEq"}


def _sym_root(t, root: str) -> bool:
    from . import sym

    if root.startswith("const:"):
        v = root[6:]
        return t[0] == "const" and repr(t[1]) in (v, v + ".0") or (t[0] == "const" and isinstance(t[1], (int, float)) and not isinstance(t[1], bool) and v in ("0",) and t[1] == 0)
    if root.startswith("arg<-"):
        root = root[5:]
    return sym.contains(t, sym.Pattern(root).term)


def _sym_tag(t, tag: str) -> bool:
    from . import sym

    if tag == "Mult":
        return any(x[0] == "mul" for x in sym.subterms(t))
    if tag.startswith("round"):
        names = {"round", "round_", "around", "rint"}
    else:
        names = _TAG_CALLS.get(tag, {tag})
    for x in sym.subterms(t):
        if x[0] == "call":
            fn = x[1]
            nm = fn[1] if fn[0] == "name" else fn[2] if fn[0] == "attr" else None
            if nm in names:
                return True
    return False


def _sym_side(t, roots, tags, not_tags=()) -> bool:
    return all(_sym_root(t, r) for r in roots) and all(_sym_tag(t, g) for g in tags) and not any(_sym_tag(t, g) for g in not_tags)


def _difference_sides(core, row) -> list:
    """`round(q - L, n) REL 0` (or `0 REL ...`) read as `q REL L`: [(q, L, rel)].  The rounding of the difference is a
    tolerance on the comparison (precision checked against the row's not_q_tags), not a rounding of the quantity."""
    from . import sym

    out = []
    for x, zero, rel in ((core[2], core[3], core[1]), (core[3], core[2], _MIRROR[core[1]])):
        # 0, or a small positive tolerance: a constant <= 1e-5 or 10 ** (-<PRECISION constant>)
        is_zero = zero[0] == "const" and isinstance(zero[1], (int, float)) and not isinstance(zero[1], bool) and 0 <= zero[1] <= 1e-5
        is_tol = zero[0] == "bin" and zero[1] == "Pow" and zero[2] == ("const", 10) and any(t[0] == "name" and t[1].endswith("PRECISION") for t in sym.subterms(zero[3])) and any(t == ("const", -1) or (t[0] == "const" and isinstance(t[1], (int, float)) and t[1] < 0) for t in sym.subterms(zero[3]))
        if not (is_zero or is_tol):
            continue
        while x[0] == "obj":
            x = x[2]
        prec = None
        if x[0] == "call" and (x[1][1] if x[1][0] == "name" else x[1][2] if x[1][0] == "attr" else "") in ("round", "round_", "around") and x[2]:
            d_ = dict(x[3]).get("decimals") or (x[2][1] if len(x[2]) > 1 else ("const", 0))
            prec = d_[1] if d_[0] == "const" else None
            x = x[2][0]
            while x[0] == "obj":
                x = x[2]
        if x[0] != "add":
            continue
        if prec is not None and isinstance(prec, int) and prec < 5:
            continue  # (a tolerance of 1e-4 and coarser is not "the limit")
        pos, neg = [], []
        for t in x[1:]:
            if t[0] == "mul" and any(f[0] == "const" and isinstance(f[1], (int, float)) and f[1] < 0 for f in t[1:]):
                rest = [f for f in t[1:] if not (f[0] == "const" and isinstance(f[1], (int, float)) and f[1] < 0)]
                coef = [f[1] for f in t[1:] if f[0] == "const" and isinstance(f[1], (int, float)) and f[1] < 0]
                if coef != [-1]:
                    neg = pos = None
                    break
                neg.append(rest[0] if len(rest) == 1 else ("mul",) + tuple(rest))
            else:
                pos.append(t)
        if not pos or not neg:
            continue
        P_ = pos[0] if len(pos) == 1 else ("add",) + tuple(pos)
        N_ = neg[0] if len(neg) == 1 else ("add",) + tuple(neg)
        out.append((P_, N_, rel))            # P - N rel 0  ==  P rel N
        out.append((N_, P_, _MIRROR[rel]))   # ... == N mirror(rel) P
    return out


def _sym_fallback(E: Engine, f: FunctionInfo, row: dict) -> Optional[tuple[bool, str]]:
    """(True, atom) when a raise of ``f`` is guarded by the row's atom, (False, why) when the atom is there with the
    wrong relation / without its None guard, None when no atom relating the two sides exists."""
    from . import sym
    from .rules.symutil import dnf

    if row.get("limit_num"):
        return None
    S = sym.sym_of(E.P, f, True)
    wrong: Optional[tuple[bool, str]] = None
    for l in S.logged("raise"):
        for conj in dnf(l.cond):
            for lit in conj:
                core, quant = lit, ""
                if core[0] == "call" and len(core[2]) == 1 and not core[3]:
                    fn = core[1]
                    nm = fn[1] if fn[0] == "name" else fn[2] if fn[0] == "attr" else None
                    if nm in ("any", "all"):
                        core, quant = core[2][0], nm
                        while core[0] == "obj":
                            core = core[2]
                if core[0] != "cmp" or core[1] not in _MIRROR:
                    continue
                sides = [(core[2], core[3], core[1]), (core[3], core[2], _MIRROR[core[1]])]
                sides += _difference_sides(core, row)
                for q, lim, rel in sides:
                    if not (_sym_side(q, row["quantity"], row.get("q_tags", []), row.get("not_q_tags", ())) and _sym_side(lim, row["limit"], row.get("l_tags", []))):
                        continue
                    text = sym.show(lit)[:120]
                    if rel != row["rel"] or (row.get("quant") and quant != row["quant"]):
                        wrong = (False, f"`{text}`: relation is {quant + ':' if quant else ''}{rel}, the property requires {row.get('quant', '') + ':' if row.get('quant') else ''}{row['rel']}")
                        continue
                    if row.get("none_guard"):
                        lt = [sym.Pattern(r).term for r in row["limit"] if not r.startswith(("const:", "arg<-"))]
                        g = any(x[0] == "cmp" and x[1] == "IsNot" and sym.NONE in (x[2], x[3]) and all(t_ in (x[2], x[3]) for t_ in lt) for x in conj)
                        if not g:
                            wrong = (False, f"`{text}`: limit compared without a dominating `is not None` guard")
                            continue
                    return True, text
    return wrong
