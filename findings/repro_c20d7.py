"""C20 finding 7: bitstrings of a ("0", "1") state with one_state="0".

"0" and "1" are valid eigenstates (pulser.backend.state.Eigenstate) and
`one_state` is "the eigenstate that measures to 1". The eigenstate -> bit
conversion is done with chained str.replace calls, so characters that were
already converted get converted again when the eigenstates are themselves
"0" and "1".
"""
import sys

import numpy as np

from pulser.backend.config import EmulationConfig
from pulser.backend.default_observables import BitStrings
from pulser_simulation import QutipState

np.random.seed(0)
state = QutipState.from_state_amplitudes(
    eigenstates=("0", "1"),
    amplitudes={"01": np.sqrt(0.75), "11": np.sqrt(0.25)},
)
failures = []

# Reference: the same physical state with letters as eigenstates
ref = QutipState.from_state_amplitudes(
    eigenstates=("g", "r"),
    amplitudes={"gr": np.sqrt(0.75), "rr": np.sqrt(0.25)},
)
for one_state, ref_one in (("1", "r"), ("0", "g")):
    got = dict(state.bitstring_probabilities(one_state=one_state))
    expected = dict(ref.bitstring_probabilities(one_state=ref_one))
    ok = set(got) == set(expected) and all(
        np.isclose(got[k], expected[k]) for k in expected
    )
    print(f"one_state={one_state!r}: bitstring probabilities {got}, "
          f"expected {expected} {'ok' if ok else 'WRONG'}")
    if not ok:
        failures.append(one_state)

config = EmulationConfig(observables=(BitStrings(),))
counts = BitStrings(one_state="0", num_shots=1000).apply(
    config=config, state=state
)
print("BitStrings(one_state='0') samples:", dict(counts))
if set(counts) - {"10", "00"} or not 650 < counts.get("10", 0) < 850:
    print("   expected about 750 x '10' and 250 x '00'")
    failures.append("samples")

if failures:
    print("FAIL:", failures)
    sys.exit(1)
print("PASS")
