"""C16: a one-sample ramp has NaN samples.
cd /tmp && PYTHONPATH=/repo/pulser-core:/repo/pulser-simulation /venv/bin/python -W ignore /verif/findings/repro_c16.py"""
import numpy as np
from pulser.waveforms import RampWaveform

w = RampWaveform(1, 2.0, 3.0)
s = w.samples.as_array()
ok = len(s) == 1 and np.all(np.isfinite(s)) and float(s[0]) == 2.0
print("one_sample_ramp:", "holds" if ok else f"VIOLATED (samples = {s.tolist()})")
