"""C18: strict switch_device returns a sequence with a different timeline.
cd /tmp && PYTHONPATH=/repo/pulser-core:/repo/pulser-simulation /venv/bin/python -W ignore /verif/findings/repro_c18.py"""
import dataclasses
from pulser import Pulse, Register, Sequence
from pulser.channels import Rydberg
from pulser.devices import VirtualDevice

reg = Register.from_coordinates([(0, 0), (6, 0)], prefix="q")


def dev(**kw):
    base = dict(clock_period=4, min_duration=16, mod_bandwidth=4)
    base.update(kw)
    return VirtualDevice(name="V", dimensions=2, rydberg_level=60, channel_objects=(Rydberg.Global(None, None, **base),), channel_ids=("ryd",))


def timeline(seq):
    return [(s.ti, s.tf) for s in seq._schedule["ch"].slots]


def case(name, d_old, d_new, build):
    seq = Sequence(reg, d_old)
    seq.declare_channel("ch", "ryd")
    build(seq)
    try:
        new = seq.switch_device(d_new, strict=True)
    except Exception as e:
        print(f"{name}: holds (raises {type(e).__name__})")
        return
    a, b = timeline(seq), timeline(new)
    print(f"{name}:", "holds" if a == b else f"VIOLATED (strict switch returned a different timeline: {a} -> {b})")


def two_phases(seq):
    seq.add(Pulse.ConstantPulse(100, 1.0, 0.0, 0.0), "ch")
    seq.add(Pulse.ConstantPulse(100, 1.0, 0.0, 1.0), "ch")


def short_delay(seq):
    seq.add(Pulse.ConstantPulse(100, 1.0, 0.0, 0.0), "ch")
    seq.align  # noqa
    seq.delay(16, "ch")
    seq.add(Pulse.ConstantPulse(100, 1.0, 0.0, 1.0), "ch", protocol="min-delay")


case("strict_switch_custom_phase_jump_time", dev(), dev(custom_phase_jump_time=600), two_phases)
case("strict_switch_min_duration", dev(mod_bandwidth=None, min_duration=4, custom_phase_jump_time=8), dev(mod_bandwidth=None, min_duration=32, custom_phase_jump_time=8), two_phases)
