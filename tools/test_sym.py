#!/usr/bin/env python3
"""Self-test of the symbolic normal form (pstatic/sym.py): pairs of small functions that must / must not
normalise to the same term.  Run with python3-vt; exit 1 on any failure.  (This tests the checker's own
machinery on synthetic snippets; it does not touch /repo.)"""
import ast
import os
import sys
import textwrap

sys.path.insert(0, os.path.dirname(os.path.dirname(os.path.abspath(__file__))))
from pstatic import sym  # noqa: E402
from pstatic.model import FunctionInfo, Module  # noqa: E402


class _P:
    modules: dict = {}

    def lookup_method_with_overrides(self, c, n):
        return []


def fn(src: str, module_src: str = "") -> FunctionInfo:
    tree = ast.parse(textwrap.dedent(module_src) + "\n" + textwrap.dedent(src))
    m = Module("m", "m.py", "m.py", tree, "")
    for st in tree.body:
        if isinstance(st, ast.Assign) and isinstance(st.targets[0], ast.Name):
            m.assigns[st.targets[0].id] = st.value
    fns = {}
    for st in tree.body:
        if isinstance(st, ast.FunctionDef):
            fns[st.name] = FunctionInfo(st.name, "m." + st.name, m, None, st)
    m.functions = fns
    return fns["f"]


def ret(src: str, module_src: str = ""):
    return sym.Sym(_P(), fn(src, module_src)).ret


SAME = [
    ("temporary", "def f(a, b):\n    return a + b * 2", "def f(a, b):\n    t = b * 2\n    s = a + t\n    return s"),
    ("if/else vs ifexp", "def f(a, c):\n    if c:\n        x = a\n    else:\n        x = 0\n    return x", "def f(a, c):\n    return a if c else 0"),
    ("inverted branch", "def f(a, c):\n    if not c:\n        return 0\n    return a", "def f(a, c):\n    if c:\n        return a\n    else:\n        return 0"),
    ("early return vs else", "def f(a, b):\n    if a > b:\n        return a\n    return b", "def f(a, b):\n    if b < a:\n        r = a\n    else:\n        r = b\n    return r"),
    ("sub of sub", "def f(a, b, c):\n    return a - (b - c)", "def f(a, b, c):\n    return a - b + c"),
    ("const fold", "def f(x, y):\n    return 0.5 * x * y", "def f(x, y):\n    return x * y / 2"),
    ("module constant", "def f(p):\n    return p % (2 * np.pi)", "def f(p):\n    return p % _TWO_PI"),
    ("private helper", "def f(a, b):\n    return max(a, 2 * b) + 1", "def _h(x, y):\n    m = max(x, 2 * y)\n    return m\n\ndef f(a, b):\n    return _h(a, b) + 1"),
    ("helper with raise", "def f(a):\n    if a < 0:\n        raise ValueError('neg')\n    return a * 2", "def _check(v):\n    if v < 0:\n        raise ValueError('neg')\n    return v\n\ndef f(a):\n    return _check(a) * 2"),
    ("loop vs comprehension", "def f(xs):\n    out = []\n    for x in xs:\n        out.append(x + 1)\n    return max(out)", "def f(xs):\n    return max(x + 1 for x in xs)"),
    ("comparison mirrored", "def f(a, b):\n    return 1 if a >= b else 2", "def f(a, b):\n    return 2 if a < b else 1"),
    ("chained compare", "def f(a, x, b):\n    return a <= x and x <= b", "def f(a, x, b):\n    return a <= x <= b"),
    ("not eq", "def f(a, b):\n    return not a == b", "def f(a, b):\n    return a != b"),
    ("slice call", "def f(v, a, b):\n    s = slice(a, b)\n    return v[s]", "def f(v, a, b):\n    return v[a:b]"),
    ("hoisted pairs", "def f(xs, t):\n    out = []\n    for x in xs:\n        out.append(t - g(x))\n    return out", "def f(xs, t):\n    ends = {x: g(x) for x in xs}\n    out = []\n    for x, e in ends.items():\n        out.append(t - e)\n    return out"),
    ("dict items", "def f(d):\n    return [d[k].x for k, v in d.items()]", "def f(d):\n    return [v.x for k, v in d.items()]"),
    ("continue vs nested if", "def f(xs):\n    out = []\n    for x in xs:\n        if x < 0:\n            continue\n        out.append(x)\n    return out", "def f(xs):\n    out = []\n    for x in xs:\n        if not x < 0:\n            out.append(x)\n    return out"),
    ("callee chosen ahead", "def f(c, a):\n    if c:\n        return g(a)\n    return h(a)", "def f(c, a):\n    k = g if c else h\n    return k(a)"),
    ("loop over literal table", "def f(x, lo, hi):\n    if x < lo:\n        raise ValueError('low')\n    if x > hi:\n        raise ValueError('high')\n    return x", "def f(x, lo, hi):\n    for bad, msg in ((x < lo, 'low'), (x > hi, 'high')):\n        if bad:\n            raise ValueError(msg)\n    return x"),
    ("dict() vs literal", "def f(a, b):\n    return g(dict(x=a, y=b))", "def f(a, b):\n    return g({'x': a, 'y': b})"),
    ("private literal table", "def f(k):\n    return {'a': 1, 'b': 2}[k]", "def f(k):\n    return _TABLE[k]"),
    ("continue then store", "def f(d):\n    out = {}\n    for k, v in d.items():\n        if k in skip:\n            continue\n        if v.ok:\n            out[k] = v\n    return out", "def f(d):\n    return {k: v for k, v in d.items() if k not in skip and v.ok}"),
    ("concat vs f-string", "def f(a, b):\n    return 'sigma_' + a + b", "def f(a, b):\n    return f'sigma_{a}{b}'"),
    ("if/else appends", "def f(xs):\n    out = []\n    for x in xs:\n        if x.p:\n            out.append(x.build())\n        else:\n            out.append(x)\n    return out", "def f(xs):\n    return [x.build() if x.p else x for x in xs]"),
    ("tuple(dict comp)", "def f(d, ids):\n    r = {i: d[i] for i in ids}\n    return g(tuple(r.keys()))", "def f(d, ids):\n    r = {i: d[i] for i in ids}\n    return g(tuple(r))"),
    ("cast/bool transparent", "def f(a, c):\n    return cast(int, a) if bool(c) else 0", "def f(a, c):\n    return a if c else 0"),
]
DIFFERENT = [
    ("strictness", "def f(a, b):\n    return 1 if a > b else 2", "def f(a, b):\n    return 1 if a >= b else 2"),
    ("operator order", "def f(a, b):\n    return a.m() * b.dag()", "def f(a, b):\n    return b.dag() * a.m()"),
    ("dropped term", "def f(a, b, c):\n    return a + b - c", "def f(a, b, c):\n    return a + b"),
    ("wrong branch", "def f(a, c):\n    return a if c else 0", "def f(a, c):\n    return 0 if c else a"),
    ("two arrays", "def f(n):\n    a, b = z(n), z(n)\n    a[0] = 1\n    return a", "def f(n):\n    a, b = z(n), z(n)\n    b[0] = 1\n    return a"),
    ("nested loops", "def f(xs):\n    return [(p, q) for p in xs for q in xs]", "def f(xs):\n    return [(q, p) for p in xs for q in xs]"),
    ("list concat order", "def f(a, b):\n    return a[1:] + b[:]", "def f(a, b):\n    return b[:] + a[1:]"),
    ("factor", "def f(x):\n    return 2 * x", "def f(x):\n    return x"),
]
MOD = "_TWO_PI = 2 * np.pi\n_TABLE = {'a': 1, 'b': 2}\n"


def main() -> int:
    bad = 0
    for name, a, b in SAME:
        ta, tb = ret(a, MOD), ret(b, MOD)
        if ta != tb:
            bad += 1
            print(f"FAIL same/{name}:\n   {sym.show(ta)}\n   {sym.show(tb)}")
    for name, a, b in DIFFERENT:
        if name == "two arrays":
            sa, sb = sym.Sym(_P(), fn(a, MOD)), sym.Sym(_P(), fn(b, MOD))
            ta = [l.target for l in sa.logged("store")]
            tb = [l.target for l in sb.logged("store")]
        else:
            ta, tb = ret(a, MOD), ret(b, MOD)
        if ta == tb:
            bad += 1
            print(f"FAIL different/{name}: both {sym.show(ta) if isinstance(ta, tuple) else ta}")
    # patterns
    P = sym.Pattern
    checks = [
        (sym.find(ret("def f(ch, e, p, t0, s):\n    return max(ch.j, 2 * ch.r * e) + p.fall(ch, m=e) - (t0 - s.tf)"), P("max(Q_c.j, 2 * Q_c.r * Q_e) + Q_p.fall(Q_c, m=Q_e) - Q_t + Q_s.tf")) is not None, "buffer pattern"),
        (sym.find(ret("def f(ch, e, p, t0, s):\n    return max(ch.j, ch.r * e) + p.fall(ch, m=e) - (t0 - s.tf)"), P("max(Q_c.j, 2 * Q_c.r * Q_e) + Q_p.fall(Q_c, m=Q_e) - Q_t + Q_s.tf")) is None, "buffer pattern (factor dropped)"),
        (sym.match(P("Q_a * Q_b").term, ret("def f(x, y):\n    return y * x")) is not None, "product matched up to permutation"),
        (sym.match(P("Q_a != Q_b.phase").term, ret("def f(x, y):\n    return y.phase != x + 1")) is not None, "symmetric comparison"),
    ]
    # positional and keyword spellings of one call match when the signature is known
    sym.SIGS.clear()
    sym.SIGS["__program__"] = [0]
    sym.SIGS["mk"] = [(("duration", "amp", "det"), False)]
    checks.append((sym.match(P("mk(Q_d, 0.0, Q_x)").term, ret("def f(t, d):\n    return mk(duration=t, amp=0.0, det=d)")) is not None, "keyword call matches positional pattern"))
    checks.append((sym.match(P("mk(Q_d, 0.0, Q_x)").term, ret("def f(t, d):\n    return mk(duration=t, amp=1.0, det=d)")) is None, "keyword call with another value does not match"))
    sym.SIGS.clear()
    # symbolic bounds
    from pstatic import bounds

    pv = bounds.Prover(axioms=[(bounds.ZERO, ("name", "n"))])
    clamp = ret("def f(x, n):\n    if x < 0:\n        x = 0\n    if x > n:\n        x = n\n    return x")
    half = ret("def f(x, n):\n    return min(x, n)")
    clip = ret("def f(x, n):\n    return min(max(x, 0), n)")
    checks.append((pv.ge(clamp, bounds.ZERO) and pv.ge(("name", "n"), clamp), "bounds: if-clamp within [0, n]"))
    checks.append((pv.ge(clip, bounds.ZERO) and pv.ge(("name", "n"), clip), "bounds: min/max clamp within [0, n]"))
    checks.append((not pv.ge(half, bounds.ZERO) and pv.ge(("name", "n"), half), "bounds: upper clamp only is not >= 0"))
    for ok, name in checks:
        if not ok:
            bad += 1
            print("FAIL pattern/" + name)
    print(f"test_sym: {len(SAME)} equal pairs, {len(DIFFERENT)} different pairs, {len(checks)} pattern checks, {bad} failures")
    return 1 if bad else 0


if __name__ == "__main__":
    sys.exit(main())
