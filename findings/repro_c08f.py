"""C08 - a (non-parametrized) sequence on a MappableRegister that shifts the
phase of a qubit which is then left out of build(qubits=...).

"A mappable register is resolved to exactly the requested traps": qubits left
out of `qubits` are not in the register, so phase_shift(phi, "q2") is not a
call the direct construction accepts. build() checks this for channel targets
("Qubits {...} are being targeted but have not been assigned a trap") and, on
a parametrized sequence, for phase shifts too (the call is replayed on the
concrete register) -- but a phase shift recorded before the sequence became
parametrized slips through, and build() returns a sequence whose own call
log can neither be replayed nor deserialised.
"""
import sys
import warnings

from pulser import Pulse, Register, Sequence
from pulser.devices import DigitalAnalogDevice
from pulser.register.register_layout import RegisterLayout

warnings.simplefilter("ignore")

layout = RegisterLayout([[i * 5, 0] for i in range(8)])
mapping = {"q0": 2, "q1": 0}  # q2 is left out


def program(seq, index_based):
    seq.declare_channel("ram", "raman_local", initial_target="q0")
    if index_based:
        seq.phase_shift_index(1.0, 2, basis="digital")  # 2 -> "q2"
    else:
        seq.phase_shift(1.0, "q2", basis="digital")
    seq.add(Pulse.ConstantPulse(100, 1.0, 0.0, 0.0), "ram")


failures = []
for index_based in (False, True):
    # Reference: the same calls issued directly on the resolved register
    direct = Sequence(
        layout.define_register(2, 0, qubit_ids=("q0", "q1")),
        DigitalAnalogDevice,
    )
    try:
        program(direct, index_based)
        direct_ok = True
    except (ValueError, IndexError):
        direct_ok = False
    assert not direct_ok  # the direct construction refuses the program

    templ = Sequence(layout.make_mappable_register(3), DigitalAnalogDevice)
    program(templ, index_based)
    try:
        built = templ.build(qubits=mapping)
    except ValueError as e:
        print(f"index_based={index_based}: build refused -> {e}")
        continue
    msg = f"index_based={index_based}: build() returned a sequence"
    try:
        Sequence.from_abstract_repr(built.to_abstract_repr())
    except Exception as e:  # noqa
        msg += f" that cannot be deserialised ({type(e).__name__}: {e})"
    failures.append(msg)

# Sanity: mapping all the qubits that are used must keep working
templ = Sequence(layout.make_mappable_register(3), DigitalAnalogDevice)
program(templ, False)
built = templ.build(qubits={"q0": 2, "q1": 0, "q2": 5})
assert built.current_phase_ref("q2", "digital") == 1.0
# ... and so must a phase shift without explicit targets
templ = Sequence(layout.make_mappable_register(3), DigitalAnalogDevice)
templ.declare_channel("ram", "raman_local", initial_target="q0")
templ.phase_shift(0.5, basis="digital")
built = templ.build(qubits=mapping)
assert built.current_phase_ref("q1", "digital") == 0.5

if failures:
    print("FAIL")
    for f in failures:
        print(" ", f)
    sys.exit(1)
print("PASS")
