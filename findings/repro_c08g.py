"""C08 (minor) - build(qubits={}) on a sequence with a MappableRegister
returns a "built" sequence whose register is still the MappableRegister.

`if qubits:` in Sequence.build() treats an empty mapping like "no mapping",
after the `qubits is None` check has already been passed. The direct
construction with zero traps is refused (MappableRegister.build_register({})
raises "Cannot create a Register with an empty qubit dictionary"), so build()
must refuse as well instead of handing back an unresolved sequence.
"""
import sys
import warnings

from pulser import Pulse, Sequence
from pulser.devices import DigitalAnalogDevice
from pulser.register.register_layout import RegisterLayout

warnings.simplefilter("ignore")

layout = RegisterLayout([[i * 5, 0] for i in range(8)])
mreg = layout.make_mappable_register(3)

# What the resolution of an empty mapping gives when asked directly
try:
    mreg.build_register({})
    direct_error = None
except ValueError as e:
    direct_error = e
assert direct_error is not None

seq = Sequence(mreg, DigitalAnalogDevice)
seq.declare_channel("ryd", "rydberg_global")
amp = seq.declare_variable("amp")
seq.add(Pulse.ConstantPulse(100, amp, 0.0, 0.0), "ryd")

try:
    built = seq.build(qubits={}, amp=1.0)
except ValueError as e:
    print(f"build refused -> {e}")
    print("PASS")
    sys.exit(0)

print(
    "FAIL: build(qubits={}) returned a sequence;",
    f"is_register_mappable()={built.is_register_mappable()},",
    f"targets of the pulse={sorted(built._schedule['ryd'][-1].targets)}",
)
sys.exit(1)
