"""C11: QutipBackendV2 labels the emulated states with samples_obj.eigenbasis, which never contains the leakage state
"x", while the emulator it drives works in Hamiltonian.eigenbasis (with "x" when with_leakage is set).  With leakage
noise the legacy emulator runs and the V2 backend raises for the same sequence and configuration (exit 1 when present).
"""
import sys
import numpy as np
import pulser
from pulser.backend import BitStrings, StateResult
from pulser.noise_model import NoiseModel
from pulser_simulation import QutipBackendV2, QutipConfig, QutipEmulator, SimConfig

reg = pulser.Register({"q0": (0, 0)})
seq = pulser.Sequence(reg, pulser.MockDevice)
seq.declare_channel("ryd", "rydberg_global")
seq.add(pulser.Pulse.ConstantPulse(100, 2.0, 0.0, 0.0), "ryd")
nm = NoiseModel(with_leakage=True, eff_noise_rates=(0.05,), eff_noise_opers=(np.array([[0, 0, 0], [0, 0, 0], [1.0, 0, 0]]),))

legacy = QutipEmulator.from_sequence(seq, config=SimConfig.from_noise_model(nm))
leg = legacy.run()
print("legacy final state shape:", leg.get_final_state().shape)
try:
    cfg = QutipConfig(noise_model=nm, observables=(StateResult(evaluation_times=(1.0,)),))
    res = QutipBackendV2(seq, config=cfg).run()
    st = res.get_result("state", 1.0)
    print("V2 final state shape:", st.to_qobj().shape, "eigenstates:", st.eigenstates)
    ok = st.to_qobj().shape == leg.get_final_state().shape and "x" in st.eigenstates
except Exception as e:  # noqa: BLE001
    print("V2 raised", type(e).__name__, e)
    ok = False
if not ok:
    print("FAIL: V2 backend cannot represent the emulator's state when the leakage state is part of the basis")
    sys.exit(1)
print("PASS")
