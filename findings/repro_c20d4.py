"""C20 finding 4: QutipBackendV2.run() fails with a leakage noise model.

NoiseModel(with_leakage=True, ...) adds the error state 'x' to every qudit
(3 levels for one addressed basis, 4 levels for two). QutipBackendV2 accepts
the noise model but run() labels the emulated state with the eigenstates of
the noiseless basis and evaluates a Hamiltonian of the noiseless dimension,
so no observable is ever stored.
"""
import sys
import traceback

import numpy as np
import qutip

import pulser
from pulser.backend.default_observables import (
    BitStrings,
    CorrelationMatrix,
    Energy,
    EnergySecondMoment,
    Occupation,
    StateResult,
)
from pulser_simulation import QutipBackendV2, QutipConfig

failures = []


def build_seq(two_bases):
    reg = pulser.Register.from_coordinates([(0, 0), (6, 0)], prefix="q")
    seq = pulser.Sequence(reg, pulser.MockDevice)
    seq.declare_channel("ryd", "rydberg_global")
    seq.add(pulser.Pulse.ConstantPulse(400, 2 * np.pi, -2.0, 0.0), "ryd")
    if two_bases:
        seq.declare_channel("ram", "raman_local", initial_target="q0")
        seq.add(pulser.Pulse.ConstantPulse(200, 3.0, 0.5, 0.0), "ram")
    return seq


def check(label, seq, eigenstates):
    dim = len(eigenstates)
    g, x = eigenstates.index("g"), eigenstates.index("x")
    leak = np.zeros((dim, dim))
    leak[x, g] = 1.0  # |x><g|
    noise = pulser.NoiseModel(
        with_leakage=True, eff_noise_opers=[leak], eff_noise_rates=[1.0]
    )
    obs = [
        StateResult(),
        Occupation(one_state="r"),
        Occupation(one_state="x", tag_suffix="x"),
        CorrelationMatrix(one_state="r"),
        Energy(),
        EnergySecondMoment(),
        BitStrings(one_state="r", num_shots=100),
    ]
    config = QutipConfig(
        observables=obs,
        default_evaluation_times=(0.5, 1.0),
        noise_model=noise,
    )
    backend = QutipBackendV2(seq, config=config)  # accepted
    try:
        results = backend.run()
    except Exception:
        print(f"[{label}] run() raised:")
        traceback.print_exc(limit=1, file=sys.stdout)
        failures.append(label)
        return
    n = 2
    for k, t in enumerate(results.get_result_times("occupation")):
        state = results.state[k]
        if state.eigenstates != eigenstates:
            failures.append((label, "eigenstates"))
        rho = state.to_qobj()

        def n_op(level, i):
            proj = qutip.basis(dim, level) * qutip.basis(dim, level).dag()
            ops = [qutip.qeye(dim)] * n
            ops[i] = proj
            return qutip.tensor(ops)

        r = eigenstates.index("r")
        occ_r = [(rho * n_op(r, i)).tr().real for i in range(n)]
        occ_x = [(rho * n_op(x, i)).tr().real for i in range(n)]
        corr = [
            [(rho * n_op(r, i) * n_op(r, j)).tr().real for j in range(n)]
            for i in range(n)
        ]
        # The emulated Hamiltonian has no noise other than the extra level
        ham = backend._sim_obj.get_hamiltonian(t * results.total_duration)
        energy = (rho * ham).tr().real
        ok = (
            np.allclose(results.occupation[k], occ_r, atol=1e-8)
            and np.allclose(results.occupation_x[k], occ_x, atol=1e-8)
            and np.allclose(results.correlation_matrix[k], corr, atol=1e-8)
            and np.isclose(results.energy[k], energy, atol=1e-8)
            and results.energy_second_moment[k] >= results.energy[k] ** 2
            and sum(results.bitstrings[k].values()) == 100
        )
        print(f"[{label}] t={t}: occupation r={np.round(occ_r, 4)} "
              f"x={np.round(occ_x, 4)} energy={energy:.4f}"
              f" {'ok' if ok else 'WRONG'}")
        if not ok:
            failures.append((label, t))


check("rydberg + leakage (3 levels)", build_seq(False), ("r", "g", "x"))
check("rydberg + raman + leakage (4 levels)", build_seq(True),
      ("r", "g", "h", "x"))

if failures:
    print("FAIL:", failures)
    sys.exit(1)
print("PASS")
