"""C01: a pulse with non-finite samples is accepted.
cd /tmp && PYTHONPATH=/repo/pulser-core:/repo/pulser-simulation /venv/bin/python -W ignore /verif/findings/repro_c01.py"""
import numpy as np
from pulser import Pulse, Register, Sequence
from pulser.devices import AnalogDevice, MockDevice
from pulser.waveforms import CustomWaveform, ConstantWaveform

reg = Register.from_coordinates([(0, 0), (6, 0)], prefix="q")
for dev, amp, det in ((AnalogDevice, float("nan"), 0.0), (AnalogDevice, 1.0, float("nan")), (MockDevice, float("inf"), 0.0)):
    seq = Sequence(reg, dev)
    seq.declare_channel("ch", "rydberg_global")
    try:
        seq.add(Pulse.ConstantPulse(100, amp, det, 0.0), "ch")
        print(f"nonfinite_pulse {dev.name} amp={amp} det={det}: VIOLATED (accepted and scheduled)")
    except ValueError as e:
        print(f"nonfinite_pulse {dev.name} amp={amp} det={det}: holds ({e})")
