"""C13 finding 4: a REFUSED disable_eom_mode() / modify_eom_setpoint() takes
the channel out of EOM mode.

While a channel is in EOM mode only EOM pulses, delays and EOM controls are
accepted on it. AnalogDevice allows 6000 ns; when the buffer added by
disable_eom_mode() / modify_eom_setpoint() does not fit, the call raises and
is not recorded -- the channel must therefore still be in EOM mode.
"""
import sys
import warnings

from pulser import Pulse, Register, Sequence
from pulser.devices import AnalogDevice

warnings.simplefilter("ignore")
assert AnalogDevice.max_sequence_duration == 6000
reg = Register.from_coordinates([(0, 0), (0, 6)], prefix="q")
problems = []


def make():
    seq = Sequence(reg, AnalogDevice)
    seq.declare_channel("g", "rydberg_global")
    seq.enable_eom_mode("g", amp_on=1.0, detuning_on=0.0)
    seq.add_eom_pulse("g", duration=5800, phase=0.0)
    return seq


controls = {
    "disable_eom_mode": lambda s: s.disable_eom_mode("g"),
    "modify_eom_setpoint": lambda s: s.modify_eom_setpoint("g", 2.0, 0.0),
}
for name, control in controls.items():
    seq = make()
    try:
        control(seq)
    except RuntimeError as e:
        assert "maximum duration" in str(e), e
    else:
        raise AssertionError(f"{name} was expected not to fit in 6000 ns")
    recorded = [c.name for c in seq._calls[1:]]
    assert recorded == ["declare_channel", "enable_eom_mode", "add_eom_pulse"]
    if not seq.is_in_eom_mode("g"):
        problems.append(
            f"after the refused {name}() is_in_eom_mode('g') is False "
            f"(recorded calls: {recorded})"
        )
    try:
        seq.add_eom_pulse("g", duration=100, phase=0.0)
    except RuntimeError as e:
        problems.append(
            f"after the refused {name}() an EOM pulse is refused: {e}"
        )
    seq = make()
    try:
        control(seq)
    except RuntimeError:
        pass
    try:
        seq.add(Pulse.ConstantPulse(100, 1.0, 0.0, 0.0), "g", "no-delay")
    except RuntimeError:
        pass  # "The chosen channel is in EOM mode."
    else:
        problems.append(
            f"after the refused {name}() a non-EOM pulse is accepted by "
            f"add() (recorded calls: {[c.name for c in seq._calls[1:]]})"
        )
        try:
            seq.build()
        except RuntimeError as e:
            problems.append(
                f"... and replaying the recorded calls of that sequence "
                f"fails: {e}"
            )

if problems:
    print("FAIL")
    for p in problems:
        print(" -", p)
    sys.exit(1)
print("PASS")
