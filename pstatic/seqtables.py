"""Table extractors for the sequence abstract representation (DESIGN 2.8, C04).

Everything is extracted from the source on every run:
  serializer_ops()   : recordable call name -> ops the serializer can emit, with key sets
  deserializer_ops() : op -> keys read (required / optional with default), method called, keywords
  schema_ops()       : op -> (properties, required)
"""
from __future__ import annotations

import ast
import copy
from dataclasses import dataclass, field
from typing import Any, Optional

from .engine import Engine
from .model import AnalysisError, FunctionInfo, dotted, norm

SER = "pulser.json.abstract_repr.serializer.serialize_abstract_sequence"
DESER = "pulser.json.abstract_repr.deserializer._deserialize_operation"


@dataclass
class DictVal:
    keys: dict = field(default_factory=dict)  # key -> 'req' | 'opt'
    ops: set = field(default_factory=set)
    dynamic: set = field(default_factory=set)  # e.g. {'pulse_repr'}
    from_tuple: Optional[tuple] = None
    method: Optional[str] = None

    def clone(self) -> "DictVal":
        return copy.deepcopy(self)


@dataclass
class EmittedOp:
    op: str
    keys: dict  # key -> req|opt
    dynamic: set
    call: str
    line: int


@dataclass
class SerBranch:
    names: list  # recordable names handled by this branch
    tuples: dict  # name -> tuple given to get_all_args
    removed: list  # (method-name-expr, kwarg)
    emitted: list  # EmittedOp
    top_keys: set
    raises_unknown: bool
    line: int


def _test_names(test: ast.AST, candidates: list[str], fold=None) -> Optional[list[str]]:
    """Which candidate call names satisfy a test over ``call.name``? None if the test is not about call.name.

    ``fold`` evaluates a non-literal container (a module-level table) to a python value, or None."""
    if isinstance(test, ast.Compare) and len(test.ops) == 1:
        l, op, r = test.left, test.ops[0], test.comparators[0]
        if norm(l) == "call.name" and isinstance(r, ast.Constant):
            if isinstance(op, ast.Eq):
                return [c for c in candidates if c == r.value]
            if isinstance(op, ast.NotEq):
                return [c for c in candidates if c != r.value]
        if norm(l) == "call.name" and isinstance(op, (ast.In, ast.NotIn)):
            try:
                vals = ast.literal_eval(r)
            except Exception:
                vals = fold(r) if fold is not None else None
                if not isinstance(vals, (tuple, list, set, frozenset, dict)):
                    return None
            return [c for c in candidates if (c in vals) == isinstance(op, ast.In)]
        if isinstance(l, ast.Constant) and norm(r) == "call.name" and isinstance(op, ast.In):
            return [c for c in candidates if l.value in c]
    if isinstance(test, ast.BoolOp):
        parts = [_test_names(v, candidates, fold) for v in test.values]
        if any(p is None for p in parts):
            return None
        if isinstance(test.op, ast.Or):
            return [c for c in candidates if any(c in p for p in parts)]
        return [c for c in candidates if all(c in p for p in parts)]
    return None


class SerializerExtractor:
    def __init__(self, E: Engine):
        self.E = E
        self.f = E.fn(SER)
        self.recordable = sorted(E.recordable())
        self.pulse_repr_variants = self._pulse_repr_variants()

    def _pulse_repr_variants(self) -> list[set]:
        """Key sets Pulse._to_abstract_repr can produce (via abstract_repr(name, ...) and SIGNATURES)."""
        E = self.E
        sigs = signatures(E)
        out = []
        for nm in ("Pulse", "Pulse.ArbitraryPhase"):
            if nm in sigs:
                s = sigs[nm]
                out.append(set(s["pos"]) | set(s["keyword"]) | set(s["extra"]))
        return out

    def branches(self) -> list[SerBranch]:
        loop = None
        for n in ast.walk(self.f.node):
            if isinstance(n, ast.For) and isinstance(n.target, ast.Name) and n.target.id == "call":
                loop = n
        if loop is None:
            raise AnalysisError("anchor: serializer loop over the call log not found")
        out: list[SerBranch] = []
        remaining = list(self.recordable)
        st: Optional[ast.stmt] = loop.body[0] if loop.body else None
        if not isinstance(st, ast.If):
            raise AnalysisError("anchor: serializer loop body is not an if/elif chain over call.name")
        cur: Optional[ast.If] = st
        while cur is not None:
            names = _test_names(cur.test, remaining, lambda e: self._const(e, None, {}))
            if names is None:
                raise AnalysisError(f"serializer branch test not understood: {norm(cur.test)}")
            br = self._branch(cur.body, names, cur.lineno)
            out.append(br)
            remaining = [r for r in remaining if r not in names]
            if len(cur.orelse) == 1 and isinstance(cur.orelse[0], ast.If):
                cur = cur.orelse[0]
            else:
                # final else
                if cur.orelse:
                    br = self._branch(cur.orelse, remaining, cur.orelse[0].lineno)
                    out.append(br)
                cur = None
        return out

    # -- abstract interpretation of one branch body, once per call name
    def _branch(self, body: list[ast.stmt], names: list[str], line: int) -> SerBranch:
        br = SerBranch(list(names), {}, [], [], set(), False, line)
        if not names:
            # still detect the 'Unknown call' raise
            br.raises_unknown = any(isinstance(n, ast.Raise) for st in body for n in ast.walk(st))
            return br
        for nm in names:
            env: dict[str, DictVal] = {}
            self._exec(body, nm, env, br, certain=True)
        return br

    _NOCONST = object()

    def _const(self, e: ast.AST, nm: Optional[str], cenv: dict) -> Any:
        """Partial evaluation of an expression of a branch specialised to call name ``nm``: literals, module
        constants, locals bound to such values earlier in the branch (``cenv``), ``call.name`` itself, and
        subscripts / tuples of those.  None when the value is not a compile-time constant."""
        v = self._const_(e, nm, cenv)
        return None if v is self._NOCONST else v

    def _const_(self, e: ast.AST, nm: Optional[str], cenv: dict) -> Any:
        N = self._NOCONST
        if isinstance(e, ast.Constant):
            return e.value
        if isinstance(e, ast.Name):
            if e.id in cenv:
                return cenv[e.id]
            m = self.f.module
            node = m.assigns.get(e.id)
            if node is not None and not any(isinstance(x, ast.Name) and x.id == e.id and isinstance(x.ctx, ast.Store) for x in ast.walk(self.f.node)):
                try:
                    return self.E.P.fold(m, node)
                except Exception:
                    return N
            return N
        if isinstance(e, ast.Attribute) and norm(e) == "call.name" and nm is not None:
            return nm
        if isinstance(e, ast.Tuple):
            vs = [self._const_(x, nm, cenv) for x in e.elts]
            return N if any(x is N for x in vs) else tuple(vs)
        if isinstance(e, ast.Subscript):
            b, k = self._const_(e.value, nm, cenv), self._const_(e.slice, nm, cenv)
            if b is N or k is N:
                return N
            try:
                return b[k]
            except Exception:
                return N
        return N

    def _str_tuple(self, e: ast.AST, nm: Optional[str] = None, cenv: Optional[dict] = None) -> Optional[tuple]:
        """A tuple of strings known at analysis time: literal, module constant, or an entry of a module table."""
        if isinstance(e, ast.Tuple) and all(isinstance(x, ast.Constant) for x in e.elts):
            return tuple(x.value for x in e.elts)
        v = self._const(e, nm, cenv or {})
        if isinstance(v, (tuple, list)) and all(isinstance(x, str) for x in v):
            return tuple(v)
        return None

    def _dictval(self, e: ast.AST, nm: str, env: dict, br: SerBranch) -> Optional[DictVal]:
        if isinstance(e, ast.Name) and e.id in env:
            return env[e.id]
        if isinstance(e, ast.Dict):
            d = DictVal(method=nm)
            for k, v in zip(e.keys, e.values):
                if k is None:
                    sub = self._dictval(v, nm, env, br)
                    if sub is None:
                        d.dynamic.add("**" + norm(v))
                    else:
                        d.keys.update(sub.keys)
                        d.dynamic |= sub.dynamic
                elif isinstance(k, ast.Constant):
                    d.keys[k.value] = "req"
                    opv = self._const(v, nm, env.get("__const__", {})) if k.value == "op" else None
                    if isinstance(opv, str):
                        d.ops = {opv}
            return d
        if isinstance(e, ast.Call):
            fd = dotted(e.func) or ""
            if fd == "get_all_args" and e.args and self._str_tuple(e.args[0], nm, env.get("__const__", {})) is not None:
                tup = self._str_tuple(e.args[0], nm, env.get("__const__", {}))
                br.tuples[nm] = tup
                return DictVal(keys={k: "req" for k in tup}, from_tuple=tup, method=nm)
            if fd == "remove_kwarg_if_default" and len(e.args) == 3:
                base = self._dictval(e.args[0], nm, env, br)
                kw = e.args[2].value if isinstance(e.args[2], ast.Constant) else None
                meth = e.args[1].value if isinstance(e.args[1], ast.Constant) else (nm if norm(e.args[1]) == "call.name" else norm(e.args[1]))
                br.removed.append((nm, meth, kw))
                if base is None:
                    return None
                d = base.clone()
                if kw in d.keys:
                    d.keys[kw] = "opt"
                return d
            if fd == "dict" and len(e.args) == 1 and norm(e.args[0]) == "call.kwargs":
                # the stored kwargs of the call: the keyword-only parameters of the method
                m = self.E.recordable().get(nm)
                d = DictVal(method=nm)
                if m is not None:
                    for a in m.node.args.kwonlyargs:
                        d.keys[a.arg] = "opt"
                return d
        return None

    def _exec(self, body: list[ast.stmt], nm: str, env: dict, br: SerBranch, certain: bool) -> None:
        cenv = env.setdefault("__const__", {})
        for st in body:
            if isinstance(st, ast.If):
                sel = _test_names(st.test, [nm], lambda e: self._const(e, nm, cenv))
                if sel is None:
                    cv = self._const_(st.test, nm, cenv)
                    if cv is not self._NOCONST:
                        sel = [nm] if cv else []
                if sel is not None:
                    if sel:
                        self._exec(st.body, nm, env, br, certain)
                    else:
                        self._exec(st.orelse, nm, env, br, certain)
                    continue
                # `if "k" in data:` guards an optional key; anything else: both arms, uncertain
                self._exec(st.body, nm, env, br, False)
                self._exec(st.orelse, nm, env, br, False)
                continue
            if isinstance(st, ast.Raise):
                if "Unknown call" in norm(st):
                    br.raises_unknown = True
                continue
            if isinstance(st, (ast.Assign, ast.AnnAssign)):
                tgt = st.targets[0] if isinstance(st, ast.Assign) else st.target
                val = st.value
                if val is None:
                    continue
                if isinstance(tgt, ast.Tuple) and all(isinstance(x, ast.Name) for x in tgt.elts):
                    cv = self._const_(val, nm, cenv)
                    for i, x in enumerate(tgt.elts):
                        cenv.pop(x.id, None)
                        if certain and cv is not self._NOCONST and isinstance(cv, (tuple, list)) and len(cv) == len(tgt.elts):
                            cenv[x.id] = cv[i]
                    continue
                if isinstance(tgt, ast.Name):
                    cenv.pop(tgt.id, None)
                    cv = self._const_(val, nm, cenv)
                    if certain and cv is not self._NOCONST and not isinstance(val, ast.Name):
                        cenv[tgt.id] = cv
                        continue
                    d = self._dictval(val, nm, env, br)
                    if d is not None:
                        env[tgt.id] = d.clone() if isinstance(val, ast.Name) else d
                    elif isinstance(val, ast.Call) and isinstance(val.func, ast.Attribute) and val.func.attr == "_to_abstract_repr" and "pulse" in norm(val.func.value):
                        env[tgt.id] = DictVal(dynamic={"pulse_repr"})
                    continue
                if isinstance(tgt, ast.Subscript) and isinstance(tgt.value, ast.Name) and isinstance(tgt.slice, ast.Constant):
                    base = tgt.value.id
                    k = tgt.slice.value
                    if base in env:
                        if k == "op" and isinstance(val, ast.Constant):
                            env[base].ops = (env[base].ops | {val.value}) if not certain else {val.value}
                        else:
                            env[base].keys[k] = "req" if certain else "opt"
                    elif base == "res":
                        br.top_keys.add(k)
                    continue
                if isinstance(tgt, ast.Subscript) and isinstance(tgt.value, ast.Subscript) and norm(tgt.value.value) == "res":
                    br.top_keys.add(tgt.value.slice.value if isinstance(tgt.value.slice, ast.Constant) else norm(tgt.value.slice))
                continue
            if isinstance(st, ast.Expr) and isinstance(st.value, ast.Call):
                c = st.value
                fd = dotted(c.func) or ""
                if fd.endswith(".update") and isinstance(c.func, ast.Attribute) and isinstance(c.func.value, ast.Name) and c.func.value.id in env and c.args:
                    sub = self._dictval(c.args[0], nm, env, br)
                    if sub is not None:
                        env[c.func.value.id].keys.update(sub.keys)
                        env[c.func.value.id].dynamic |= sub.dynamic
                    continue
                if fd == "operations.append" and c.args:
                    d = self._dictval(c.args[0], nm, env, br)
                    if d is None:
                        raise AnalysisError(f"serializer: operations.append argument not understood: {norm(c.args[0])}")
                    ops = d.ops or {"?"}
                    for op in sorted(ops):
                        br.emitted.append(EmittedOp(op, dict(d.keys), set(d.dynamic), nm, st.lineno))
                    continue
            if isinstance(st, (ast.For, ast.While, ast.With, ast.Try)):
                for blk in ("body", "orelse", "finalbody"):
                    self._exec(getattr(st, blk, []) or [], nm, env, br, False)


@dataclass
class DeserOp:
    op: str
    required: set
    optional: dict  # key -> default (python value) or '<expr>'
    calls: list  # (method name, [keywords], n_positional, has_star)
    line: int


def deserializer_ops(E: Engine) -> dict[str, DeserOp]:
    f = E.fn(DESER)
    first = next((st for st in f.node.body if isinstance(st, ast.If)), None)
    if first is None:
        raise AnalysisError("anchor: _deserialize_operation is not an if/elif chain")
    out: dict[str, DeserOp] = {}
    cur: Optional[ast.If] = first
    while cur is not None:
        t = cur.test
        if not (isinstance(t, ast.Compare) and norm(t.left) == "op['op']" and isinstance(t.ops[0], ast.Eq) and isinstance(t.comparators[0], ast.Constant)):
            raise AnalysisError(f"deserializer branch test not understood: {norm(t)}")
        name = t.comparators[0].value
        req: set = set()
        opt: dict = {}
        calls = []

        def scan(nodes: list, opname: str, depth: int = 0) -> None:
            """Key reads of the operation dict, followed into private helpers of the module that receive it."""
            for n in ast.walk(ast.Module(body=nodes, type_ignores=[])):
                if isinstance(n, ast.Subscript) and isinstance(n.value, ast.Name) and n.value.id == opname and isinstance(n.slice, ast.Constant):
                    req.add(n.slice.value)
                if isinstance(n, ast.Call) and isinstance(n.func, ast.Attribute) and n.func.attr == "get" and isinstance(n.func.value, ast.Name) and n.func.value.id == opname and n.args and isinstance(n.args[0], ast.Constant):
                    d: Any = "<none>"
                    if len(n.args) > 1:
                        try:
                            d = ast.literal_eval(n.args[1])
                        except Exception:
                            d = "<expr>"
                    opt[n.args[0].value] = d
                if isinstance(n, ast.Call) and isinstance(n.func, ast.Attribute) and isinstance(n.func.value, ast.Name) and n.func.value.id == "seq" and depth == 0:
                    calls.append((n.func.attr, [k.arg for k in n.keywords if k.arg], len([a for a in n.args if not isinstance(a, ast.Starred)]), any(isinstance(a, ast.Starred) for a in n.args), n))
                if isinstance(n, ast.Call) and isinstance(n.func, ast.Name) and n.func.id.startswith("_") and depth < 2:
                    h = f.module.functions.get(n.func.id)
                    if h is not None and h is not f:
                        for i, a in enumerate(n.args):
                            if isinstance(a, ast.Name) and a.id == opname and i < len(h.params):
                                scan(h.node.body, h.params[i], depth + 1)
                        for k in n.keywords:
                            if isinstance(k.value, ast.Name) and k.value.id == opname and k.arg in h.params:
                                scan(h.node.body, k.arg, depth + 1)

        scan(cur.body, "op")
        req.discard("op")
        out[name] = DeserOp(name, req - set(opt), opt, calls, cur.lineno)
        if len(cur.orelse) == 1 and isinstance(cur.orelse[0], ast.If):
            cur = cur.orelse[0]
        else:
            cur = None
    return out


def schema_ops(E: Engine) -> dict[str, dict]:
    sch = E.P.schemas.get("sequence-schema.json")
    if sch is None:
        raise AnalysisError("anchor: sequence-schema.json not found")
    out = {}
    for dname, d in sch.get("definitions", {}).items():
        props = d.get("properties", {})
        op = props.get("op", {})
        if isinstance(op, dict) and "const" in op and dname.startswith("Op"):
            out[op["const"]] = {
                "definition": dname,
                "properties": set(props) - {"op"},
                "required": set(d.get("required", [])) - {"op"},
                "additional": d.get("additionalProperties", True),
            }
    listed = {r.get("$ref", "").split("/")[-1] for r in sch["definitions"].get("Operation", {}).get("anyOf", [])}
    for op, d in out.items():
        d["listed_in_Operation"] = d["definition"] in listed
    return out


def signatures(E: Engine) -> dict[str, dict]:
    """SIGNATURES table folded from the source."""
    m = E.P.module("pulser.json.abstract_repr.signatures")
    node = m.assigns.get("SIGNATURES")
    if not isinstance(node, ast.Dict):
        raise AnalysisError("anchor: SIGNATURES is not a dict literal")
    out = {}
    for k, v in zip(node.keys, node.values):
        if not (isinstance(k, ast.Constant) and isinstance(v, ast.Call)):
            raise AnalysisError("SIGNATURES entry not understood")
        ent = {"pos": (), "var_pos": None, "keyword": (), "extra": {}}
        for kw in v.keywords:
            val = E.P.fold_or_none(m, kw.value)
            ent[kw.arg] = val if val is not None else ent[kw.arg]
        for i, a in enumerate(v.args):
            ent[("pos", "var_pos", "keyword", "extra")[i]] = E.P.fold_or_none(m, a)
        ent["pos"] = tuple(ent["pos"] or ())
        ent["keyword"] = tuple(ent["keyword"] or ())
        ent["extra"] = dict(ent["extra"] or {})
        out[k.value] = ent
    return out


def dict_keys_of(E: Engine, modname: str, name: str) -> list[str]:
    m = E.P.module(modname)
    node = m.assigns.get(name)
    if not isinstance(node, ast.Dict):
        raise AnalysisError(f"anchor: {modname}.{name} is not a dict literal")
    return [k.value for k in node.keys if isinstance(k, ast.Constant)]
