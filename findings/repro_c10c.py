"""C10: retargeting a Local channel to the atoms it already targets must insert
nothing.  On a channel with a modulation bandwidth, Sequence.target() to the
*same* atoms right after a pulse appends a delay (the pulse's fall time)."""
import sys
import warnings

warnings.simplefilter("ignore")

from pulser import Pulse, Register, Sequence
from pulser.channels import Raman
from pulser.devices import VirtualDevice

reg = Register.square(2, spacing=6, prefix="q")
dev = VirtualDevice(
    name="dev",
    dimensions=2,
    rydberg_level=60,
    channel_objects=(
        Raman.Local(
            None,
            None,
            min_retarget_interval=220,
            fixed_retarget_t=0,
            max_targets=2,
            mod_bandwidth=4,
            clock_period=4,
            min_duration=16,
        ),
    ),
)

ok = True
for same_target in ("q0", ["q0"], {"q0"}):
    seq = Sequence(reg, dev)
    seq.declare_channel("ch", "raman_local", initial_target="q0")
    seq.add(Pulse.ConstantPulse(100, 1.0, 0.0, 0.0), "ch")
    n_slots = len(seq._schedule["ch"].slots)
    duration = seq.get_duration("ch")
    seq.target(same_target, "ch")  # same atoms: must be a no-op
    new_slots = seq._schedule["ch"].slots[n_slots:]
    new_duration = seq.get_duration("ch")
    print(
        f"target({same_target!r}): duration {duration} -> {new_duration} ns, "
        f"slots inserted: {[(s.type, s.ti, s.tf) for s in new_slots]}"
    )
    if new_slots or new_duration != duration:
        ok = False

if ok:
    print("PASS")
    sys.exit(0)
print("FAIL: retargeting to the same atoms inserted something")
sys.exit(1)
