"""Expression abstraction for guards and provenance (DESIGN 2.7).

absval(expr) -> AV(roots, tags): roots are access paths from parameters /
``self`` / constants, followed through the definitions of locals; tags record
the wrappers seen on the way.  A comparison becomes an Atom in canonical
form; the guard of a statement is the conjunction of the enclosing tests.
"""
from __future__ import annotations

import ast
from dataclasses import dataclass, field
from typing import Iterable, Optional

from .flow import FunctionFlow
from .model import dotted, norm

TRANSPARENT_METHODS = {"as_array", "as_tensor", "tolist", "copy", "astype", "flatten", "ravel", "item", "numpy", "detach", "values", "keys", "items"}
TRANSPARENT_FUNCS = {"float", "cast", "AbstractArray", "array", "asarray", "list", "tuple", "bool"}
FUNC_TAGS = {
    "any": "any", "all": "all", "abs": "abs", "absolute": "abs", "fabs": "abs", "max": "max", "amax": "max", "min": "min", "amin": "min",
    "sum": "sum", "average": "avg", "mean": "avg", "len": "len", "int": "int", "isfinite": "isfinite", "isnan": "isnan", "isinf": "isinf",
    "norm": "norm", "sqrt": "sqrt", "ceil": "ceil", "floor": "floor", "set": "set", "clip": "clip", "isclose": "isclose", "allclose": "allclose",
    "unique": "unique", "where": "where", "diff": "diff", "sort": "sort", "sorted": "sort", "argmin": "argmin", "argmax": "argmax", "pdist": "pdist",
    "squareform": "pdist", "triu_indices": "triu", "logical_or": "or", "logical_and": "and", "ptp": "ptp",
}
MIRROR = {"Lt": "Gt", "Gt": "Lt", "LtE": "GtE", "GtE": "LtE", "Eq": "Eq", "NotEq": "NotEq", "Is": "Is", "IsNot": "IsNot"}
NEGATE = {"Lt": "GtE", "GtE": "Lt", "Gt": "LtE", "LtE": "Gt", "Eq": "NotEq", "NotEq": "Eq", "Is": "IsNot", "IsNot": "Is", "In": "NotIn", "NotIn": "In"}


@dataclass(frozen=True)
class AV:
    roots: frozenset
    tags: frozenset

    def __or__(self, other: "AV") -> "AV":
        return AV(self.roots | other.roots, self.tags | other.tags)

    def with_tag(self, *t: str) -> "AV":
        return AV(self.roots, self.tags | frozenset(t))

    def show(self) -> str:
        r = "{" + ",".join(sorted(self.roots)) + "}"
        return r + ("[" + ",".join(sorted(self.tags)) + "]" if self.tags else "")

    def has_root(self, spec: str) -> bool:
        """spec root matches a root equal to it or extending it (pulse.amplitude ~ pulse.amplitude.samples)."""
        return any(r == spec or r.startswith(spec + ".") for r in self.roots)


EMPTY = AV(frozenset(), frozenset())


@dataclass(frozen=True)
class Atom:
    lhs: AV
    rel: str
    rhs: AV
    quant: str = ""  # 'any' / 'all' wrapper around the comparison
    text: str = ""

    def show(self) -> str:
        q = f"{self.quant}:" if self.quant else ""
        return f"{q}{self.lhs.show()} {self.rel} {self.rhs.show()}"

    def mirrored(self) -> "Atom":
        return Atom(self.rhs, MIRROR.get(self.rel, self.rel), self.lhs, self.quant, self.text)

    def negated(self) -> "Atom":
        return Atom(self.lhs, NEGATE.get(self.rel, "Not" + self.rel), self.rhs, self.quant, self.text)


@dataclass(frozen=True)
class Literal:
    """One conjunct of a guard: an Atom, or an opaque truth test of a value."""

    atom: Optional[Atom]
    truth: Optional[AV]  # `if x:` / `if not x:`
    positive: bool
    text: str

    def show(self) -> str:
        if self.atom is not None:
            return self.atom.show()
        return ("" if self.positive else "not ") + (self.truth.show() if self.truth else self.text)


class Abstractor:
    def __init__(self, fl: FunctionFlow):
        self.fl = fl
        self.ctx = fl.ctx
        self._busy: set[str] = set()

    def _parent(self) -> "Abstractor":
        from .flow import flow_of

        return abstractor(flow_of(self.fl.R, self.fl.fn.parent))

    # ----------------------------------------------------------------- AV
    def const_value(self, e: ast.AST, _d: int = 0):
        """Numeric value of a constant expression (literals, module constants, + - * / ** unary -), else None."""
        if _d > 12:
            return None
        if isinstance(e, ast.Constant) and isinstance(e.value, (int, float)) and not isinstance(e.value, bool):
            return e.value
        if isinstance(e, ast.Name):
            if self.ctx.is_param(e.id):
                return None
            defs = self.ctx.local_defs().get(e.id)
            if defs is not None:
                # a local temporary holding a constant expression
                if len(defs) == 1 and defs[0][0] == "assign":
                    return self.const_value(defs[0][1], _d + 1)
                return None
            p = self.ctx.parent_ctx()
            if p is not None and e.id in p.local_defs() and e.id not in p.fn.params:
                return self._parent().const_value(e, _d + 1)
            r = self.fl.P.resolve_in_module(self.ctx.module, e.id)
            if isinstance(r, tuple) and r[0] == "const":
                v = self.fl.P.fold_or_none(r[1], r[1].assigns[r[2]])
                if isinstance(v, (int, float)) and not isinstance(v, bool):
                    return v
            return None
        if isinstance(e, ast.UnaryOp) and isinstance(e.op, (ast.USub, ast.UAdd)):
            v = self.const_value(e.operand, _d + 1)
            return None if v is None else (-v if isinstance(e.op, ast.USub) else v)
        if isinstance(e, ast.BinOp):
            l, r = self.const_value(e.left, _d + 1), self.const_value(e.right, _d + 1)
            if l is None or r is None:
                return None
            try:
                if isinstance(e.op, ast.Add):
                    return l + r
                if isinstance(e.op, ast.Sub):
                    return l - r
                if isinstance(e.op, ast.Mult):
                    return l * r
                if isinstance(e.op, ast.Div):
                    return l / r
                if isinstance(e.op, ast.Pow):
                    return float(l) ** r if abs(r) < 64 else None
            except Exception:
                return None
        return None

    def side(self, e: ast.AST) -> AV:
        """AV of one side of a comparison; a constant-valued side also carries its value as ``num:<v>``."""
        a = self.av(e)
        if isinstance(e, (ast.BinOp, ast.UnaryOp, ast.Name, ast.Constant)):
            cv = self.const_value(e)
            if cv is not None:
                a = a | AV(frozenset({f"num:{float(cv)!r}"}), frozenset())
        return a

    def av(self, e: ast.AST, _d: int = 0) -> AV:
        if _d > 25:
            return AV(frozenset({"?deep"}), frozenset())
        if isinstance(e, ast.Constant):
            return AV(frozenset({f"const:{e.value!r}"}), frozenset())
        if isinstance(e, ast.Name):
            nm = e.id
            if nm in ("True", "False", "None"):
                return AV(frozenset({f"const:{nm}"}), frozenset())
            if self.ctx.is_param(nm):
                base = AV(frozenset({nm}), frozenset())
                rdefs = self.ctx.local_defs().get(nm)
                if rdefs and nm not in self._busy:
                    # a re-assigned parameter: its later values count too
                    self._busy.add(nm)
                    try:
                        for kind, v in rdefs:
                            if kind == "assign":
                                base = base | self.av(v, _d + 1)
                    finally:
                        self._busy.discard(nm)
                return base
            defs = self.ctx.local_defs().get(nm)
            if defs and nm not in self._busy:
                self._busy.add(nm)
                try:
                    out = EMPTY
                    for kind, v in defs:
                        if kind == "assign":
                            out = out | self.av(v, _d + 1)
                        elif kind == "iter":
                            out = out | self.av(v, _d + 1).with_tag("elem")
                        elif kind == "unpack":
                            out = out | self.av(v[1], _d + 1).with_tag("elem")
                        elif kind == "with":
                            out = out | self.av(v, _d + 1)
                    return out if out.roots else AV(frozenset({"local:" + nm}), frozenset())
                finally:
                    self._busy.discard(nm)
            p = self.ctx.parent_ctx()
            if p is not None and nm in p.local_defs() and nm not in p.fn.params:
                # closure variable defined by the enclosing function: its provenance there
                return self._parent().av(e, _d + 1)
            if p is not None and nm in p.fn.params:
                return AV(frozenset({nm}), frozenset())
            d = nm
            # module-level constant / global
            r = self.fl.P.resolve_in_module(self.ctx.module, nm)
            if isinstance(r, tuple) and r[0] == "const":
                v = self.fl.P.fold_or_none(r[1], r[1].assigns[r[2]])
                if isinstance(v, (int, float, str)) and not isinstance(v, bool):
                    # a constant DERIVED from other module constants (`_TOL = 10 ** (-COORD_PRECISION)`) has their provenance
                    node_ = r[1].assigns[r[2]]
                    inner = sorted({x.id for x in ast.walk(node_) if isinstance(x, ast.Name)}) if not isinstance(node_, ast.Constant) else []
                    inner = [x for x in inner if isinstance(self.fl.P.resolve_in_module(r[1], x), tuple) and self.fl.P.resolve_in_module(r[1], x)[0] == "const"]
                    if inner and _d < 6:
                        return AV(frozenset(f"global:{x}" for x in inner), frozenset())
                    return AV(frozenset({f"global:{nm}"}), frozenset())
            return AV(frozenset({"global:" + d}), frozenset())
        if isinstance(e, ast.Attribute):
            base = self.av(e.value, _d + 1)
            return AV(frozenset(r + "." + e.attr for r in base.roots), base.tags)
        if isinstance(e, ast.Subscript):
            base = self.av(e.value, _d + 1)
            if isinstance(e.slice, ast.Constant):
                return base.with_tag(f"idx:{e.slice.value!r}")
            if isinstance(e.slice, ast.UnaryOp) and isinstance(e.slice.op, ast.USub) and isinstance(e.slice.operand, ast.Constant):
                return base.with_tag(f"idx:-{e.slice.operand.value!r}")
            sl = self.av(e.slice, _d + 1) if not isinstance(e.slice, ast.Slice) else EMPTY
            return AV(base.roots, base.tags | {"idx"}) | AV(frozenset(), frozenset()) if not sl.roots else AV(base.roots | frozenset("idx<-" + r for r in sl.roots), base.tags | {"idx"})
        if isinstance(e, ast.Call):
            return self._av_call(e, _d)
        if isinstance(e, ast.BinOp):
            l, r = self.av(e.left, _d + 1), self.av(e.right, _d + 1)
            return (l | r).with_tag(type(e.op).__name__)
        if isinstance(e, ast.UnaryOp):
            v = self.av(e.operand, _d + 1)
            if isinstance(e.op, ast.USub):
                if isinstance(e.operand, ast.Constant):
                    return AV(frozenset({f"const:{-e.operand.value!r}"}), frozenset())
                return v.with_tag("Neg")
            if isinstance(e.op, ast.Not):
                return v.with_tag("Not")
            return v
        if isinstance(e, ast.IfExp):
            return self.av(e.body, _d + 1) | self.av(e.orelse, _d + 1) | AV(frozenset("cond<-" + r for r in self.av(e.test, _d + 1).roots), frozenset())
        if isinstance(e, ast.BoolOp):
            out = EMPTY
            for v in e.values:
                out = out | self.av(v, _d + 1)
            return out.with_tag(type(e.op).__name__)
        if isinstance(e, ast.Compare):
            out = self.av(e.left, _d + 1)
            for c in e.comparators:
                out = out | self.av(c, _d + 1)
            return out.with_tag("cmp")
        if isinstance(e, (ast.Tuple, ast.List, ast.Set)):
            out = EMPTY
            for v in e.elts:
                out = out | self.av(v.value if isinstance(v, ast.Starred) else v, _d + 1)
            return out
        if isinstance(e, (ast.ListComp, ast.SetComp, ast.GeneratorExp)):
            out = self.av(e.elt, _d + 1)
            for g in e.generators:
                out = out | AV(frozenset(), frozenset())
            return out.with_tag("comp")
        if isinstance(e, ast.DictComp):
            return (self.av(e.key, _d + 1) | self.av(e.value, _d + 1)).with_tag("comp")
        if isinstance(e, ast.Dict):
            out = EMPTY
            for v in e.values:
                out = out | self.av(v, _d + 1)
            return out
        if isinstance(e, ast.JoinedStr):
            return AV(frozenset({"const:str"}), frozenset())
        if isinstance(e, ast.Starred):
            return self.av(e.value, _d + 1)
        if isinstance(e, ast.NamedExpr):
            return self.av(e.value, _d + 1)
        return AV(frozenset({"?" + type(e).__name__}), frozenset())

    def _av_call(self, e: ast.Call, _d: int) -> AV:
        fd = dotted(e.func) or ""
        last = fd.split(".")[-1] if fd else (e.func.attr if isinstance(e.func, ast.Attribute) else "")
        args = [a.value if isinstance(a, ast.Starred) else a for a in e.args]
        if last == "cast" and len(args) == 2:
            return self.av(args[1], _d + 1)
        if isinstance(e.func, ast.Attribute) and last in TRANSPARENT_METHODS:
            return self.av(e.func.value, _d + 1)
        if last in ("round", "round_", "around", "rint") and args:
            dec = None
            if len(args) > 1 and isinstance(args[1], ast.Constant):
                dec = args[1].value
            for kw in e.keywords:
                if kw.arg in ("decimals", "ndigits") and isinstance(kw.value, ast.Constant):
                    dec = kw.value.value
                elif kw.arg in ("decimals", "ndigits"):
                    dec = norm(kw.value)
            if len(args) > 1 and dec is None:
                dec = norm(args[1])
            return self.av(args[0], _d + 1).with_tag(f"round:{dec if dec is not None else 0}")
        if last in TRANSPARENT_FUNCS and args and not isinstance(e.func, ast.Attribute) or (last in ("AbstractArray", "array", "asarray") and args):
            return self.av(args[0], _d + 1)
        if not isinstance(e.func, ast.Attribute) and last in ("enumerate", "reversed", "zip", "iter", "chain", "dict", "frozenset") and args:
            out = EMPTY
            for a in args:
                out = out | self.av(a, _d + 1)
            return out
        if last in FUNC_TAGS:
            out = EMPTY
            for a in args:
                out = out | self.av(a, _d + 1)
            if isinstance(e.func, ast.Attribute) and not (fd.startswith("np.") or fd.startswith("numpy.") or fd.startswith("pm.") or fd.startswith("math.")):
                # method form  x.max()
                out = out | self.av(e.func.value, _d + 1)
            return out.with_tag(FUNC_TAGS[last])
        # method call on an object: provenance = receiver + args
        out = EMPTY
        if isinstance(e.func, ast.Attribute):
            base = self.av(e.func.value, _d + 1)
            out = AV(frozenset(r + "." + e.func.attr + "()" for r in base.roots), base.tags)
        else:
            out = AV(frozenset({f"call:{fd or '?'}"}), frozenset())
        for a in args:
            x = self.av(a, _d + 1)
            out = AV(out.roots | frozenset("arg<-" + r for r in x.roots), out.tags | x.tags)
        for kw in e.keywords:
            x = self.av(kw.value, _d + 1)
            out = AV(out.roots | frozenset("arg<-" + r for r in x.roots), out.tags | x.tags)
        return out

    # -------------------------------------------------------------- atoms
    def literals(self, test: ast.AST, positive: bool = True) -> list[list[Literal]]:
        """Disjunctive normal form (list of conjunctions) of a test."""
        if isinstance(test, ast.UnaryOp) and isinstance(test.op, ast.Not):
            return self.literals(test.operand, not positive)
        if isinstance(test, ast.BoolOp):
            is_and = isinstance(test.op, ast.And)
            if not positive:
                is_and = not is_and  # De Morgan
            parts = [self.literals(v, positive) for v in test.values]
            if is_and:
                out: list[list[Literal]] = [[]]
                for p in parts:
                    out = [a + b for a in out for b in p]
                    if len(out) > 64:
                        out = out[:64]
                return out
            return [c for p in parts for c in p]
        if isinstance(test, ast.Compare):
            conj: list[Literal] = []
            left = test.left
            for op, right in zip(test.ops, test.comparators):
                a = Atom(self.side(left), type(op).__name__, self.side(right), "", norm(ast.Compare(left=left, ops=[op], comparators=[right])))
                if not positive:
                    a = a.negated()
                conj.append(Literal(a, None, True, a.text))
                left = right
            if positive or len(conj) == 1:
                return [conj]
            return [[c] for c in conj]  # not (a<b<c)  ==  a>=b or b>=c
        if isinstance(test, ast.Call):
            fd = dotted(test.func) or ""
            last = fd.split(".")[-1]
            if last in ("any", "all") and len(test.args) == 1 and isinstance(test.args[0], ast.Compare) and len(test.args[0].ops) == 1:
                c = test.args[0]
                a = Atom(self.side(c.left), type(c.ops[0]).__name__, self.side(c.comparators[0]), last, norm(test))
                if not positive:
                    a = Atom(a.lhs, NEGATE[a.rel], a.rhs, "all" if last == "any" else "any", a.text)
                return [[Literal(a, None, True, norm(test))]]
            if last in ("any", "all") and len(test.args) == 1 and isinstance(test.args[0], ast.Name):
                # np.any(mask) with mask = <comparison> defined locally
                defs = self.ctx.local_defs().get(test.args[0].id, [])
                if len(defs) == 1 and defs[0][0] == "assign" and isinstance(defs[0][1], ast.Compare) and len(defs[0][1].ops) == 1:
                    c = defs[0][1]
                    a = Atom(self.side(c.left), type(c.ops[0]).__name__, self.side(c.comparators[0]), last, norm(test))
                    if not positive:
                        a = Atom(a.lhs, NEGATE[a.rel], a.rhs, "all" if last == "any" else "any", a.text)
                    return [[Literal(a, None, True, norm(test))]]
            if last == "isinstance":
                return [[Literal(None, self.av(test.args[0]).with_tag("isinstance:" + norm(test.args[1])), positive, norm(test))]]
        return [[Literal(None, self.av(test), positive, norm(test))]]

    def guards_of_raises(self) -> list[tuple[ast.Raise, list[list[Literal]]]]:
        """For every raise statement: DNF of the conjunction of enclosing tests."""
        out: list[tuple[ast.Raise, list[list[Literal]]]] = []

        def conj(a: list[list[Literal]], b: list[list[Literal]]) -> list[list[Literal]]:
            res = [x + y for x in a for y in b]
            return res[:64]

        def walk(body: list[ast.stmt], cond: list[list[Literal]]) -> None:
            for st in body:
                if isinstance(st, ast.Raise):
                    out.append((st, cond))
                elif isinstance(st, ast.If):
                    walk(st.body, conj(cond, self.literals(st.test, True)))
                    if st.orelse:
                        walk(st.orelse, conj(cond, self.literals(st.test, False)))
                    elif st.body and isinstance(st.body[-1], (ast.Return, ast.Continue, ast.Break)):
                        # `if X: return` -- the rest of the block runs under not X (a guard that raises is a
                        # rejection of its own and is not repeated, negated, in the later ones)
                        cond = conj(cond, self.literals(st.test, False))
                elif isinstance(st, (ast.For, ast.While, ast.AsyncFor)):
                    walk(st.body, cond)
                    walk(st.orelse, cond)
                elif isinstance(st, (ast.With, ast.AsyncWith)):
                    walk(st.body, cond)
                elif isinstance(st, ast.Try):
                    walk(st.body, cond)
                    for h in st.handlers:
                        walk(h.body, cond)
                    walk(st.orelse, cond)
                    walk(st.finalbody, cond)
                elif isinstance(st, ast.Match):
                    for c in st.cases:
                        walk(c.body, cond)

        walk(self.fl.fn.node.body, [[]])
        return out

    def enclosing_conditions(self, target: ast.AST) -> list[list[Literal]]:
        """DNF of the tests enclosing ``target`` (any node), incl. IfExp / BoolOp short-circuit context."""
        res: list[Optional[list[list[Literal]]]] = [None]

        def conj(a: list[list[Literal]], b: list[list[Literal]]) -> list[list[Literal]]:
            return [x + y for x in a for y in b][:64]

        def contains(n: ast.AST) -> bool:
            return any(x is target for x in ast.walk(n))

        def walk_expr(e: ast.AST, cond: list[list[Literal]]) -> bool:
            if e is target:
                res[0] = cond
                return True
            if isinstance(e, ast.IfExp):
                if contains(e.test):
                    return walk_expr(e.test, cond)
                if contains(e.body):
                    return walk_expr(e.body, conj(cond, self.literals(e.test, True)))
                if contains(e.orelse):
                    return walk_expr(e.orelse, conj(cond, self.literals(e.test, False)))
                return False
            if isinstance(e, ast.BoolOp):
                acc = cond
                for v in e.values:
                    if contains(v):
                        return walk_expr(v, acc)
                    acc = conj(acc, self.literals(v, isinstance(e.op, ast.And)))
                return False
            if isinstance(e, (ast.ListComp, ast.SetComp, ast.GeneratorExp, ast.DictComp)):
                acc = cond
                for g in e.generators:
                    if contains(g.iter):
                        return walk_expr(g.iter, acc)
                    for c in g.ifs:
                        if contains(c):
                            return walk_expr(c, acc)
                        acc = conj(acc, self.literals(c, True))
                for part in ([e.key, e.value] if isinstance(e, ast.DictComp) else [e.elt]):
                    if contains(part):
                        return walk_expr(part, acc)
                return False
            for ch in ast.iter_child_nodes(e):
                if contains(ch):
                    return walk_expr(ch, cond)
            return False

        def walk(body: list[ast.stmt], cond: list[list[Literal]]) -> bool:
            for i, st in enumerate(body):
                if not contains(st):
                    # an earlier `if X: return/raise/continue` constrains the rest of the block
                    if isinstance(st, ast.If) and not st.orelse and st.body and isinstance(st.body[-1], (ast.Return, ast.Raise, ast.Continue, ast.Break)):
                        cond = conj(cond, self.literals(st.test, False))
                    continue
                if isinstance(st, ast.If):
                    if contains(st.test):
                        return walk_expr(st.test, cond)
                    if any(contains(x) for x in st.body):
                        return walk(st.body, conj(cond, self.literals(st.test, True)))
                    return walk(st.orelse, conj(cond, self.literals(st.test, False)))
                if isinstance(st, (ast.For, ast.AsyncFor, ast.While)):
                    hdr = st.iter if not isinstance(st, ast.While) else st.test
                    if contains(hdr):
                        return walk_expr(hdr, cond)
                    if any(contains(x) for x in st.body):
                        return walk(st.body, cond if not isinstance(st, ast.While) else conj(cond, self.literals(st.test, True)))
                    return walk(st.orelse, cond)
                if isinstance(st, (ast.With, ast.AsyncWith)):
                    for it in st.items:
                        if contains(it.context_expr):
                            return walk_expr(it.context_expr, cond)
                    return walk(st.body, cond)
                if isinstance(st, ast.Try):
                    for blk in (st.body, st.orelse, st.finalbody):
                        if any(contains(x) for x in blk):
                            return walk(blk, cond)
                    for h in st.handlers:
                        if any(contains(x) for x in h.body):
                            return walk(h.body, cond)
                    return False
                if isinstance(st, (ast.FunctionDef, ast.AsyncFunctionDef, ast.ClassDef)):
                    return False
                return walk_expr(st, cond)
            return False

        walk(self.fl.fn.node.body, [[]])
        return res[0] if res[0] is not None else [[]]


def abstractor(fl: FunctionFlow) -> Abstractor:
    a = getattr(fl, "_abstractor", None)
    if a is None:
        a = Abstractor(fl)
        fl._abstractor = a  # type: ignore[attr-defined]
    return a
