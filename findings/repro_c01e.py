"""C01 finding 2: rounding a duration up to the clock period can push it above
the channel's max_duration (the maximum is only compared with the duration
before rounding)."""
import sys
import warnings

from pulser import Pulse, Register, Sequence
from pulser.channels import Rydberg
from pulser.devices import VirtualDevice

warnings.simplefilter("ignore")

ch = Rydberg.Global(
    max_abs_detuning=20, max_amp=10, clock_period=4, min_duration=16,
    max_duration=50,
)
dev = VirtualDevice(
    name="dev", dimensions=2, rydberg_level=60, channel_objects=(ch,)
)
reg = Register.from_coordinates([(0, 0), (0, 10)], prefix="q")
failures = []

# Sanity: an explicit 52 ns pulse is (rightly) refused, 48 ns is accepted
seq = Sequence(reg, dev)
seq.declare_channel("ch", "rydberg_global")
try:
    seq.add(Pulse.ConstantPulse(52, 1, 0, 0), "ch")
    failures.append("explicit 52 ns pulse accepted")
except ValueError:
    pass
seq.add(Pulse.ConstantPulse(48, 1, 0, 0), "ch")
assert seq._schedule["ch"][-1].type.duration == 48

# 49 ns <= max_duration, but the next clock multiple is 52 ns > max_duration
seq = Sequence(reg, dev)
seq.declare_channel("ch", "rydberg_global")
try:
    seq.add(Pulse.ConstantPulse(49, 1, 0, 0), "ch")
except ValueError as e:
    print("49 ns pulse rejected:", e)
else:
    slot = seq._schedule["ch"][-1]
    print(
        f"49 ns pulse scheduled with duration {slot.type.duration} ns "
        f"(tf - ti = {slot.tf - slot.ti}); channel max_duration = "
        f"{ch.max_duration}"
    )
    if slot.type.duration > ch.max_duration:
        failures.append("scheduled pulse longer than the channel max_duration")

# Same function guards delays / validate_duration directly
try:
    d = ch.validate_duration(50)
except ValueError:
    pass
else:
    print("validate_duration(50) ->", d)
    if d > ch.max_duration:
        failures.append("validate_duration returned more than max_duration")

if failures:
    print("FAIL:", "; ".join(failures))
    sys.exit(1)
print("PASS")
