"""Per-function CFG with ordered events (DESIGN 2.4, 2.5).

A CFG node is a statement header or a simple statement; each node carries the
list of *events* its evaluation performs, in Python evaluation order:
  call / getprop / setprop / write / raise / assert / unresolved
"""
from __future__ import annotations

import ast
import builtins
from dataclasses import dataclass, field
from typing import Any, Iterable, Optional

from .model import ClassInfo, FunctionInfo, Program, dotted, norm
from .resolve import Callable_, Ctx, Resolver, Type

MUTATORS = {
    "append", "extend", "insert", "pop", "remove", "clear", "update", "setdefault",
    "add", "discard", "sort", "reverse", "popitem", "difference_update",
    "intersection_update", "symmetric_difference_update", "__setitem__", "__delitem__",
    "appendleft", "popleft",
}

FRESH_CALLS = {
    "set", "list", "dict", "tuple", "frozenset", "sorted", "reversed", "len", "int", "float",
    "str", "bool", "abs", "round", "sum", "max", "min", "range", "enumerate", "zip", "repr",
    "isinstance", "hasattr", "any", "all", "type", "id", "hash", "format", "divmod", "iter",
    "map", "filter", "next", "callable", "issubclass", "print",
}


@dataclass
class Event:
    kind: str  # call|getprop|setprop|write|raise|assert|unresolved|reflective
    node: ast.AST
    in_loop: bool = False  # inside a comprehension (may repeat within the statement)
    # call / getprop / setprop
    callees: list = field(default_factory=list)  # [(Callable_, mode)]
    status: str = ""
    # write
    places: list = field(default_factory=list)  # [(owner_qual|'?', field)]
    op: str = ""
    roots: frozenset = frozenset()
    # raise
    exc: str = ""
    text: str = ""
    via: str = ""  # name of the bound callable parameter the call goes through


@dataclass
class Node:
    id: int
    kind: str  # entry|exit|stmt|test|handler|join
    stmt: Optional[ast.AST]
    events: list[Event] = field(default_factory=list)
    succ: set[int] = field(default_factory=set)
    pred: set[int] = field(default_factory=set)
    tries: tuple = ()  # enclosing (try_stmt_id, handler-type-names tuple) where node is in the *body*
    label: str = ""


def exc_covers(P: Program, handler: str, raised: str) -> bool:
    """Does ``except handler`` catch an exception of class ``raised`` (names)?"""
    if handler in ("BaseException", "Exception", ""):
        return True
    if handler == raised:
        return True

    def bases_of(name: str) -> list[str]:
        b = getattr(builtins, name, None)
        if isinstance(b, type) and issubclass(b, BaseException):
            return [k.__name__ for k in b.__mro__]
        out = [name]
        for c in P.classes.values():
            if c.name == name:
                for bb in c.node.bases:
                    d = (dotted(bb) or "").split(".")[-1]
                    if d and d != name:
                        out.extend(bases_of(d))
                break
        return out

    return handler in bases_of(raised)


class FunctionFlow:
    """CFG + events of one callable (function with bindings)."""

    def __init__(self, R: Resolver, call: Callable_):
        self.R = R
        self.P = R.P
        self.call = call
        self.fn = call.fn
        self.ctx: Ctx = R.ctx(call)
        self.nodes: list[Node] = []
        self._loop_stack: list[tuple[int, int]] = []  # (continue target, break target)
        self._roots_cache: dict[int, frozenset] = {}
        self._roots_busy: set[int] = set()
        self._caught_cache: dict[tuple[int, str], tuple] = {}
        self.try_info: dict[int, list] = {}
        self._prev_siblings: list = []
        self._try_stack: list[tuple[int, tuple]] = []
        self.entry = self._new("entry", None)
        self.exit = self._new("exit", None)
        self.raise_exit = self._new("exit", None, label="raise")
        last = self._body(self.fn.node.body, {self.entry.id})
        for n in last:
            self._edge(n, self.exit.id)

    # ---------------------------------------------------------------- graph
    def _new(self, kind: str, stmt: Optional[ast.AST], label: str = "") -> Node:
        n = Node(len(self.nodes), kind, stmt, tries=tuple(self._try_stack), label=label)
        self.nodes.append(n)
        return n

    def _edge(self, a: int, b: int) -> None:
        self.nodes[a].succ.add(b)
        self.nodes[b].pred.add(a)

    def _link(self, preds: Iterable[int], n: Node) -> None:
        for p in preds:
            self._edge(p, n.id)

    def _body(self, body: list[ast.stmt], preds: set[int]) -> set[int]:
        cur = set(preds)
        for i, st in enumerate(body):
            self._prev_siblings = body[:i]
            cur = self._stmt(st, cur)
        return cur

    def _stmt(self, st: ast.stmt, preds: set[int]) -> set[int]:
        if isinstance(st, (ast.FunctionDef, ast.AsyncFunctionDef, ast.ClassDef, ast.Import, ast.ImportFrom, ast.Global, ast.Nonlocal, ast.Pass)):
            n = self._new("stmt", st)
            self._link(preds, n)
            return {n.id}
        if isinstance(st, ast.If):
            t = self._new("test", st)
            self._link(preds, t)
            t.events = self._events_expr(st.test)
            a = self._body(st.body, {t.id})
            b = self._body(st.orelse, {t.id}) if st.orelse else {t.id}
            return a | b
        if isinstance(st, (ast.For, ast.AsyncFor)):
            it = self._new("test", st)
            self._link(preds, it)
            it.events = self._events_expr(st.iter)
            after = self._new("join", None)
            self._loop_stack.append((it.id, after.id))
            body_end = self._body(st.body, {it.id})
            self._loop_stack.pop()
            for b in body_end:
                self._edge(b, it.id)
            else_end = self._body(st.orelse, {it.id}) if st.orelse else {it.id}
            for e in else_end:
                self._edge(e, after.id)
            return {after.id}
        if isinstance(st, ast.While):
            t = self._new("test", st)
            self._link(preds, t)
            t.events = self._events_expr(st.test)
            after = self._new("join", None)
            self._loop_stack.append((t.id, after.id))
            body_end = self._body(st.body, {t.id})
            self._loop_stack.pop()
            for b in body_end:
                self._edge(b, t.id)
            else_end = self._body(st.orelse, {t.id}) if st.orelse else {t.id}
            for e in else_end:
                self._edge(e, after.id)
            return {after.id}
        if isinstance(st, (ast.With, ast.AsyncWith)):
            n = self._new("stmt", st)
            self._link(preds, n)
            ev: list[Event] = []
            for item in st.items:
                ev += self._events_expr(item.context_expr)
            n.events = ev
            return self._body(st.body, {n.id})
        if isinstance(st, ast.Try) or st.__class__.__name__ == "TryStar":
            prev = list(getattr(self, "_prev_siblings", []))
            head = self._new("join", st, label="try")
            self._link(preds, head)
            infos = []
            for h in st.handlers:
                infos.append((tuple(self._handler_names(h)), self._bare_reraise(h), frozenset(self._restores(h, prev))))
            self.try_info[head.id] = infos
            first_body_node = len(self.nodes)
            self._try_stack.append((head.id, tuple(x for names, _r, _s in infos for x in names)))
            body_end = self._body(st.body, {head.id})
            self._try_stack.pop()
            last_body_node = len(self.nodes)
            else_end = self._body(st.orelse, body_end) if st.orelse else body_end
            ends = set(else_end)
            for h in st.handlers:
                hn = self._new("handler", h)
                # any node of the try body may jump to the handler
                self._edge(head.id, hn.id)
                for i in range(first_body_node, last_body_node):
                    self._edge(i, hn.id)
                ends |= self._body(h.body, {hn.id})
            if st.finalbody:
                fin_end = self._body(st.finalbody, ends)
                return fin_end
            return ends
        if isinstance(st, ast.Return):
            n = self._new("stmt", st)
            self._link(preds, n)
            n.events = self._events_expr(st.value) if st.value is not None else []
            self._edge(n.id, self.exit.id)
            return set()
        if isinstance(st, ast.Raise):
            n = self._new("stmt", st)
            self._link(preds, n)
            ev = self._events_expr(st.exc) if st.exc is not None else []
            if not (st.exc is None and self._enclosing_handler(st) is not None):
                # (a bare re-raise is modelled in caught(): the exception of
                # the try body keeps propagating)
                ev.append(Event("raise", st, exc=self._raised_class(st), text=norm(st)))
            n.events = ev
            self._edge(n.id, self.raise_exit.id)
            return set()
        if isinstance(st, ast.Break):
            n = self._new("stmt", st)
            self._link(preds, n)
            if self._loop_stack:
                self._edge(n.id, self._loop_stack[-1][1])
            return set()
        if isinstance(st, ast.Continue):
            n = self._new("stmt", st)
            self._link(preds, n)
            if self._loop_stack:
                self._edge(n.id, self._loop_stack[-1][0])
            return set()
        if isinstance(st, ast.Assert):
            n = self._new("stmt", st)
            self._link(preds, n)
            n.events = self._events_expr(st.test) + [Event("assert", st, text=norm(st.test))]
            return {n.id}
        if isinstance(st, ast.Match):
            t = self._new("test", st)
            self._link(preds, t)
            t.events = self._events_expr(st.subject)
            ends: set[int] = {t.id}
            for case in st.cases:
                ends |= self._body(case.body, {t.id})
            return ends
        # simple statements
        n = self._new("stmt", st)
        self._link(preds, n)
        n.events = self._events_stmt(st)
        return {n.id}

    def _handler_names(self, h: ast.ExceptHandler) -> list[str]:
        if h.type is None:
            return ["BaseException"]
        ts = h.type.elts if isinstance(h.type, ast.Tuple) else [h.type]
        return [(dotted(t) or "Exception").split(".")[-1] for t in ts]

    def _raised_class(self, st: ast.Raise) -> str:
        e = st.exc
        if e is None:
            # bare re-raise: class of the innermost enclosing handler
            h = self._enclosing_handler(st)
            if h is not None:
                nm = self._handler_names(h)
                return nm[0] if nm else "Exception"
            return "Exception"
        if isinstance(e, ast.Call):
            e = e.func
        d = dotted(e)
        if d:
            last = d.split(".")[-1]
            # a variable holding an exception
            if isinstance(e, ast.Name) and not (last[:1].isupper()):
                t = self.R.type_of(e, self.ctx)
                for a in t:
                    if a[0] == "inst":
                        return a[1].split(".")[-1]
                    if a[0] == "ext":
                        return a[1].split(".")[-1]
                return "Exception"
            return last
        return "Exception"

    def _enclosing_handler(self, target: ast.AST) -> Optional[ast.ExceptHandler]:
        found: list[Optional[ast.ExceptHandler]] = [None]

        def walk(n: ast.AST, h: Optional[ast.ExceptHandler]) -> bool:
            if n is target:
                found[0] = h
                return True
            for ch in ast.iter_child_nodes(n):
                if isinstance(ch, (ast.FunctionDef, ast.ClassDef, ast.Lambda)) and ch is not self.fn.node:
                    continue
                if walk(ch, ch if isinstance(ch, ast.ExceptHandler) else h):
                    return True
            return False

        walk(self.fn.node, None)
        return found[0]

    # --------------------------------------------------------------- events
    def _events_stmt(self, st: ast.stmt) -> list[Event]:
        ev: list[Event] = []
        if isinstance(st, ast.Expr):
            return self._events_expr(st.value)
        if isinstance(st, ast.Assign):
            ev += self._events_expr(st.value)
            for t in st.targets:
                ev += self._events_target(t, st, "assign")
            return ev
        if isinstance(st, ast.AnnAssign):
            if st.value is not None:
                ev += self._events_expr(st.value)
                ev += self._events_target(st.target, st, "assign")
            return ev
        if isinstance(st, ast.AugAssign):
            ev += self._events_expr(st.value)
            # the target is read first
            if isinstance(st.target, (ast.Attribute, ast.Subscript)):
                ev += self._events_expr(st.target)
            ev += self._events_target(st.target, st, "augassign")
            return ev
        if isinstance(st, ast.Delete):
            for t in st.targets:
                ev += self._events_target(t, st, "del")
            return ev
        return ev

    def _events_target(self, t: ast.AST, st: ast.AST, op: str) -> list[Event]:
        ev: list[Event] = []
        R, ctx = self.R, self.ctx
        if isinstance(t, (ast.Tuple, ast.List)):
            for e in t.elts:
                ev += self._events_target(e.value if isinstance(e, ast.Starred) else e, st, op)
            return ev
        if isinstance(t, ast.Starred):
            return self._events_target(t.value, st, op)
        if isinstance(t, ast.Name):
            if op == "augassign":
                tt = R.type_of(t, ctx)
                if any(a[0] in ("list", "set", "dict") for a in tt):
                    pl = self.place(t)
                    if pl:
                        ev.append(Event("write", st, places=pl, op="augassign", roots=self.roots(t), text=norm(st)))
            return ev
        if isinstance(t, ast.Attribute):
            ev += self._events_expr(t.value)
            setters = R.property_setters(t, ctx) if op != "del" else []
            if setters:
                ev.append(Event("setprop", st, callees=[(R.effective(f), "bound") for f in setters], status="ok", text=norm(st)))
                return ev
            ev.append(Event("write", st, places=self.field_of(t), op=op, roots=self.roots(t.value), text=norm(st)))
            return ev
        if isinstance(t, ast.Subscript):
            ev += self._events_expr(t.value)
            ev += self._events_expr(t.slice)
            vt = R.type_of(t.value, ctx)
            handled = False
            for c in R.classes_of(vt):
                meth = "__delitem__" if op == "del" else "__setitem__"
                fs = self.P.lookup_method_with_overrides(c, meth)
                if fs:
                    handled = True
                    ev.append(Event("call", st, callees=[(R.effective(f), "bound") for f in fs], status="ok", text=norm(st)))
                elif R.dict_base(c) is not None:
                    handled = True
                    ev.append(Event("write", st, places=[(self._owner_norm(c, "[]"), "[]")], op="setitem" if op != "del" else "delitem", roots=self.roots(t.value), text=norm(st)))
            if not handled:
                pl = self.place(t.value)
                if pl:
                    ev.append(Event("write", st, places=pl, op=("delitem" if op == "del" else "setitem"), roots=self.roots(t.value), text=norm(st)))
            return ev
        return ev

    def _events_expr(self, e: Optional[ast.AST], in_loop: bool = False) -> list[Event]:
        ev: list[Event] = []
        if e is None:
            return ev
        R, ctx = self.R, self.ctx

        def visit(n: ast.AST, loop: bool) -> None:
            if isinstance(n, ast.Lambda):
                return
            if isinstance(n, (ast.ListComp, ast.SetComp, ast.GeneratorExp, ast.DictComp)):
                for i, g in enumerate(n.generators):
                    visit(g.iter, loop if i == 0 else True)
                    for c in g.ifs:
                        visit(c, True)
                if isinstance(n, ast.DictComp):
                    visit(n.key, True)
                    visit(n.value, True)
                else:
                    visit(n.elt, True)
                return
            if isinstance(n, ast.Call):
                # func expression (receiver), then arguments, then the call
                if isinstance(n.func, ast.Attribute):
                    visit(n.func.value, loop)
                elif not isinstance(n.func, ast.Name):
                    visit(n.func, loop)
                for a in n.args:
                    visit(a.value if isinstance(a, ast.Starred) else a, loop)
                for k in n.keywords:
                    visit(k.value, loop)
                self._call_event(n, ev, loop)
                return
            if isinstance(n, ast.Attribute):
                visit(n.value, loop)
                if isinstance(n.ctx, ast.Load):
                    gs = R.property_getters(n, ctx)
                    if gs:
                        ev.append(Event("getprop", n, in_loop=loop, callees=[(R.effective(f), "bound") for f in gs], status="ok", text=norm(n)))
                return
            if isinstance(n, ast.Subscript):
                visit(n.value, loop)
                visit(n.slice, loop)
                if isinstance(n.ctx, ast.Load):
                    vt = R.type_of(n.value, ctx)
                    cs = []
                    for c in R.classes_of(vt):
                        for f in self.P.lookup_method_with_overrides(c, "__getitem__"):
                            cs.append((R.effective(f), "bound"))
                    if cs:
                        ev.append(Event("call", n, in_loop=loop, callees=Resolver._dedup(cs), status="ok", text=norm(n)))
                return
            if isinstance(n, ast.NamedExpr):
                visit(n.value, loop)
                return
            for ch in ast.iter_child_nodes(n):
                if isinstance(ch, (ast.expr_context, ast.operator, ast.cmpop, ast.boolop, ast.unaryop)):
                    continue
                visit(ch, loop)

        visit(e, in_loop)
        return ev

    def _call_event(self, n: ast.Call, ev: list[Event], loop: bool) -> None:
        R, ctx = self.R, self.ctx
        fd = dotted(n.func) or ""
        # object.__setattr__(x, "name", v) is an attribute write
        if fd in ("object.__setattr__", "setattr") and len(n.args) == 3:
            tgt = n.args[0]
            name = n.args[1].value if isinstance(n.args[1], ast.Constant) else "*"
            owners = [self._owner_norm(c, str(name)) for c in R.classes_of(R.type_of(tgt, ctx))] or ["?"]
            ev.append(Event("write", n, in_loop=loop, places=[(o, str(name)) for o in owners], op="setattr", roots=self.roots(tgt), text=norm(n)))
            return
        # container mutation through a method
        if isinstance(n.func, ast.Attribute) and n.func.attr in MUTATORS:
            vt = R.type_of(n.func.value, ctx)
            proj = [c for c in R.classes_of(vt) if self.P.lookup_method(c, n.func.attr)]
            if not proj:
                pl = self.place(n.func.value)
                dictlike = [c for c in R.classes_of(vt) if R.dict_base(c) is not None]
                if dictlike and not pl:
                    pl = [(self._owner_norm(c, "[]"), "[]") for c in dictlike]
                if pl:
                    ev.append(Event("write", n, in_loop=loop, places=pl, op="call:" + n.func.attr, roots=self.roots(n.func.value), text=norm(n)))
                return
        cs, status = R.callees(n, ctx)
        if status == "reflective":
            ev.append(Event("reflective", n, in_loop=loop, status=status, text=norm(n)))
            return
        if cs:
            via = ""
            if isinstance(n.func, ast.Name) and ctx.call.bound(n.func.id) is not None:
                via = n.func.id
            ev.append(Event("call", n, in_loop=loop, callees=cs, status="ok", text=norm(n), via=via))
        elif status == "unresolved":
            ev.append(Event("unresolved", n, in_loop=loop, status=status, text=norm(n.func)))

    # --------------------------------------------------------------- places
    def _owner_norm(self, c: ClassInfo, fld: str) -> str:
        """Topmost class along the MRO that declares/assigns ``fld``."""
        best = c
        for k in self.P.mro(c):
            if fld in k.fields or self._assigns_self_attr(k, fld) or (fld == "[]" and self.R.dict_base(k) is not None):
                best = k
        return best.qualname

    _assign_cache: dict = {}

    def _assigns_self_attr(self, k: ClassInfo, fld: str) -> bool:
        key = k.qualname
        cache = FunctionFlow._assign_cache
        if key not in cache:
            names: set[str] = set()
            for fs in k.methods.values():
                for f in fs:
                    a = f.node.args
                    pos = a.posonlyargs + a.args
                    if not pos or f.kind == "staticmethod":
                        continue
                    sn = pos[0].arg
                    for n in ast.walk(f.node):
                        if isinstance(n, ast.Attribute) and isinstance(n.ctx, ast.Store) and isinstance(n.value, ast.Name) and n.value.id == sn:
                            names.add(n.attr)
                        if isinstance(n, ast.Call) and (dotted(n.func) or "") == "object.__setattr__" and len(n.args) == 3 and isinstance(n.args[1], ast.Constant):
                            names.add(str(n.args[1].value))
            cache[key] = names
        return fld in cache[key]

    def field_of(self, t: ast.Attribute) -> list[tuple[str, str]]:
        cs = self.R.classes_of(self.R.type_of(t.value, self.ctx))
        if not cs:
            return [("?", t.attr)]
        return sorted({(self._owner_norm(c, t.attr), t.attr) for c in cs})

    def place(self, e: ast.AST, _d: int = 0) -> list[tuple[str, str]]:
        """Which field storage does the (container-valued) expression denote?"""
        if _d > 8:
            return []
        R, ctx = self.R, self.ctx
        if isinstance(e, ast.Attribute):
            return self.field_of(e)
        if isinstance(e, ast.Subscript):
            vt = R.type_of(e.value, ctx)
            out = []
            for c in R.classes_of(vt):
                if R.dict_base(c) is not None or self.P.lookup_method(c, "__getitem__"):
                    out.append((self._owner_norm(c, "[]"), "[]"))
            if out:
                return out
            return self.place(e.value, _d + 1)
        if isinstance(e, ast.Name):
            if ctx.is_param(e.id):
                return [("?param:" + e.id, "<obj>")]
            out = []
            for kind, v in ctx.local_defs().get(e.id, []):
                if kind == "assign" and isinstance(v, (ast.Attribute, ast.Subscript, ast.Name, ast.Call, ast.IfExp)):
                    out += self.place(v, _d + 1)
                elif kind == "iter":
                    out += self.place(v, _d + 1)
                elif kind == "unpack":
                    k2, val, path = v
                    if k2 in ("assign", "iter") and isinstance(val, (ast.Attribute, ast.Subscript, ast.Name, ast.Call)):
                        out += self.place(val, _d + 1)
            return sorted(set(out))
        if isinstance(e, ast.IfExp):
            return sorted(set(self.place(e.body, _d + 1) + self.place(e.orelse, _d + 1)))
        if isinstance(e, ast.Call):
            fd = dotted(e.func) or ""
            if fd.split(".")[-1] == "cast" and len(e.args) == 2:
                return self.place(e.args[1], _d + 1)
            if isinstance(e.func, ast.Attribute) and e.func.attr in ("items", "values", "keys", "get", "setdefault"):
                return self.place(e.func.value, _d + 1)
            if fd in ("reversed", "enumerate", "iter", "chain", "itertools.chain", "zip"):
                out = []
                for a in e.args:
                    out += self.place(a, _d + 1)
                return out
        return []

    # ---------------------------------------------------------------- roots
    def roots(self, e: ast.AST, _d: int = 0) -> frozenset:
        """Where may the object denoted by ``e`` come from?

        atoms: 'self', 'param:<n>', 'fresh', 'global', 'unk', 'outer:<...>'
        """
        k = id(e)
        hit = self._roots_cache.get(k)
        if hit is not None:
            return hit
        if k in self._roots_busy:
            return frozenset()
        self._roots_busy.add(k)
        try:
            r = self._roots(e, _d)
        finally:
            self._roots_busy.discard(k)
        if not self._roots_busy:
            self._roots_cache[k] = r
        return r

    def _roots(self, e: ast.AST, _d: int = 0) -> frozenset:
        if _d > 40:
            return frozenset({"unk"})
        R, ctx = self.R, self.ctx
        if isinstance(e, ast.Constant):
            return frozenset({"fresh"})
        if isinstance(e, ast.Name):
            nm = e.id
            if ctx.call.bound(nm) is not None:
                return frozenset({"global"})
            if ctx.is_param(nm):
                a = ctx.fn.node.args
                pos = a.posonlyargs + a.args
                if ctx.self_name() == nm or (pos and pos[0].arg == nm and nm == "self"):
                    return frozenset({"self"})
                return frozenset({"param:" + nm})
            defs = ctx.local_defs().get(nm)
            if defs:
                out: set = set()
                for kind, v in defs:
                    if kind in ("assign", "iter", "with"):
                        out |= self.roots(v, _d + 1)
                    elif kind == "unpack":
                        out |= self.roots(v[1], _d + 1)
                    elif kind == "nested":
                        out.add("global")
                    elif kind == "except":
                        out.add("fresh")
                return frozenset(out) or frozenset({"unk"})
            p = ctx.parent_ctx()
            if p is not None and (nm in p.fn.params or nm in p.local_defs()):
                pf = flow_of(R, Callable_(p.fn, ()))
                return frozenset("outer:" + r if r in ("self",) or r.startswith("param:") else r for r in pf.roots(e, _d + 1))
            return frozenset({"global"})
        if isinstance(e, (ast.Attribute, ast.Subscript, ast.Starred)):
            return self.roots(e.value, _d + 1)
        if isinstance(e, (ast.List, ast.Tuple, ast.Set, ast.Dict, ast.ListComp, ast.SetComp, ast.DictComp, ast.GeneratorExp, ast.JoinedStr, ast.Compare, ast.Lambda)):
            return frozenset({"fresh"})
        if isinstance(e, ast.BinOp):
            return frozenset({"fresh"})
        if isinstance(e, ast.UnaryOp):
            return frozenset({"fresh"})
        if isinstance(e, ast.IfExp):
            return self.roots(e.body, _d + 1) | self.roots(e.orelse, _d + 1)
        if isinstance(e, ast.BoolOp):
            out = set()
            for v in e.values:
                out |= self.roots(v, _d + 1)
            return frozenset(out)
        if isinstance(e, ast.NamedExpr):
            return self.roots(e.value, _d + 1)
        if isinstance(e, ast.Call):
            fd = dotted(e.func) or ""
            last = fd.split(".")[-1]
            if last == "cast" and len(e.args) == 2:
                return self.roots(e.args[1], _d + 1)
            if fd in FRESH_CALLS or fd in ("copy.copy", "copy.deepcopy", "deepcopy"):
                return frozenset({"fresh"})
            if fd == "getattr" and e.args:
                return self.roots(e.args[0], _d + 1)
            ft = R.type_of(e.func, ctx)
            if ft and all(a[0] == "cls" for a in ft):
                return frozenset({"fresh"})
            if isinstance(e.func, ast.Call) and (dotted(e.func.func) or "") == "type":
                return frozenset({"fresh"})
            rt = R.type_of(e, ctx)
            if rt and all(a[0] in ("num", "str", "bool", "none") for a in rt):
                return frozenset({"fresh"})
            if ft and all(a[0] == "ext" for a in ft) and not any(
                a[1].split(".")[-1] in ("chain", "cast", "reversed", "islice", "cycle", "tee", "itemgetter", "attrgetter") for a in ft
            ):
                return frozenset({"fresh"})
            cs, _status = R.callees(e, ctx)
            if cs:
                out = set()
                for cal, mode in cs:
                    if mode == "ctor":
                        out.add("fresh")
                        continue
                    bind = bind_args(e, cal.fn, mode)
                    for r in return_roots(R, cal):
                        if r in ("fresh", "global", "unk"):
                            out.add(r)
                            continue
                        if r.startswith("outer:"):
                            out.add(r[len("outer:"):] if cal.fn.parent is self.fn else "unk")
                            continue
                        pn = self_param(cal.fn) if r == "self" else r[len("param:"):]
                        x = bind.get(pn) if pn else None
                        if isinstance(x, ast.AST):
                            if isinstance(x, ast.Call) and (dotted(x.func) or "") == "super":
                                out.add("self")
                            else:
                                out |= self.roots(x, _d + 1)
                        elif x == "<fresh>":
                            out.add("fresh")
                        elif pn and pn in cal.fn.param_defaults():
                            out.add("global")
                        else:
                            out.add("unk")
                return frozenset(out) or frozenset({"fresh"})
            out = set()
            if isinstance(e.func, ast.Attribute):
                out |= self.roots(e.func.value, _d + 1)
            for a in e.args:
                out |= self.roots(a, _d + 1)
            for k in e.keywords:
                out |= self.roots(k.value, _d + 1)
            out.discard("fresh")
            return frozenset(out) or frozenset({"fresh"})
        return frozenset({"unk"})

    # ------------------------------------------------------------ utilities
    def reachable_from(self, nid: int) -> set[int]:
        """Nodes reachable from ``nid`` by >= 1 edge."""
        seen: set[int] = set()
        stack = list(self.nodes[nid].succ)
        while stack:
            x = stack.pop()
            if x in seen:
                continue
            seen.add(x)
            stack.extend(self.nodes[x].succ)
        return seen

    def dominators(self) -> dict[int, set[int]]:
        ids = [n.id for n in self.nodes]
        reach = {self.entry.id} | self.reachable_from(self.entry.id)
        dom = {i: set(reach) for i in reach}
        dom[self.entry.id] = {self.entry.id}
        changed = True
        order = sorted(reach)
        while changed:
            changed = False
            for i in order:
                if i == self.entry.id:
                    continue
                ps = [p for p in self.nodes[i].pred if p in reach]
                if not ps:
                    continue
                new = set.intersection(*(dom[p] for p in ps)) | {i}
                if new != dom[i]:
                    dom[i] = new
                    changed = True
        return dom

    def _bare_reraise(self, h: ast.ExceptHandler) -> bool:
        """Handler ends by re-raising the exception it caught (bare ``raise``)."""
        for n in ast.walk(h):
            if isinstance(n, ast.Raise) and n.exc is None:
                return True
        return False

    def _restores(self, h: ast.ExceptHandler, prev: list[ast.stmt]) -> set[tuple[str, str, str]]:
        """Fields restored by a handler: ``X.f = saved`` where ``saved = X.f`` is a
        statement preceding the ``try`` in the same block and ``saved`` has no other definition.
        Returned as (owner, field, receiver text)."""
        out: set[tuple[str, str, str]] = set()
        last = h.body[-1] if h.body else None
        if not (isinstance(last, ast.Raise) and last.exc is None):
            return out
        saved: dict[str, ast.Attribute] = {}
        for st in prev:
            if isinstance(st, ast.Assign) and len(st.targets) == 1 and isinstance(st.targets[0], ast.Name) and isinstance(st.value, ast.Attribute):
                saved[st.targets[0].id] = st.value
        for st in h.body:
            if isinstance(st, ast.Assign) and len(st.targets) == 1 and isinstance(st.targets[0], ast.Attribute) and isinstance(st.value, ast.Name):
                t = st.targets[0]
                v = st.value.id
                if v in saved and norm(saved[v]) == norm(t) and len(self.ctx.local_defs().get(v, [])) == 1:
                    for owner, fld in self.field_of(t):
                        out.add((owner, fld, norm(t.value)))
        return out

    def caught(self, node: Node, exc: str) -> bool:
        """Is an exception of class ``exc`` escaping this node swallowed/converted inside the function?"""
        return self.escape(node, exc)[0] is False

    def escape(self, node: Node, exc: str) -> tuple[bool, frozenset]:
        """(escapes?, fields restored by re-raising handlers on the way out)."""
        k = (node.id, exc)
        hit = self._caught_cache.get(k)
        if hit is None:
            restored: set = set()
            escapes = True
            for tid, _names in reversed(node.tries):
                stop = False
                for names, reraise, restores in self.try_info.get(tid, []):
                    if any(exc_covers(self.P, h, exc) for h in names):
                        if reraise:
                            restored |= restores
                        else:
                            escapes = False
                        stop = not reraise
                        break
                if stop:
                    break
            hit = (escapes, frozenset(restored))
            self._caught_cache[k] = hit
        return hit

    # ----------------------------------------------------- reaching defs
    def _node_defs(self) -> dict[int, dict[str, ast.AST]]:
        """node id -> {name: defining statement} for plain-name bindings made by the node."""
        if hasattr(self, "_ndefs"):
            return self._ndefs  # type: ignore[has-type]
        out: dict[int, dict[str, ast.AST]] = {}

        def names(t: ast.AST) -> list[str]:
            if isinstance(t, ast.Name):
                return [t.id]
            if isinstance(t, (ast.Tuple, ast.List)):
                return [x for e in t.elts for x in names(e.value if isinstance(e, ast.Starred) else e)]
            return []

        for n in self.nodes:
            st = n.stmt
            d: dict[str, ast.AST] = {}
            if n.kind == "stmt":
                if isinstance(st, ast.Assign):
                    for t in st.targets:
                        for nm in names(t):
                            d[nm] = st
                elif isinstance(st, (ast.AnnAssign, ast.AugAssign)) and isinstance(st.target, ast.Name):
                    if not (isinstance(st, ast.AnnAssign) and st.value is None):
                        d[st.target.id] = st
                elif isinstance(st, (ast.With, ast.AsyncWith)):
                    for it in st.items:
                        if it.optional_vars is not None:
                            for nm in names(it.optional_vars):
                                d[nm] = st
            elif n.kind == "test" and isinstance(st, (ast.For, ast.AsyncFor)):
                for nm in names(st.target):
                    d[nm] = st
            elif n.kind == "handler" and isinstance(st, ast.ExceptHandler) and st.name:
                d[st.name] = st
            if d:
                out[n.id] = d
        self._ndefs = out
        return out

    def reaching_defs(self, nid: int, name: str) -> set:
        """Definitions of ``name`` that may reach the *start* of node ``nid``:
        a set of statements, plus the string 'param' / 'undef' for the entry value."""
        key = name
        cache = getattr(self, "_rd_cache", None)
        if cache is None:
            cache = self._rd_cache = {}
        if key not in cache:
            nd = self._node_defs()
            IN: dict[int, frozenset] = {n.id: frozenset() for n in self.nodes}
            OUT: dict[int, frozenset] = {n.id: frozenset() for n in self.nodes}
            entry_val = frozenset({"param" if self.ctx.is_param(name) else "undef"})
            changed = True
            while changed:
                changed = False
                for n in self.nodes:
                    if n.id == self.entry.id:
                        i = entry_val
                    else:
                        i = frozenset().union(*(OUT[p] for p in n.pred)) if n.pred else frozenset()
                    d = nd.get(n.id, {}).get(name)
                    o = frozenset({d}) if d is not None else i
                    if i != IN[n.id] or o != OUT[n.id]:
                        IN[n.id] = i
                        OUT[n.id] = o
                        changed = True
            cache[key] = IN
        return set(cache[key][nid])

    def node_of(self, target: ast.AST) -> Optional[Node]:
        """CFG node whose statement/test contains ``target``."""
        idx = getattr(self, "_node_index", None)
        if idx is None:
            idx = self._node_index = {}
            for n in self.nodes:
                st = n.stmt
                if st is None:
                    continue
                if n.kind == "test":
                    hdr = getattr(st, "test", None) or getattr(st, "iter", None) or getattr(st, "subject", None)
                    roots = [hdr] if hdr is not None else []
                elif n.kind == "stmt" and isinstance(st, (ast.With, ast.AsyncWith)):
                    roots = [it.context_expr for it in st.items]
                elif n.kind in ("handler", "join"):
                    roots = []
                elif isinstance(st, (ast.FunctionDef, ast.AsyncFunctionDef, ast.ClassDef)):
                    roots = []
                else:
                    roots = [st]
                for r in roots:
                    for sub in ast.walk(r):
                        idx.setdefault(id(sub), n)
        return idx.get(id(target))

    def all_events(self) -> Iterable[tuple[Node, int, Event]]:
        for n in self.nodes:
            for i, e in enumerate(n.events):
                yield n, i, e


_FLOW_CACHE: dict[tuple[int, str], FunctionFlow] = {}
_RET_CACHE: dict[tuple[int, str], frozenset] = {}
_RET_BUSY: set = set()


def self_param(f: FunctionInfo) -> Optional[str]:
    a = f.node.args
    pos = a.posonlyargs + a.args
    if not pos:
        return None
    if f.cls is not None and f.parent is None and f.kind != "staticmethod":
        return pos[0].arg
    if pos[0].arg == "self":
        return "self"
    return None


def bind_args(n: ast.Call, callee: FunctionInfo, mode: str) -> dict:
    """param name -> argument expression of a Call node ('<fresh>' for a constructed self)."""
    a = callee.node.args
    params = [x.arg for x in a.posonlyargs + a.args]
    full: list = []
    if mode in ("bound", "ctor"):
        full.append("<fresh>" if mode == "ctor" else (n.func.value if isinstance(n.func, ast.Attribute) else None))
    full += list(n.args)
    out: dict = {}
    for i, pn in enumerate(params):
        if i < len(full):
            if any(isinstance(x, ast.Starred) for x in full[: i + 1]):
                break
            out[pn] = full[i]
    for kw in n.keywords:
        if kw.arg is not None:
            out[kw.arg] = kw.value
    return out


def return_roots(R: Resolver, c: Callable_) -> frozenset:
    """Roots (in the callee's own frame) of everything the callable may return."""
    k = (id(R), c.key)
    if k in _RET_CACHE:
        return _RET_CACHE[k]
    if k in _RET_BUSY:
        return frozenset()
    _RET_BUSY.add(k)
    try:
        fl = flow_of(R, c)
        out: set = set()
        if c.fn.kind in ("property", "cached_property") or True:
            for n in ast.walk(c.fn.node):
                if isinstance(n, (ast.FunctionDef, ast.AsyncFunctionDef, ast.Lambda)) and n is not c.fn.node:
                    continue
            stack = list(c.fn.node.body)
            while stack:
                n = stack.pop()
                if isinstance(n, (ast.FunctionDef, ast.AsyncFunctionDef, ast.ClassDef, ast.Lambda)):
                    continue
                if isinstance(n, ast.Return) and n.value is not None:
                    out |= fl.roots(n.value)
                elif isinstance(n, (ast.Yield, ast.YieldFrom)) and n.value is not None:
                    out |= fl.roots(n.value)
                stack.extend(ast.iter_child_nodes(n))
        res = frozenset(out) or frozenset({"fresh"})
    finally:
        _RET_BUSY.discard(k)
    if not _RET_BUSY:
        _RET_CACHE[k] = res
    return res


def flow_of(R: Resolver, c: Callable_ | FunctionInfo) -> FunctionFlow:
    if isinstance(c, FunctionInfo):
        c = Callable_(c, ())
    k = (id(R), c.key)
    if k not in _FLOW_CACHE:
        _FLOW_CACHE[k] = FunctionFlow(R, c)
    return _FLOW_CACHE[k]
