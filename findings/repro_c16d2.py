"""C16: a pulse has its phase in [0, 2pi).  Pulse.__init__ reduces the phase
with a single `% (2 * np.pi)`.  For a tiny negative phase the exact result
2pi - eps is not representable and rounds UP to 2pi itself, so the stored
phase (and post_phase_shift) is 2pi, outside the half-open interval.  Such
phases arise naturally from rounding, e.g. in Pulse.ArbitraryPhase where the
offset is `phase[0] + detuning[0] * 1e-3`."""
import sys

import numpy as np

from pulser import Pulse
from pulser.waveforms import ConstantWaveform, CustomWaveform, RampWaveform

TWO_PI = 2 * np.pi
problems = []


def check(label, pulse):
    ph = float(pulse.phase)
    pps = float(pulse.post_phase_shift)
    if not 0 <= ph < TWO_PI:
        problems.append(f"{label}: phase = {ph!r} (2pi = {TWO_PI!r})")
    if not 0 <= pps < TWO_PI:
        problems.append(f"{label}: post_phase_shift = {pps!r}")


for tiny in (-1e-17, -1e-20, -4e-16, -1e-300):
    check(f"ConstantPulse(phase={tiny})", Pulse.ConstantPulse(10, 1.0, 0.0, tiny))
    check(
        f"ConstantPulse(post_phase_shift={tiny})",
        Pulse.ConstantPulse(10, 1.0, 0.0, 0.0, post_phase_shift=tiny),
    )
    check(
        f"Pulse(phase={tiny})",
        Pulse(ConstantWaveform(10, 1.0), RampWaveform(10, -1, 1), tiny),
    )

# The same happens with no negative number in the user's input: the phase
# offset of an arbitrary-phase pulse is phase[0] - slope, which is a rounding
# residue (about -1e-17) when the ramp's slope equals its first value.
check(
    "ArbitraryPhase(Ramp(4, 0.1, 0.4))",
    Pulse.ArbitraryPhase(ConstantWaveform(4, 1.0), RampWaveform(4, 0.1, 0.4)),
)
check(
    "ArbitraryPhase(Custom(linspace(0.7, 2.8, 4)))",
    Pulse.ArbitraryPhase(
        ConstantWaveform(4, 1.0), CustomWaveform(np.linspace(0.7, 2.8, 4))
    ),
)

# Sanity: ordinary values are still reduced as before
for ph in (0.0, 1.0, -1.0, 7.0, TWO_PI, -TWO_PI, 4 * np.pi + 0.5):
    p = Pulse.ConstantPulse(10, 1.0, 0.0, ph, post_phase_shift=ph)
    check(f"ConstantPulse(phase={ph})", p)
    if not np.isclose(np.exp(1j * float(p.phase)), np.exp(1j * ph)):
        problems.append(f"phase {ph} not preserved modulo 2pi: {p.phase}")

if problems:
    print("FAIL")
    for p in problems:
        print("  ", p)
    sys.exit(1)
print("PASS")
