"""C18: switch_device crashed with IndexError when config_slm_mask was recorded with its default dmm_id.

The replay in build_sequence_from_matching read `sw_channel_args[1]` for config_slm_mask, whose second
parameter has a default: `seq.config_slm_mask(["q0"])` records a single positional argument.
Found by rule ARGS (pstatic/rules/c18.py).  Exits 1 when the defect is present.
"""
import sys

import pulser
from pulser import Pulse, Register, Sequence
from pulser.devices import DigitalAnalogDevice, MockDevice

reg = Register.square(2, 5, prefix="q")
seq = Sequence(reg, DigitalAnalogDevice)
seq.declare_channel("ch", "rydberg_global")
seq.config_slm_mask(["q0"])
seq.add(Pulse.ConstantPulse(100, 1, 0, 0), "ch")
try:
    new = seq.switch_device(MockDevice)
except IndexError as e:
    print("DEFECT: switch_device raised IndexError:", e)
    sys.exit(1)
assert new._slm_mask_targets == {"q0"} and "dmm_0" in new.declared_channels
print("ok: the SLM mask is replayed on the new device")
