"""C08: Variable.__getitem__ accepts a sequence of indices and stores it as a list, but VariableItem is a frozen
dataclass whose generated hash includes the key: `seq.target_index(var[[0, 2]], ch)` raises TypeError (unhashable type:
'list') in Sequence._target, although the direct call target_index([0, 2], ch) is valid and the abstract
representation has a form for it.  Exit 1 when the defect is present."""
import sys
from pulser import Pulse, Register, Sequence
from pulser.devices import MockDevice

reg = Register.square(2, spacing=6, prefix="q")
direct = Sequence(reg, MockDevice)
direct.declare_channel("ram", "raman_local", initial_target="q0")
direct.target_index([0, 2], "ram")

seq = Sequence(reg, MockDevice)
seq.declare_channel("ram", "raman_local", initial_target="q0")
v = seq.declare_variable("t", dtype=int, size=3)
try:
    seq.target_index(v[[0, 2]], "ram")
except TypeError as e:
    print("FAIL: target_index(var[[0, 2]]) raised TypeError:", e)
    sys.exit(1)
seq.add(Pulse.ConstantPulse(100, 1.0, 0.0, 0.0), "ram")
built = seq.build(t=[0, 1, 2])
same = built._schedule["ram"].slots[-1].targets == direct._schedule["ram"].slots[-1].targets
back = Sequence.from_abstract_repr(seq.to_abstract_repr()).build(t=[0, 1, 2])
same2 = back._schedule["ram"].slots[-1].targets == built._schedule["ram"].slots[-1].targets
print("built == direct:", same, "; abstract round trip:", same2)
sys.exit(0 if same and same2 else 1)
