"""C08: a parametrized sequence whose SLM mask was configured with `qubits=` by keyword could not be queried.

On a parametrized sequence config_slm_mask is only stored; Sequence.declared_channels and add_dmm_detuning
then read the stored call through _get_dmm_id_detuning_map, which indexed call.args[0] and raised IndexError
for `seq.config_slm_mask(qubits=[...])` -- a call the direct (non-parametrized) construction accepts.
Found by rule ARGS (pstatic/callargs.py).  Exits 1 when the defect is present.
"""
import sys

from pulser import Pulse, Register, Sequence
from pulser.devices import DigitalAnalogDevice
from pulser.waveforms import ConstantWaveform

reg = Register.square(2, 5, prefix="q")
seq = Sequence(reg, DigitalAnalogDevice)
seq.declare_channel("ch", "rydberg_global")
d = seq.declare_variable("d", dtype=int)
seq.add(Pulse.ConstantPulse(d, 1, 0, 0), "ch")
seq.config_slm_mask(qubits=["q0"])
try:
    chs = list(seq.declared_channels)
    seq.add_dmm_detuning(ConstantWaveform(100, -1), "dmm_0")
except IndexError as e:
    print("DEFECT: IndexError while reading the stored config_slm_mask call:", e)
    sys.exit(1)
assert chs == ["ch", "dmm_0"], chs
built = seq.build(d=100)
assert list(built.declared_channels) == ["ch", "dmm_0"]
print("ok:", chs)
