"""C09: config_slm_mask failed -- and left its DMM declared -- when a second Global channel held no samples.

Sequence._set_slm_mask_dmm configures the DMM of the SLM mask and then takes np.max over the samples of every Global
channel up to the end of the mask.  A Global channel that was declared but not used yet has no samples:
np.max raised ValueError('zero-size array to reduction operation maximum which has no identity') after the DMM had
been declared.  A valid call was refused, and the refused call changed the sequence (dmm_0 declared and scheduled).
Found by rule TOTAL (pstatic/rules/c09.py), written after an independent agent's remark.  Exits 1 when present.
"""
import sys
import warnings

from pulser import Pulse, Register, Sequence
from pulser.devices import MockDevice

warnings.filterwarnings("ignore")
seq = Sequence(Register.square(2, prefix="q", spacing=6), MockDevice)
seq.declare_channel("a", "rydberg_global")
seq.declare_channel("b", "rydberg_global")  # declared, never used
seq.add(Pulse.ConstantPulse(100, 1.0, 0, 0), "a")
before = list(seq.declared_channels)
try:
    seq.config_slm_mask(["q0"])
except ValueError as e:
    print(f"DEFECT PRESENT: config_slm_mask raised {e!s:.60}...; declared channels {before} -> {list(seq.declared_channels)}")
    sys.exit(1)
if "dmm_0" not in seq.declared_channels:
    print("DEFECT PRESENT: SLM mask accepted but no DMM configured")
    sys.exit(1)
print("ok: the SLM mask is configured with an unused Global channel present")
