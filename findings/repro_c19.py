"""C19: two traps closer than the coordinate precision share one identity.
cd /tmp && PYTHONPATH=/repo/pulser-core:/repo/pulser-simulation /venv/bin/python -W ignore /verif/findings/repro_c19.py"""
from pulser.register.register_layout import RegisterLayout

try:
    lay = RegisterLayout([(0, 0), (3e-7, 0), (5, 0)])
    ids = lay.get_traps_from_coordinates(lay.coords[0], lay.coords[1])
    reg = lay.define_register(0, 1)
    print("near_tie_traps:", f"VIOLATED (accepted; looking up the coordinates of traps 0 and 1 returns ids {ids}; register places both qubits on {reg.sorted_coords.tolist()})")
except ValueError as e:
    print("near_tie_traps: holds (", e, ")")
