"""C19: WeightMap.trap_coordinates handed out the cached coordinate array of a frozen map.

CoordsCollection.sorted_coords copies "to prevent direct access to self._sorted_coords", but its sibling
WeightMap.trap_coordinates returned self._coords_arr.as_array(detach=True) -- np.asarray, no copy.  Editing the
result in place (e.g. centring the points for a plot) changed the map's canonical coordinates whenever they had not
been cached yet: trap order, ==, hash and the weight each qubit receives then depended on that edit, not on the
coordinates the map was built from.
Found by rule ALIAS (pstatic/rules/c19.py).  Exits 1 when the defect is present.
"""
import sys

import numpy as np
from pulser.register.weight_maps import DetuningMap

coords, weights = [[0.0, 0.0], [1.0, 0.0], [2.0, 0.0]], [0.1, 0.2, 0.7]
dm = DetuningMap(coords, weights)
pts = dm.trap_coordinates
pts[0, 0] = 5.0  # in-place edit of what the property returned
ref = DetuningMap(coords, weights)
bad = []
if not np.array_equal(dm.sorted_coords, ref.sorted_coords):
    bad.append(f"sorted_coords became {dm.sorted_coords.tolist()}")
if dm != ref:
    bad.append("the map no longer equals a map built from the same coordinates and weights")
w = dm.get_qubit_weight_map({"a": [0.0, 0.0], "b": [5.0, 0.0]})
if w != {"a": 0.1, "b": 0.0}:
    bad.append(f"qubit weights {w} instead of {{'a': 0.1, 'b': 0.0}}")
if bad:
    print("DEFECT PRESENT:", "; ".join(bad))
    sys.exit(1)
print("ok: trap_coordinates returns a copy")
