"""C10: two consecutive pulses of different phase (second one NOT 'no-delay')
must be separated by at least phase_jump_time + the FIRST pulse's fall time.
When the first pulse was played outside EOM mode and the second one is an EOM
pulse, the first pulse's fall time is evaluated as if it had been an EOM pulse
(EOM bandwidth instead of the channel's), so the gap is too short."""
import sys
import warnings

warnings.simplefilter("ignore")

import numpy as np

from pulser import Pulse, Register, Sequence
from pulser.channels import Rydberg
from pulser.channels.eom import RydbergBeam, RydbergEOM
from pulser.devices import VirtualDevice

reg = Register.square(2, spacing=6, prefix="q")


def device(custom_phase_jump_time, custom_buffer_time):
    eom = RydbergEOM(
        mod_bandwidth=40,
        limiting_beam=RydbergBeam.RED,
        max_limiting_amp=40 * 2 * np.pi,
        intermediate_detuning=700 * 2 * np.pi,
        controlled_beams=(RydbergBeam.BLUE,),
        custom_buffer_time=custom_buffer_time,
    )
    ch = Rydberg.Global(
        None,
        None,
        mod_bandwidth=4,
        clock_period=4,
        min_duration=4,
        eom_config=eom,
        custom_phase_jump_time=custom_phase_jump_time,
    )
    return VirtualDevice(
        name="dev", dimensions=2, rydberg_level=60, channel_objects=(ch,)
    )


ok = True
# (custom_phase_jump_time, EOM custom_buffer_time)
for cpjt, cbt in [(None, 4), (None, 100), (1000, None), (1000, 4)]:
    seq = Sequence(reg, device(cpjt, cbt))
    seq.declare_channel("ch", "rydberg_global")
    ch = seq.declared_channels["ch"]
    first = Pulse.ConstantPulse(100, 1.0, 0.0, 0.0)
    seq.add(first, "ch")  # regular (non-EOM) pulse, phase 0
    seq.enable_eom_mode("ch", amp_on=1.0, detuning_on=0.0)
    seq.add_eom_pulse("ch", 100, phase=1.0)  # default 'min-delay' protocol
    sched = seq._schedule["ch"]
    pulses = [
        s
        for s in sched.slots
        if isinstance(s.type, Pulse) and not sched.is_detuned_delay(s.type)
    ]
    assert len(pulses) == 2 and pulses[0].type.phase != pulses[1].type.phase
    gap = pulses[1].ti - pulses[0].tf
    # Fall time of the first pulse, which was NOT played in EOM mode
    fall = first.fall_time(ch, in_eom_mode=False)
    needed = ch.phase_jump_time + fall
    verdict = "ok" if gap >= needed else "TOO SHORT"
    print(
        f"custom_phase_jump_time={cpjt}, custom_buffer_time={cbt}: "
        f"phase_jump_time={ch.phase_jump_time}, first pulse fall time={fall}"
        f" -> gap={gap} ns, needed>={needed} ns  {verdict}"
    )
    ok = ok and gap >= needed

if ok:
    print("PASS")
    sys.exit(0)
print("FAIL: phase jump scheduled before phase_jump_time + fall time elapsed")
sys.exit(1)
