"""C20 findings.
cd /tmp && PYTHONPATH=/repo/pulser-core:/repo/pulser-simulation /venv/bin/python -W ignore /verif/findings/repro_c20.py"""
import numpy as np
from pulser import Pulse, Register, Sequence, NoiseModel
from pulser.devices import MockDevice
from pulser.backend.default_observables import Occupation, BitStrings
from pulser_simulation import QutipBackendV2, QutipConfig

reg = Register.from_coordinates([(0, 0)], prefix="q")
seq = Sequence(reg, MockDevice)
seq.declare_channel("ch", "rydberg_global")
seq.add(Pulse.ConstantPulse(100, 1.0, 0.0, 0.0), "ch")

obs = Occupation(evaluation_times=[0.5])
res = QutipBackendV2(seq, config=QutipConfig(observables=[obs])).run()
times = res.get_result_times(obs)
print("observable_own_evaluation_times:", "holds" if times == [0.5] else f"VIOLATED (requested [0.5], stored at {times})")

# three-level basis (rydberg + raman) with shot-to-shot noise
seq3 = Sequence(reg, MockDevice)
seq3.declare_channel("ryd", "rydberg_global")
seq3.declare_channel("ram", "raman_global")
seq3.add(Pulse.ConstantPulse(100, 1.0, 0.0, 0.0), "ryd")
seq3.add(Pulse.ConstantPulse(100, 1.0, 0.0, 0.0), "ram")
try:
    cfg = QutipConfig(observables=[BitStrings(num_shots=10, one_state="r")], noise_model=NoiseModel(temperature=50.0, runs=3, samples_per_run=1))
    QutipBackendV2(seq3, config=cfg).run()
    print("noisy_run_three_level_basis: holds")
except Exception as e:
    print("noisy_run_three_level_basis: VIOLATED (", type(e).__name__, str(e)[:80], ")")
