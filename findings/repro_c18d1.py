"""C18 / strict switch_device: delay() and align() on a DMM are replayed on
the wrong DMM when the DMM gets another name on the new device.

Device A: dmm_0 (clock 1), dmm_1 (clock 4). Device B has the same two DMMs in
the opposite order, so with strict=True the only match is dmm_0->dmm_1 and
dmm_1->dmm_0 (the name of a DMM in a Sequence is derived from its ID).
"""
import sys
import warnings

from pulser import Register, Sequence
from pulser.channels import DMM, Rydberg
from pulser.devices import VirtualDevice
from pulser.waveforms import ConstantWaveform

warnings.simplefilter("ignore")

reg = Register.square(2, 6, prefix="q")
map_a = reg.define_detuning_map({"q0": 1.0, "q1": 0.5})
map_b = reg.define_detuning_map({"q2": 1.0, "q3": 0.5})

fast = DMM(bottom_detuning=-100, clock_period=1, min_duration=1)
slow = DMM(bottom_detuning=-100, clock_period=4, min_duration=4)


def device(name, dmms):
    return VirtualDevice(
        name=name,
        dimensions=2,
        rydberg_level=60,
        reusable_channels=False,
        channel_objects=(Rydberg.Global(None, None),),
        dmm_objects=dmms,
    )


dev_a = device("A", (fast, slow))
dev_b = device("B", (slow, fast))

seq = Sequence(reg, dev_a)
seq.declare_channel("ryd", "rydberg_global")
seq.config_detuning_map(map_a, "dmm_0")
seq.config_detuning_map(map_b, "dmm_1")
seq.add_dmm_detuning(ConstantWaveform(100, -10), "dmm_0")
seq.add_dmm_detuning(ConstantWaveform(200, -5), "dmm_1")
seq.delay(48, "dmm_0")  # on the DMM that holds map_a
seq.align("dmm_1", "ryd")  # with the DMM that holds map_b


def slots_by_role(s):
    out = {}
    for name, sch in s._schedule.items():
        if hasattr(sch, "detuning_map"):
            role = "map_a" if sch.detuning_map is map_a else "map_b"
        else:
            role = name
        out[role] = [
            (s_.type if isinstance(s_.type, str) else "pulse", s_.ti, s_.tf)
            for s_ in sch.slots
        ]
    return out


try:
    new_seq = seq.switch_device(dev_b, strict=True)
except Exception as e:  # raising is allowed by the property
    print("PASS (raised):", type(e).__name__, e)
    sys.exit(0)

old, new = slots_by_role(seq), slots_by_role(new_seq)
print("original:", old)
print("switched:", new)
if old == new:
    print("PASS")
    sys.exit(0)
print("FAIL: strict=True returned a sequence with a different timeline")
sys.exit(1)
