"""Detection errors of the device's noise model are dropped by QutipBackendV2.

With prefer_device_noise_model=True the emulation uses the device's default
noise model (here only detection errors: p_false_pos = 0.4).  The legacy
QutipBackend flips 0 -> 1 at that rate; QutipBackendV2's BitStrings observable
reads the rates from the *config's* noise model (the default, error free one)
and never flips a bit.
"""
import dataclasses
import sys

import numpy as np

from pulser import Pulse, Register, Sequence
from pulser.backend import BitStrings
from pulser.backend.config import EmulatorConfig
from pulser.devices import MockDevice
from pulser.noise_model import NoiseModel
from pulser_simulation import QutipBackend, QutipBackendV2, QutipConfig

np.random.seed(7)
p_false_pos = 0.4
device = dataclasses.replace(
    MockDevice,
    default_noise_model=NoiseModel(p_false_pos=p_false_pos, p_false_neg=0.1),
)
reg = Register.from_coordinates([(0, 0)], prefix="q")
seq = Sequence(reg, device)
seq.declare_channel("ryd", "rydberg_global")
seq.add(Pulse.ConstantPulse(100, 0.0, 0.0, 0.0), "ryd")  # atom stays in |g>

shots = 10000
legacy = QutipBackend(
    seq, config=EmulatorConfig(prefer_device_noise_model=True)
).run()
rate_legacy = legacy.sample_final_state(shots)["1"] / shots

config = QutipConfig(
    observables=[BitStrings(num_shots=shots)], prefer_device_noise_model=True
)
res = QutipBackendV2(seq, config=config).run()
rate_v2 = res.get_result("bitstrings", 1.0)["1"] / shots

print(f"configured p_false_pos = {p_false_pos}: legacy measures '1' at rate "
      f"{rate_legacy:.3f}, V2 at rate {rate_v2:.3f}")
ok = abs(rate_legacy - p_false_pos) < 0.03 and abs(rate_v2 - p_false_pos) < 0.03
print("PASS" if ok else "FAIL")
sys.exit(0 if ok else 1)
