"""C16: Constant / Ramp / Blackman / Kaiser waveforms kept pm.AbstractArray(<parameter>) without copying: a 0-d numpy
array given as value / start / stop / area stayed shared with the caller, and editing it in place afterwards changed
the samples (and what change_duration rebuilds).  Found by the STORED net.  Exit 1 when the defect is present."""
import numpy as np, sys
from pulser.waveforms import ConstantWaveform, RampWaveform, BlackmanWaveform, KaiserWaveform
bad=[]
v=np.array(2.0); w=ConstantWaveform(10, v); v += 5
if w.samples.as_array()[0] != 2.0: bad.append(("ConstantWaveform", w.samples.as_array()[0]))
a=np.array(0.0); b=np.array(1.0); r=RampWaveform(10, a, b); a += 3; b += 3
if r.samples.as_array()[0] != 0.0: bad.append(("RampWaveform", r.samples.as_array()[[0,-1]].tolist()))
ar=np.array(1.0); bw=BlackmanWaveform(100, ar); s0=bw.integral; ar *= 2
bw2=BlackmanWaveform(100, 1.0)
if not np.isclose(bw.change_duration(50).integral, 1.0): bad.append(("BlackmanWaveform", bw.change_duration(50).integral))
ak=np.array(1.0); kw=KaiserWaveform(100, ak); ak *= 2
if not np.isclose(kw.change_duration(50).integral, 1.0): bad.append(("KaiserWaveform", kw.change_duration(50).integral))
print("aliased:", bad)
print("FAIL" if bad else "PASS"); sys.exit(1 if bad else 0)
