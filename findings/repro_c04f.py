"""C04: a register may mix int and str qubit IDs; serialising a sequence that targets several of them failed because
convert_targets went through np.array(), which turns the int IDs into strings (ValueError: The IDs list must be
selected among the IDs of the register's qubits).  Exit 1 when the defect is present."""
import json
import sys
from pulser import Pulse, Register, Sequence
from pulser.devices import MockDevice

reg = Register({"q0": (0, 0), 1: (0, 6), "q2": (6, 0)})
seq = Sequence(reg, MockDevice)
seq.declare_channel("ram", "raman_local", initial_target="q0")
seq.target([1, "q2"], "ram")
seq.add(Pulse.ConstantPulse(100, 1.0, 0.0, 0.0), "ram")
try:
    doc = seq.to_abstract_repr()
except Exception as e:  # noqa: BLE001
    print("FAIL: to_abstract_repr() raised", type(e).__name__, e)
    sys.exit(1)
ops = [op for op in json.loads(doc)["operations"] if op["op"] == "target"]
print("targets written:", ops)
back = Sequence.from_abstract_repr(doc)
ok = ops[-1]["target"] == [1, 2] and len(back._schedule["ram"].slots[-1].targets) == 2
sys.exit(0 if ok else 1)
