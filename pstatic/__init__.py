"""pstatic -- a small, repository-specific static analyser for pasqal-io/Pulser.

Everything here works on the *source text* of /repo (stdlib ``ast`` only);
nothing of the analysed tree is imported or executed.
"""
