#!/usr/bin/env python3
"""Evaluate a candidate seeded change: confirm it (tests pass, demo flips) and see which checks report it.

usage: eval_seeded.py <diff> <demo.py> [--no-tests]
Never leaves /repo modified; scratch worktree under /tmp is removed.
"""
import json
import os
import subprocess
import sys
import tempfile

REPO = "/repo"
VERIF = "/verif"


def sh(cmd, cwd=None, env=None, timeout=1800):
    p = subprocess.run(cmd, shell=True, cwd=cwd, env=env, capture_output=True, text=True, timeout=timeout)
    return p.returncode, p.stdout + p.stderr


def main():
    diff, demo = os.path.abspath(sys.argv[1]), os.path.abspath(sys.argv[2])
    run_tests = "--no-tests" not in sys.argv
    out = {"diff": diff, "demo": demo}
    assert sh("git status --porcelain", REPO)[1].strip() == "", "/repo not clean"
    wt = tempfile.mkdtemp(prefix="evalwt_", dir="/tmp")
    os.rmdir(wt)
    rc, o = sh(f"git worktree add -q {wt} HEAD", REPO)
    assert rc == 0, o
    try:
        env = dict(os.environ, PYTHONPATH=f"{wt}/pulser-core:{wt}/pulser-simulation")
        rc0, o0 = sh(f"/venv/bin/python -W ignore {demo}", wt, env, 600)
        out["demo_clean_rc"] = rc0
        rc, o = sh(f"git apply {diff}", wt)
        out["applies"] = rc == 0
        if rc != 0:
            out["apply_err"] = o[-500:]
            print(json.dumps(out, indent=1))
            return 1
        rc1, o1 = sh(f"/venv/bin/python -W ignore {demo}", wt, env, 600)
        out["demo_mutant_rc"] = rc1
        out["demo_mutant_tail"] = o1.strip().splitlines()[-3:]
        if run_tests:
            rct, ot = sh("/venv/bin/python -m pytest -q -p no:cacheprovider -x -n 8 tests 2>&1 | tail -3", wt, env, 1800)
            out["tests_tail"] = ot.strip().splitlines()[-1:]
            out["tests_pass"] = " passed" in ot and " failed" not in ot and "error" not in ot.lower()
    finally:
        sh(f"git worktree remove --force {wt}", REPO)
    # now the checks against /repo with the change applied
    rc, o = sh(f"git apply {diff}", REPO)
    assert rc == 0, o
    caught = {}
    try:
        man = json.load(open(os.path.join(VERIF, "MANIFEST.json")))
        props = [c["property_id"] for c in man["checks"]]
        extra = [p for p in sys.argv[3:] if p.startswith("C")]
        for pid in sorted(set(props) | set(extra)):
            rc, o = sh(f"python3-vt check.py {pid} --tier quick", VERIF, None, 600)
            if rc != 0:
                caught[pid] = {"rc": rc, "lines": [l for l in o.splitlines() if l.startswith(("  rule=", "ANALYSIS-ERROR"))][:6]}
    finally:
        sh("git checkout -- .", REPO)
        sh("git checkout -- evidence", VERIF)
    assert sh("git status --porcelain", REPO)[1].strip() == "", "/repo not restored"
    out["caught_by"] = caught
    print(json.dumps(out, indent=1))
    return 0


if __name__ == "__main__":
    sys.exit(main())
