"""Program model: modules, classes, functions, imports, constant tables.

Pure ``ast``; the analysed tree is never imported.
"""
from __future__ import annotations

import ast
import json
import os
from dataclasses import dataclass, field
from typing import Any, Iterator, Optional

REPO = os.environ.get("PSTATIC_REPO", "/repo")
PKG_ROOTS = (
    ("pulser-core", "pulser"),
    ("pulser-simulation", "pulser_simulation"),
)


class AnalysisError(Exception):
    """The analysis itself cannot proceed (vanished anchor, parse error...).

    Mapped to exit code 2 by the driver -- never to a VIOLATION.
    """


def norm(node: ast.AST | None) -> str:
    """Normalised source text of a node (formatting independent)."""
    if node is None:
        return ""
    try:
        return ast.unparse(node)
    except Exception:  # pragma: no cover
        return ast.dump(node)


def dotted(node: ast.AST) -> Optional[str]:
    """``a.b.c`` for Name/Attribute chains, else None."""
    parts = []
    while isinstance(node, ast.Attribute):
        parts.append(node.attr)
        node = node.value
    if isinstance(node, ast.Name):
        parts.append(node.id)
        return ".".join(reversed(parts))
    return None


@dataclass
class FieldInfo:
    name: str
    annotation: Optional[ast.AST]
    default: Optional[ast.AST]
    init: bool = True
    kw_only: bool = False
    node: Optional[ast.AST] = None


@dataclass(eq=False)
class FunctionInfo:
    name: str
    qualname: str  # module.Class.func or module.func or outer.<inner>
    module: "Module"
    cls: Optional["ClassInfo"]
    node: ast.FunctionDef
    parent: Optional["FunctionInfo"] = None
    kind: str = "normal"  # normal|property|setter|staticmethod|classmethod|overload|cached_property
    nested: dict[str, "FunctionInfo"] = field(default_factory=dict)

    @property
    def short(self) -> str:
        """Qualified name without the module path."""
        q = self.qualname[len(self.module.name) + 1 :]
        return q

    @property
    def decorators(self) -> list[ast.AST]:
        return list(self.node.decorator_list)

    @property
    def params(self) -> list[str]:
        a = self.node.args
        names = [x.arg for x in a.posonlyargs + a.args]
        if a.vararg:
            names.append(a.vararg.arg)
        names += [x.arg for x in a.kwonlyargs]
        if a.kwarg:
            names.append(a.kwarg.arg)
        return names

    def param_defaults(self) -> dict[str, ast.AST]:
        a = self.node.args
        pos = a.posonlyargs + a.args
        out: dict[str, ast.AST] = {}
        for arg, d in zip(pos[len(pos) - len(a.defaults) :], a.defaults):
            out[arg.arg] = d
        for arg, d in zip(a.kwonlyargs, a.kw_defaults):
            if d is not None:
                out[arg.arg] = d
        return out

    def param_annotation(self, name: str) -> Optional[ast.AST]:
        a = self.node.args
        for x in a.posonlyargs + a.args + a.kwonlyargs:
            if x.arg == name:
                return x.annotation
        if a.vararg and a.vararg.arg == name:
            return a.vararg.annotation
        if a.kwarg and a.kwarg.arg == name:
            return a.kwarg.annotation
        return None

    def __repr__(self) -> str:
        return f"<fn {self.qualname}>"


@dataclass(eq=False)
class ClassInfo:
    name: str
    qualname: str
    module: "Module"
    node: ast.ClassDef
    methods: dict[str, list[FunctionInfo]] = field(default_factory=dict)
    fields: dict[str, FieldInfo] = field(default_factory=dict)  # annotated class-level names
    class_assigns: dict[str, ast.AST] = field(default_factory=dict)
    is_dataclass: bool = False
    dataclass_kw: dict[str, Any] = field(default_factory=dict)

    @property
    def short(self) -> str:
        return self.qualname[len(self.module.name) + 1 :]

    def __repr__(self) -> str:
        return f"<class {self.qualname}>"


@dataclass(eq=False)
class Module:
    name: str
    path: str
    relpath: str
    tree: ast.Module
    src: str
    imports: dict[str, str] = field(default_factory=dict)  # local name -> dotted target
    classes: dict[str, ClassInfo] = field(default_factory=dict)
    functions: dict[str, FunctionInfo] = field(default_factory=dict)
    assigns: dict[str, ast.AST] = field(default_factory=dict)
    ann: dict[str, ast.AST] = field(default_factory=dict)

    def __repr__(self) -> str:
        return f"<module {self.name}>"


def _decorator_kind(decos: list[ast.AST]) -> str:
    for d in decos:
        s = dotted(d) or (dotted(d.func) if isinstance(d, ast.Call) else None) or ""
        last = s.split(".")[-1]
        if last == "property":
            return "property"
        if last == "cached_property":
            return "cached_property"
        if last == "setter":
            return "setter"
        if last == "staticmethod":
            return "staticmethod"
        if last == "classmethod":
            return "classmethod"
        if last == "overload":
            return "overload"
    return "normal"


class Program:
    def __init__(self, root: str = REPO):
        self.root = root
        self.modules: dict[str, Module] = {}
        self.classes: dict[str, ClassInfo] = {}
        self.functions: dict[str, FunctionInfo] = {}
        self.schemas: dict[str, Any] = {}
        self._subclasses: dict[str, list[ClassInfo]] = {}
        self._mro_cache: dict[str, list[ClassInfo]] = {}
        self.fn_of_node: dict[int, FunctionInfo] = {}
        self._load()

    # ------------------------------------------------------------------ load
    def _load(self) -> None:
        for top, pkg in PKG_ROOTS:
            base = os.path.join(self.root, top)
            pkgdir = os.path.join(base, pkg)
            if not os.path.isdir(pkgdir):
                raise AnalysisError(f"package directory missing: {pkgdir}")
            for dirpath, dirnames, filenames in os.walk(pkgdir):
                dirnames.sort()
                for fn in sorted(filenames):
                    full = os.path.join(dirpath, fn)
                    if fn.endswith(".py"):
                        self._load_module(base, full)
                    elif fn.endswith(".json") and "schemas" in dirpath:
                        with open(full) as f:
                            try:
                                self.schemas[fn] = json.load(f)
                            except Exception as e:
                                raise AnalysisError(f"cannot parse schema {full}: {e}")
        for m in self.modules.values():
            for c in m.classes.values():
                for b in self.bases(c):
                    self._subclasses.setdefault(b.qualname, []).append(c)

    def _load_module(self, base: str, full: str) -> None:
        rel = os.path.relpath(full, base)
        modname = rel[:-3].replace(os.sep, ".")
        is_pkg = False
        if modname.endswith(".__init__"):
            modname = modname[: -len(".__init__")]
            is_pkg = True
        with open(full, encoding="utf-8") as f:
            src = f.read()
        try:
            tree = ast.parse(src, filename=full)
        except SyntaxError as e:
            raise AnalysisError(f"parse error in {full}: {e}")
        m = Module(modname, full, os.path.relpath(full, self.root), tree, src)
        m.is_pkg = is_pkg  # type: ignore[attr-defined]
        self.modules[modname] = m
        self._scan_body(m, tree.body)

    def _scan_body(self, m: Module, body: list[ast.stmt]) -> None:
        for st in body:
            if isinstance(st, ast.Import):
                for a in st.names:
                    if a.asname:
                        m.imports[a.asname] = a.name
                    else:
                        m.imports[a.name.split(".")[0]] = a.name.split(".")[0]
            elif isinstance(st, ast.ImportFrom):
                src = st.module or ""
                if st.level:
                    pkg = m.name if getattr(m, "is_pkg", False) else m.name.rsplit(".", 1)[0]
                    for _ in range(st.level - 1):
                        pkg = pkg.rsplit(".", 1)[0]
                    src = pkg + ("." + src if src else "")
                for a in st.names:
                    m.imports[a.asname or a.name] = src + "." + a.name
            elif isinstance(st, (ast.If, ast.Try)):
                # TYPE_CHECKING blocks and try/except imports
                self._scan_body(m, st.body)
                for h in getattr(st, "handlers", []):
                    self._scan_body(m, h.body)
                self._scan_body(m, st.orelse)
            elif isinstance(st, ast.ClassDef):
                self._add_class(m, st)
            elif isinstance(st, (ast.FunctionDef, ast.AsyncFunctionDef)):
                fi = self._add_function(m, None, st, None)
                m.functions.setdefault(st.name, fi)
                if _decorator_kind(st.decorator_list) != "overload":
                    m.functions[st.name] = fi
            elif isinstance(st, ast.Assign):
                for t in st.targets:
                    if isinstance(t, ast.Name):
                        m.assigns[t.id] = st.value
                        self._maybe_namedtuple(m, t.id, st.value)
            elif isinstance(st, ast.AnnAssign) and isinstance(st.target, ast.Name):
                m.ann[st.target.id] = st.annotation
                if st.value is not None:
                    m.assigns[st.target.id] = st.value

    def _maybe_namedtuple(self, m: Module, name: str, value: ast.AST) -> None:
        """``X = namedtuple("X", [..])`` becomes a synthetic immutable class."""
        if not (isinstance(value, ast.Call) and (dotted(value.func) or "").split(".")[-1] == "namedtuple"):
            return
        if len(value.args) < 2:
            return
        try:
            names = ast.literal_eval(value.args[1])
        except Exception:
            return
        if isinstance(names, str):
            names = names.replace(",", " ").split()
        body = "\n".join(f"    {n}: object" for n in names) or "    pass"
        node = ast.parse(f"class {name}(NamedTuple):\n{body}\n").body[0]
        ast.copy_location(node, value)
        for sub in ast.walk(node):
            ast.copy_location(sub, value)
        c = self._add_class(m, node)  # type: ignore[arg-type]
        c.synthetic_namedtuple = True  # type: ignore[attr-defined]

    def _add_class(self, m: Module, node: ast.ClassDef, prefix: str = "") -> ClassInfo:
        q = f"{m.name}.{prefix}{node.name}"
        c = ClassInfo(node.name, q, m, node)
        for d in node.decorator_list:
            dn = dotted(d) or (dotted(d.func) if isinstance(d, ast.Call) else "") or ""
            if dn.split(".")[-1] == "dataclass":
                c.is_dataclass = True
                if isinstance(d, ast.Call):
                    for kw in d.keywords:
                        if isinstance(kw.value, ast.Constant):
                            c.dataclass_kw[kw.arg or ""] = kw.value.value
        kw_only = bool(c.dataclass_kw.get("kw_only"))
        for st in node.body:
            if isinstance(st, (ast.FunctionDef, ast.AsyncFunctionDef)):
                fi = self._add_function(m, c, st, None, prefix=prefix)
                c.methods.setdefault(st.name, []).append(fi)
            elif isinstance(st, ast.AnnAssign) and isinstance(st.target, ast.Name):
                ann_s = norm(st.annotation)
                if ann_s.replace(" ", "") in ("KW_ONLY", "dataclasses.KW_ONLY"):
                    kw_only = True
                    continue
                init = True
                default = st.value
                if isinstance(st.value, ast.Call) and (dotted(st.value.func) or "").split(".")[-1] == "field":
                    default = None
                    for kw in st.value.keywords:
                        if kw.arg == "init" and isinstance(kw.value, ast.Constant):
                            init = bool(kw.value.value)
                        if kw.arg in ("default", "default_factory"):
                            default = kw.value
                if not ann_s.startswith("ClassVar"):
                    c.fields[st.target.id] = FieldInfo(st.target.id, st.annotation, default, init, kw_only, st)
                else:
                    if st.value is not None:
                        c.class_assigns[st.target.id] = st.value
            elif isinstance(st, ast.Assign):
                for t in st.targets:
                    if isinstance(t, ast.Name):
                        c.class_assigns[t.id] = st.value
            elif isinstance(st, ast.ClassDef):
                self._add_class(m, st, prefix=prefix + node.name + ".")
        m.classes[prefix + node.name] = c
        self.classes[q] = c
        return c

    def _add_function(
        self,
        m: Module,
        c: Optional[ClassInfo],
        node: ast.FunctionDef,
        parent: Optional[FunctionInfo],
        prefix: str = "",
    ) -> FunctionInfo:
        kind = _decorator_kind(node.decorator_list)
        if parent is not None:
            q = f"{parent.qualname}.{node.name}"
        elif c is not None:
            q = f"{c.qualname}.{node.name}"
        else:
            q = f"{m.name}.{node.name}"
        if kind == "setter":
            q += ".setter"
        fi = FunctionInfo(node.name, q, m, c, node, parent, kind)
        if kind != "overload" or q not in self.functions:
            self.functions[q] = fi
        self.fn_of_node[id(node)] = fi
        for sub in self._direct_nested_defs(node):
            nf = self._add_function(m, c, sub, fi)
            fi.nested[sub.name] = nf
        return fi

    @staticmethod
    def _direct_nested_defs(node: ast.AST) -> Iterator[ast.FunctionDef]:
        """FunctionDefs nested in ``node`` not inside another def/class."""
        stack = list(ast.iter_child_nodes(node))
        while stack:
            n = stack.pop()
            if isinstance(n, (ast.FunctionDef, ast.AsyncFunctionDef)):
                yield n
                continue
            if isinstance(n, (ast.ClassDef, ast.Lambda)):
                continue
            stack.extend(ast.iter_child_nodes(n))

    # --------------------------------------------------------------- lookup
    def module(self, name: str) -> Module:
        if name not in self.modules:
            raise AnalysisError(f"anchor: module {name} not found")
        return self.modules[name]

    def cls(self, qual: str) -> ClassInfo:
        if qual not in self.classes:
            raise AnalysisError(f"anchor: class {qual} not found")
        return self.classes[qual]

    def fn(self, qual: str) -> FunctionInfo:
        if qual not in self.functions:
            raise AnalysisError(f"anchor: function {qual} not found")
        return self.functions[qual]

    def resolve_dotted(self, name: str, _depth: int = 0) -> Any:
        """Resolve an absolute dotted name to Module/ClassInfo/FunctionInfo/('const', mod, name)."""
        if _depth > 12:
            return None
        if name in self.modules:
            return self.modules[name]
        if name in self.classes:
            return self.classes[name]
        if name in self.functions:
            return self.functions[name]
        if "." not in name:
            return None
        head, last = name.rsplit(".", 1)
        owner = self.resolve_dotted(head, _depth + 1)
        if isinstance(owner, Module):
            return self.resolve_in_module(owner, last, _depth + 1)
        if isinstance(owner, ClassInfo):
            ms = self.lookup_method(owner, last)
            if ms:
                return ms[0]
            if last in owner.class_assigns:
                return ("classattr", owner, last)
        return None

    def resolve_in_module(self, m: Module, name: str, _depth: int = 0) -> Any:
        if name in m.classes:
            return m.classes[name]
        if name in m.functions:
            return m.functions[name]
        if name in m.imports:
            tgt = m.imports[name]
            r = self.resolve_dotted(tgt, _depth + 1)
            if r is not None:
                return r
            return ("external", tgt)
        if name in m.assigns:
            return ("const", m, name)
        sub = m.name + "." + name
        if sub in self.modules:
            return self.modules[sub]
        return None

    def bases(self, c: ClassInfo) -> list[ClassInfo]:
        out = []
        for b in c.node.bases:
            bb = b.value if isinstance(b, ast.Subscript) else b
            d = dotted(bb)
            if not d:
                continue
            r = self._resolve_local(c.module, d)
            if isinstance(r, ClassInfo):
                out.append(r)
        return out

    def base_exprs(self, c: ClassInfo) -> list[ast.AST]:
        return list(c.node.bases)

    def _resolve_local(self, m: Module, d: str) -> Any:
        head, *rest = d.split(".")
        r = self.resolve_in_module(m, head)
        for part in rest:
            if isinstance(r, Module):
                r = self.resolve_in_module(r, part)
            elif isinstance(r, ClassInfo):
                nested = r.module.classes.get(r.short + "." + part)
                if nested is not None:
                    r = nested
                    continue
                ms = self.lookup_method(r, part)
                if ms:
                    r = ms[0]
                elif part in r.class_assigns or part in r.fields:
                    r = ("classattr", r, part)
                else:
                    return None
            elif isinstance(r, tuple) and r and r[0] == "external":
                r = ("external", r[1] + "." + part)
            else:
                return None
        return r

    def resolve_name(self, m: Module, d: str) -> Any:
        """Resolve a (possibly dotted) name as seen from module ``m``."""
        return self._resolve_local(m, d)

    def mro(self, c: ClassInfo) -> list[ClassInfo]:
        if c.qualname in self._mro_cache:
            return self._mro_cache[c.qualname]
        out = [c]
        seen = {c.qualname}
        # simple depth-first left-to-right linearisation (sufficient here:
        # the repo has no diamond whose resolution order matters for lookups)
        for b in self.bases(c):
            for x in self.mro(b):
                if x.qualname not in seen:
                    seen.add(x.qualname)
                    out.append(x)
        self._mro_cache[c.qualname] = out
        return out

    def subclasses(self, c: ClassInfo, transitive: bool = True) -> list[ClassInfo]:
        out: list[ClassInfo] = []
        seen: set[str] = set()
        stack = list(self._subclasses.get(c.qualname, []))
        while stack:
            s = stack.pop()
            if s.qualname in seen:
                continue
            seen.add(s.qualname)
            out.append(s)
            if transitive:
                stack.extend(self._subclasses.get(s.qualname, []))
        return out

    def is_subclass(self, c: ClassInfo, base_qual: str) -> bool:
        return any(x.qualname == base_qual for x in self.mro(c))

    def lookup_method(self, c: ClassInfo, name: str) -> list[FunctionInfo]:
        """Definitions of ``name`` found first along the MRO (all same-class defs)."""
        for k in self.mro(c):
            if name in k.methods:
                return [f for f in k.methods[name] if f.kind != "overload"] or k.methods[name]
        return []

    def lookup_method_with_overrides(self, c: ClassInfo, name: str) -> list[FunctionInfo]:
        out = list(self.lookup_method(c, name))
        for s in self.subclasses(c):
            if name in s.methods:
                for f in s.methods[name]:
                    if f.kind != "overload" and f not in out:
                        out.append(f)
        return out

    def lookup_field(self, c: ClassInfo, name: str) -> Optional[tuple[ClassInfo, FieldInfo]]:
        for k in self.mro(c):
            if name in k.fields:
                return k, k.fields[name]
        return None

    def dataclass_fields(self, c: ClassInfo) -> list[tuple[ClassInfo, FieldInfo]]:
        """Fields in dataclass order (base first), overriding by name."""
        order: list[str] = []
        table: dict[str, tuple[ClassInfo, FieldInfo]] = {}
        for k in reversed(self.mro(c)):
            if not k.is_dataclass:
                continue
            for n, f in k.fields.items():
                if n not in table:
                    order.append(n)
                table[n] = (k, f)
        return [table[n] for n in order]

    def all_functions(self) -> Iterator[FunctionInfo]:
        return iter(self.functions.values())

    # ------------------------------------------------------ constant folder
    def fold(self, m: Module, node: ast.AST, _depth: int = 0) -> Any:
        """Literal folder for constant tables. Raises ValueError when not constant."""
        if _depth > 20:
            raise ValueError("fold depth")
        f = lambda n: self.fold(m, n, _depth + 1)  # noqa: E731
        if isinstance(node, ast.Constant):
            return node.value
        if isinstance(node, ast.Tuple):
            out: list[Any] = []
            for e in node.elts:
                if isinstance(e, ast.Starred):
                    out.extend(f(e.value))
                else:
                    out.append(f(e))
            return tuple(out)
        if isinstance(node, ast.List):
            out = []
            for e in node.elts:
                if isinstance(e, ast.Starred):
                    out.extend(f(e.value))
                else:
                    out.append(f(e))
            return out
        if isinstance(node, ast.Set):
            return set(f(e) for e in node.elts)
        if isinstance(node, ast.Dict):
            d: dict[Any, Any] = {}
            for k, v in zip(node.keys, node.values):
                if k is None:
                    d.update(f(v))
                else:
                    d[f(k)] = f(v)
            return d
        if isinstance(node, ast.UnaryOp) and isinstance(node.op, ast.USub):
            return -f(node.operand)
        if isinstance(node, ast.BinOp) and isinstance(node.op, ast.Add):
            a, b = f(node.left), f(node.right)
            return a + b
        if isinstance(node, ast.BinOp) and isinstance(node.op, ast.BitOr):
            a, b = f(node.left), f(node.right)
            return a | b
        if isinstance(node, ast.BinOp) and isinstance(node.op, (ast.Sub, ast.Mult, ast.Div, ast.Pow, ast.FloorDiv, ast.Mod)):
            # numeric module constants (`_TOL = 10 ** (-PRECISION)`)
            a, b = f(node.left), f(node.right)
            if not all(isinstance(x, (int, float)) and not isinstance(x, bool) for x in (a, b)) or (isinstance(node.op, ast.Pow) and abs(b) > 64):
                raise ValueError("not a numeric constant expression")
            import operator as _op

            return {ast.Sub: _op.sub, ast.Mult: _op.mul, ast.Div: _op.truediv, ast.Pow: _op.pow, ast.FloorDiv: _op.floordiv, ast.Mod: _op.mod}[type(node.op)](a, b)
        if isinstance(node, ast.Name):
            r = self.resolve_in_module(m, node.id)
            if isinstance(r, tuple) and r[0] == "const":
                return self.fold(r[1], r[1].assigns[r[2]], _depth + 1)
            raise ValueError(f"not constant: {node.id}")
        if isinstance(node, ast.Attribute):
            d = dotted(node)
            if d:
                r = self.resolve_name(m, d)
                if isinstance(r, tuple) and r[0] == "const":
                    return self.fold(r[1], r[1].assigns[r[2]], _depth + 1)
                if isinstance(r, tuple) and r[0] == "classattr":
                    return self.fold(r[1].module, r[1].class_assigns[r[2]], _depth + 1)
            raise ValueError("not constant attr")
        if isinstance(node, ast.Subscript):
            # Literal["a", "b"] -> tuple
            d = dotted(node.value) or ""
            if d.split(".")[-1] == "Literal":
                v = f(node.slice)
                return v if isinstance(v, tuple) else (v,)
            base = f(node.value)
            return base[f(node.slice)]
        if isinstance(node, ast.Call):
            fn = dotted(node.func) or ""
            last = fn.split(".")[-1]
            if last in ("tuple", "list", "set", "frozenset", "dict") and len(node.args) <= 1 and not node.keywords:
                ctor = {"tuple": tuple, "list": list, "set": set, "frozenset": frozenset, "dict": dict}[last]
                return ctor(f(node.args[0])) if node.args else ctor()
            if last == "dict" and not node.args:
                return {kw.arg: f(kw.value) for kw in node.keywords}
            if last == "get_args" and len(node.args) == 1:
                return f(node.args[0])
            raise ValueError(f"not constant call {fn}")
        raise ValueError(f"not constant: {type(node).__name__}")

    def fold_or_none(self, m: Module, node: ast.AST) -> Any:
        try:
            return self.fold(m, node)
        except Exception:
            return None


_PROGRAM_CACHE: dict[str, Program] = {}


def load(root: str = REPO) -> Program:
    if root not in _PROGRAM_CACHE:
        _PROGRAM_CACHE[root] = Program(root)
    return _PROGRAM_CACHE[root]
