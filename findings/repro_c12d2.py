"""C12 / finding 2: layouts keep their trap coordinates rounded to
COORD_PRECISION (1e-6 um).  The minimum-distance check allows for that
precision, the maximum-radial-distance check does not.  An atom lying within
the maximum radial distance can therefore be moved a fraction of 1e-6 um
outside by the rounding: the register returned by the device-aware
`Register.with_automatic_layout(device)` is rejected by that very device, and
so is a layout whose traps are all within the radius.
"""
import sys
import warnings

import numpy as np

from pulser import Register, Sequence
from pulser.devices import AnalogDevice
from pulser.register.register_layout import RegisterLayout

warnings.simplefilter("ignore")
failures = []
dev = AnalogDevice
R = dev.max_radial_distance  # 38 um

checked = 0
for angle in (0.2, 0.3, 0.4, 1.1, 1.4, 2.3, 3.0):
    far = np.array([R * np.cos(angle), R * np.sin(angle)])
    while np.linalg.norm(far) > R:  # strictly within the device's radius
        far = far * (1 - 1e-16)
    reg = Register({"far": far, "centre": (0.0, 0.0)})
    dev.validate_register(reg)  # accepted: every atom is within 38 um
    Sequence(reg, dev)
    checked += 1

    auto = reg.with_automatic_layout(dev)
    try:
        dev.validate_register(auto)
        Sequence(auto, dev)
    except ValueError as e:
        failures.append(
            f"angle {angle}: register from with_automatic_layout(dev) "
            f"rejected by dev: {e}"
        )

    layout = RegisterLayout([far, (0.0, 0.0), (5.0, 0.0), (0.0, 5.0)])
    try:
        dev.validate_layout(layout)
    except ValueError as e:
        failures.append(
            f"angle {angle}: layout with all traps within {R} um rejected: {e}"
        )

# atoms really outside (beyond the coordinate precision) are still refused
out = Register({"far": (R + 1e-5, 0.0), "centre": (0.0, 0.0)})
try:
    dev.validate_register(out)
    failures.append("atom 1e-5 um beyond the radius accepted")
except ValueError as e:
    if getattr(e, "invalid", None) != ["far"]:
        failures.append(f"wrong offending atoms reported: {e}")

assert checked == 7
if failures:
    print("FAIL")
    for f in failures:
        print(" -", f)
    sys.exit(1)
print("PASS")
