"""C13: on a parametrized sequence config_slm_mask stored an id the device does not have, and broke the sequence.

Sequence.config_slm_mask returned early for a parametrized sequence ("configured at build") before checking
`dmm_id in device.dmm_channels`.  The call was recorded, and from then on declared_channels -- hence
available_channels, declare_channel, _validate_channel, str(seq) -- raised KeyError('dmm_9') on every call: an accepted
call left the sequence unusable, while the same call on a regular sequence is refused with ValueError.
Found by rule MODE `device-membership-checked-before-parametrized-shortcut` (pstatic/rules/c13.py), written after an
independent agent's remark.  Exits 1 when the defect is present.
"""
import sys
import warnings

from pulser import Register, Sequence
from pulser.devices import DigitalAnalogDevice, MockDevice

warnings.filterwarnings("ignore")
bad = []
for dev in (MockDevice, DigitalAnalogDevice):
    seq = Sequence(Register.square(2, prefix="q", spacing=6), dev)
    seq.declare_channel("ch", "rydberg_global")
    t = seq.declare_variable("t", dtype=int)
    seq.delay(t, "ch")  # the sequence is parametrized from here on
    try:
        seq.config_slm_mask(["q0"], dmm_id="dmm_9")
        accepted = True
    except ValueError:
        accepted = False
    try:
        list(seq.declared_channels)
        usable = True
    except KeyError:
        usable = False
    if accepted or not usable:
        bad.append(f"{dev.name}: config_slm_mask(dmm_id='dmm_9') accepted={accepted}, declared_channels usable afterwards={usable}")
if bad:
    print("DEFECT PRESENT:", "; ".join(bad))
    sys.exit(1)
print("ok: an unknown DMM id is refused on a parametrized sequence too")
