"""C15 - the buffers of an EOM block are lost when an earlier block is empty.

`_ChannelSchedule.get_samples()` finds the buffers around the EOM blocks by
counting the transitions into EOM mode. A block that was modified (or disabled)
right after being enabled has no slot, so it is never counted: the buffers of
every later block are then reported for the wrong block, or not at all, and
`ChannelSamples.modulate()` does not treat them as buffers.
"""
import sys

import numpy as np

from pulser import Pulse, Register, Sequence
from pulser.channels import Rydberg
from pulser.channels.eom import RydbergBeam, RydbergEOM
from pulser.devices import VirtualDevice
from pulser.sampler import sample

DEVICE = VirtualDevice(
    name="Dev",
    dimensions=2,
    rydberg_level=70,
    channel_objects=(
        Rydberg.Global(
            1000,
            200,
            clock_period=1,
            min_duration=1,
            mod_bandwidth=4.0,
            eom_config=RydbergEOM(
                mod_bandwidth=30.0,
                limiting_beam=RydbergBeam.RED,
                max_limiting_amp=50 * 2 * np.pi,
                intermediate_detuning=800 * 2 * np.pi,
                controlled_beams=(RydbergBeam.BLUE,),
                custom_buffer_time=40,
            ),
        ),
    ),
)


def expected_buffers(seq):
    """The buffers as they are found in the schedule itself."""
    sch = seq._schedule["ch"]
    slots = [s for s in sch.slots if s.ti != -1 and s.tf > s.ti]
    starts, ends = [], []
    for block in sch.eom_blocks:
        before = [s for s in slots if s.tf == block.ti]
        starts.append((before[-1].ti, before[-1].tf) if before else (0, 0))
        after = [
            s
            for s in slots
            if block.tf is not None
            and block.tf > block.ti  # an empty block needs no end buffer
            and s.ti == block.tf
            and not isinstance(s.type, Pulse)
        ]
        ends.append((after[0].ti, after[0].tf) if after else (0, 0))
    return starts, ends


def scenario(setpoint_first: bool) -> Sequence:
    seq = Sequence(Register({"q0": (0, 0), "q1": (50, 0)}), DEVICE)
    seq.declare_channel("ch", "rydberg_global")
    if setpoint_first:
        # An ordinary pulse, then the mode is enabled and its setpoint changed
        seq.add(Pulse.ConstantPulse(100, 5.0, 0.0, 0.0), "ch")
    seq.enable_eom_mode("ch", 5.0, 0.0, optimal_detuning_off=-100)
    seq.modify_eom_setpoint("ch", 20.0, 0.0, optimal_detuning_off=-100)
    seq.add_eom_pulse("ch", 100, 0.0)
    seq.disable_eom_mode("ch")
    seq.delay(300, "ch")
    return seq


ok = True
for first in (True, False):
    seq = scenario(first)
    print(seq)
    cs = sample(seq).channel_samples["ch"]
    print("EOM blocks        :", [(b.ti, b.tf) for b in cs.eom_blocks])
    starts, ends = expected_buffers(seq)
    print("start buffers     :", cs.eom_start_buffers, "expected", starts)
    print("end buffers       :", cs.eom_end_buffers, "expected", ends)
    ok &= list(cs.eom_start_buffers) == starts
    ok &= list(cs.eom_end_buffers) == ends
    print()

if not ok:
    print("FAIL")
    sys.exit(1)
print("PASS")
