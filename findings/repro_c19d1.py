"""C19: equality / static_hash of layouts must depend only on the set of
(rounded) coordinates.  A coordinate that is, or rounds to, negative zero
makes two layouts with the very same traps unequal."""
import sys

import numpy as np

from pulser.register.register_layout import RegisterLayout
from pulser.register.weight_maps import DetuningMap

ok = True


def check(label, cond):
    global ok
    print(f"  {label}: {'ok' if cond else 'WRONG'}")
    ok = ok and cond


# A symmetric layout and its mirror image are the same set of traps
pts = np.array([[-4.0, 0.0], [0.0, 0.0], [4.0, 0.0], [0.0, 4.0], [0.0, -4.0]])
lay = RegisterLayout(pts)
mirrored = RegisterLayout(-pts)  # contains -0.0 entries
print("sorted coords equal:", np.array_equal(lay.coords, mirrored.coords))
check("mirror image: layouts equal", lay == mirrored)
check("mirror image: same static_hash",
      lay.static_hash() == mirrored.static_hash())
check("mirror image: same hash()", hash(lay) == hash(mirrored))

# -3e-7 rounds (1e-6 um precision) to the trap (0, 0)
a = RegisterLayout([[0.0, 0.0], [5.0, 0.0]])
b = RegisterLayout([[-3e-7, 0.0], [5.0, 0.0]])
print("sorted coords equal:", np.array_equal(a.coords, b.coords))
check("-3e-7 vs 0: layouts equal", a == b)
check("-3e-7 vs 0: same static_hash", a.static_hash() == b.static_hash())
# trap IDs / lookups do agree, only eq/hash disagree
check("lookups agree", a.get_traps_from_coordinates((0, 0), (5, 0))
      == b.get_traps_from_coordinates((0, 0), (5, 0)))

# Same for detuning maps
check("detuning maps equal (uniform weights)",
      DetuningMap(pts, [0.2] * 5) == DetuningMap(-pts, [0.2] * 5))

print("PASS" if ok else "FAIL")
sys.exit(0 if ok else 1)
