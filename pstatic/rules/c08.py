"""C08 -- building a parametrized sequence equals direct construction."""
from __future__ import annotations

import ast

from ..engine import SEQ, Engine
from ..model import AnalysisError, dotted, norm
from ..report import Report
from .common import av, own_nodes, returns

EXPLANATION = (
    "OWN: the write summary of Sequence.build on non-fresh objects is limited to Variable.value/_count (the assignment of the variables) and the caller's **vars dict: building never alters the template "
    "(the replay receiver is a fresh type(self)(register, device) object; the shallow copy is only re-bound, never mutated in depth). FLOW: every element of call.args and every value of call.kwargs goes through "
    ".build() when Parametrized, and the built lists are what is replayed; ParamObj.build does the same for its own args/kwargs/cls and rebuilds whenever the update counter of any of its variables changed. "
    "PAIR: every write of Variable.value is accompanied by a bump of Variable._count (cache invalidation). REPLAY: stored calls are replayed through getattr(seq, call.name) in order, _calls[1:] first, then "
    "_to_build_calls. MAP: a mappable register resolves traps in declared qubit order and index-based targeting indexes the register's qubit order. NOT decided: equality of the built sequences (runtime)."
)
ASSUMPTIONS = ["effects are tracked at (class, field) granularity with fresh/self roots"]

PO = "pulser.parametrized.paramobj.ParamObj"
VAR = "pulser.parametrized.variable.Variable"


def _built_comprehensions(f) -> dict[str, ast.AST]:
    """local name -> comprehension that applies `.build() if isinstance(x, Parametrized) else x` to every element."""
    out = {}
    for n in own_nodes(f):
        if isinstance(n, ast.Assign) and isinstance(n.targets[0], ast.Name) and isinstance(n.value, (ast.ListComp, ast.DictComp)):
            comp = n.value
            elt = comp.elt if isinstance(comp, ast.ListComp) else comp.value
            g = comp.generators[0]
            if not comp.generators or g.ifs:
                continue
            if isinstance(elt, ast.IfExp) and isinstance(elt.test, ast.Call) and (dotted(elt.test.func) or "") == "isinstance":
                var = norm(elt.test.args[0])
                built = isinstance(elt.body, ast.Call) and isinstance(elt.body.func, ast.Attribute) and elt.body.func.attr == "build" and norm(elt.body.func.value) == var
                same = norm(elt.orelse) == var
                cls_ok = norm(elt.test.args[1]) in ("Parametrized", "pulser.parametrized.Parametrized")
                if built and same and cls_ok:
                    out[n.targets[0].id] = (comp, norm(g.iter))
    return out


def run(E: Engine, rep: Report, tier: str) -> dict:
    E.prepare_summaries()
    P = E.P
    build = E.method(SEQ, "build")
    # ---------------------------------------------------------------- OWN
    w, _r = E.S.of(E.R.effective(build))
    allowed = {("Variable", "value"), ("Variable", "_count")}
    bad = sorted({(x.owner.split(".")[-1], x.field, x.op, x.origin) for x in w if x.root not in ("fresh",) and not x.owner.startswith("?param:vars") and (x.owner.split(".")[-1], x.field) not in allowed})
    rep.check(not bad, "OWN", "Sequence.build|template-untouched", "non-fresh writes of build: only Variable.value/_count", f"Sequence.build can write to the template: {bad}", E.where(build))
    for x in sorted({(x.owner.split(".")[-1], x.field) for x in w if (x.owner.split(".")[-1], x.field) in allowed}):
        rep.ok("OWN", f"Sequence.build|writes|{x[0]}.{x[1]}", "allowed: assignment of the variable values", E.where(build))
    # the replay receiver is a fresh object
    fl = E.flow(build)
    n_replay = 0
    for _n, _i, e in fl.all_events():
        if e.kind == "reflective":
            n_replay += 1
            recv = e.node.func.args[0]
            roots = fl.roots(recv)
            rep.check(roots <= {"fresh"}, "OWN", f"Sequence.build|replay-receiver-fresh|{norm(recv)}", "calls are replayed on a freshly constructed sequence", f"build replays calls on `{norm(recv)}` whose provenance is {sorted(roots)} (not a fresh object): the template itself could be modified", E.where(build, e.node))
    if n_replay < 2:
        rep.error("Sequence.build: fewer than 2 replay sites found")
    # the shallow copy is only re-bound (no in-depth mutation through it)
    for n in own_nodes(build):
        if isinstance(n, ast.Call) and isinstance(n.func, ast.Attribute) and n.func.attr in ("append", "extend", "update", "pop", "clear", "insert", "remove") and norm(n.func.value).startswith("seq."):
            rep.violation("OWN", f"Sequence.build|shallow-copy-mutated|{norm(n)[:40]}", f"`{norm(n)}` mutates a container shared with the template through the shallow copy", E.where(build, n))
    rep.floor("OWN", 4)

    # --------------------------------------------------------------- FLOW
    comps = _built_comprehensions(build)
    srcs = {v[1] for v in comps.values()}
    rep.check("call.args" in srcs, "FLOW", "Sequence.build|args-built", "every positional argument of a stored call is built when Parametrized", "positional arguments of stored calls are no longer all passed through .build()", E.where(build))
    rep.check("call.kwargs.items()" in srcs, "FLOW", "Sequence.build|kwargs-built", "every keyword argument of a stored call is built when Parametrized", "keyword arguments of stored calls are no longer all passed through .build()", E.where(build))
    # what is replayed in the to-build loop are exactly those built containers
    ok = False
    for n in own_nodes(build):
        if isinstance(n, ast.For) and norm(n.iter) == "self._to_build_calls":
            for s in ast.walk(n):
                if isinstance(s, ast.Call) and isinstance(s.func, ast.Call) and (dotted(s.func.func) or "") == "getattr":
                    star = [norm(a.value) for a in s.args if isinstance(a, ast.Starred)]
                    dstar = [norm(k.value) for k in s.keywords if k.arg is None]
                    ok = bool(star) and bool(dstar) and star[0] in comps and dstar[0] in comps and comps[star[0]][1] == "call.args" and comps[dstar[0]][1] == "call.kwargs.items()" and norm(s.func.args[1]) == "call.name"
    rep.check(ok, "FLOW", "Sequence.build|replays-built-arguments", "getattr(seq, call.name)(*built_args, **built_kwargs)", "the to-build replay no longer passes the built args/kwargs of the stored call", E.where(build))
    # order: _calls[1:] replayed before _to_build_calls
    lines = {}
    for n in own_nodes(build):
        if isinstance(n, ast.For):
            it = norm(n.iter)
            if it.endswith("._calls[1:]"):
                lines["calls"] = n.lineno
            if it == "self._to_build_calls":
                lines["to_build"] = n.lineno
    rep.check("calls" in lines and "to_build" in lines and lines["calls"] < lines["to_build"], "FLOW", "Sequence.build|regular-calls-first", "regular calls replayed before the to-build calls", "build no longer replays _calls[1:] before _to_build_calls", E.where(build))
    # variables assigned before the to-build replay
    asg = [n.lineno for n in own_nodes(build) if isinstance(n, ast.Call) and isinstance(n.func, ast.Attribute) and n.func.attr == "_assign"]
    rep.check(bool(asg) and "to_build" in lines and max(asg) < lines["to_build"], "FLOW", "Sequence.build|assign-before-replay", "variables are assigned before parametrized calls are built", "variables are no longer assigned before the to-build replay", E.where(build))
    # the concrete register is installed before the parametrized calls are replayed
    flb = E.flow(build)
    sr_call = None
    loop = None
    for n in own_nodes(build):
        if isinstance(n, ast.Call) and isinstance(n.func, ast.Attribute) and n.func.attr == "_set_register":
            sr_call = n
        if isinstance(n, ast.For) and norm(n.iter) == "self._to_build_calls":
            loop = n
    if sr_call is None or loop is None:
        raise AnalysisError("anchor: _set_register call / to-build loop not found in Sequence.build")
    n_sr, n_loop = flb.node_of(sr_call), flb.node_of(loop.iter)
    ok = n_sr is not None and n_loop is not None and n_sr.id not in flb.reachable_from(n_loop.id) and n_loop.id in flb.reachable_from(n_sr.id)
    rep.check(ok, "FLOW", "Sequence.build|register-resolved-before-replay", "the mappable register is resolved (and global slots retargeted) before the to-build calls are replayed", "Sequence.build installs the concrete register after (part of) the to-build replay: instructions replayed before that still address all reserved qubit ids", E.where(build, sr_call))
    # ParamObj.build
    pb = E.method(PO, "build")
    c2 = _built_comprehensions(pb)
    s2 = {v[1] for v in c2.values()}
    rep.check("self.args" in s2 and "self.kwargs.items()" in s2, "FLOW", "ParamObj.build|args-and-kwargs-built", "ParamObj builds its own args and kwargs", f"ParamObj.build builds only {sorted(s2)}", E.where(pb))
    ok = any(isinstance(n, ast.If) and "isinstance(self.cls, ParamObj)" in norm(n.test) and "self.cls.build()" in norm(n) for n in ast.walk(pb.node))
    rep.check(ok, "FLOW", "ParamObj.build|cls-built", "a parametrized callable is built too", "ParamObj.build no longer builds a ParamObj `cls`", E.where(pb))
    # cache keyed on the counters of *all* variables
    ok = False
    for n in own_nodes(pb):
        if isinstance(n, ast.Assign) and isinstance(n.value, ast.DictComp):
            comp = n.value
            if norm(comp.generators[0].iter) == "self._variables.items()" and "_count" in norm(comp.value) and not comp.generators[0].ifs:
                ok = True
    cmp_ok = any(isinstance(n, ast.If) and isinstance(n.test, ast.Compare) and isinstance(n.test.ops[0], ast.NotEq) and "_vars_state" in norm(n.test) for n in ast.walk(pb.node))
    rep.check(ok and cmp_ok, "FLOW", "ParamObj.build|cache-keyed-on-all-variable-counters", "rebuilds iff the update counter of any involved variable changed", "ParamObj.build's cache is no longer keyed on the counters of all its variables: a stale instance could be returned after re-assignment", E.where(pb))
    ini = E.method(PO, "__init__")
    src = norm(ini.node)
    rep.check("chain(args, kwargs.values())" in src and "self._variables.update(x.variables)" in src, "FLOW", "ParamObj.__init__|collects-variables-of-args-and-kwargs", "variables of args and kwargs are collected", "ParamObj no longer collects the variables of both args and kwargs", E.where(ini))
    rep.floor("FLOW", 10)

    # --------------------------------------------------------------- PAIR
    var = P.cls(VAR)
    n_pair = 0
    for mname, fs in var.methods.items():
        for f in fs:
            fl2 = E.flow(f)
            wv = [e for _n, _i, e in fl2.all_events() if e.kind == "write" and any(fld == "value" for _o, fld in e.places)]
            wc = [e for _n, _i, e in fl2.all_events() if e.kind == "write" and any(fld == "_count" for _o, fld in e.places)]
            if wv:
                n_pair += 1
                rep.check(bool(wc), "PAIR", f"Variable.{mname}|value-write-bumps-_count", "value write paired with a counter bump", f"Variable.{mname} writes `value` without bumping `_count`: ParamObj caches would return stale objects", E.where(f))
                for e in wc:
                    if e.text and "_count" in e.text:
                        rep.check("self._count + 1" in e.text, "PAIR", f"Variable.{mname}|_count-incremented", "_count = _count + 1", f"`{e.text}` does not increment the counter", E.where(f, e.node))
    # no other writer of Variable.value anywhere
    writers = set()
    for f in P.all_functions():
        if f.kind == "overload":
            continue
        for _n, _i, e in E.flow(f).all_events():
            if e.kind == "write" and any(o == VAR and fld == "value" for o, fld in e.places):
                writers.add(f.short)
    rep.check(writers <= {"Variable._clear", "Variable._assign", "Variable.build"}, "PAIR", "Variable.value|who-may-write", f"writers {sorted(writers)}", f"Variable.value is written outside _assign/_clear: {sorted(writers - {'Variable._clear', 'Variable._assign'})}", E.where_mod(var.module.relpath, var.node))
    rep.floor("PAIR", 3)

    # ---------------------------------------------------------------- MAP
    br = E.fn("pulser.register.mappable_reg.MappableRegister.build_register")
    ok = False
    for n in own_nodes(br):
        if isinstance(n, ast.DictComp) and norm(n.generators[0].iter) in ("self._qubit_ids", "self.qubit_ids"):
            ok = True
    rep.check(ok, "MAP", "MappableRegister.build_register|declared-order", "qubits placed in declared order", "build_register no longer iterates the declared qubit ids", E.where(br))
    cq = E.method(SEQ, "_check_qubits_give_ids")
    rep.check("self._register.qubit_ids[int(index)]" in norm(cq.node), "MAP", "Sequence._check_qubits_give_ids|index-against-register-order", "indices resolve against register.qubit_ids", "index targeting no longer resolves against the register's qubit order", E.where(cq))
    sr = E.method(SEQ, "_set_register")
    rep.check("seq._register = reg" in norm(sr.node) and "seq._qids = qids" in norm(sr.node), "MAP", "Sequence._set_register|register-and-ids-updated", "the built sequence gets the concrete register and its ids", "_set_register no longer updates both the register and the qubit-id set of the built sequence", E.where(sr))
    rep.floor("MAP", 3)
    # ARGS: queries on a parametrized sequence read the stored (not yet executed) calls; they may index the positional
    # arguments only where the argument must be positional -- otherwise a call the direct construction accepts makes
    # the template raise IndexError
    from .. import callargs

    scopes = [f for f in callargs.default_scopes(E, ("pulser.sequence",)) if not f.module.name.endswith("_switch_device")]
    extra = callargs.check(E, rep, scopes, "ARGS")
    rep.floor("ARGS", 3)
    return {"replay_sites": n_replay, "value_writers": sorted(writers), **extra}
