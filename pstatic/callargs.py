"""ARGS rule: positional indexing into *recorded* calls.

A recorded ``_Call(name, args, kwargs)`` keeps the caller's own split between positional and keyword
arguments.  Code that later inspects or rewrites the log (device switch, parametrized-sequence queries,
serializer) may read ``call.args[k]`` only on paths where parameter k of the method ``call.name`` is known
to have been passed positionally: the parameter has no default (or the path holds a length / truth guard on
the argument tuple) and the path has excluded the keyword form (``'<param>' in call.kwargs`` tested before).

The methods a path can be about are taken from the tests on ``call.name`` that enclose the use (==, in a
literal tuple, substring) -- for a helper taking a ``_Call`` parameter, from the tests enclosing its call
sites.  A path whose method set cannot be determined is counted as undetermined and not reported.
"""
from __future__ import annotations

import ast
from typing import Iterable, Optional

from .absval import abstractor
from .engine import SEQ, Engine
from .model import FunctionInfo, dotted, norm
from .report import Report


def _own_nodes(f: FunctionInfo):
    stack = list(ast.iter_child_nodes(f.node))
    while stack:
        n = stack.pop()
        if isinstance(n, (ast.FunctionDef, ast.AsyncFunctionDef, ast.ClassDef)):
            continue
        yield n
        stack.extend(ast.iter_child_nodes(n))


def _has_default(m: FunctionInfo, pname: str) -> bool:
    a = m.node.args
    pos = [x.arg for x in a.posonlyargs + a.args]
    if pname in pos:
        return pos.index(pname) >= len(pos) - len(a.defaults)
    for x, d in zip(a.kwonlyargs, a.kw_defaults):
        if x.arg == pname:
            return d is not None
    return True


def _positional_params(m: FunctionInfo) -> list[str]:
    a = m.node.args
    return [x.arg for x in a.posonlyargs + a.args][1:]


class _Facts:
    """What one conjunction of path conditions says about the recorded call held in variable ``cv``."""

    def __init__(self) -> None:
        self.names: Optional[set] = None  # candidate method names (None = unconstrained)
        self.not_names: set = set()
        self.kw_in: set = set()
        self.kw_out: set = set()
        self.len_guard: Optional[int] = None  # args known to hold more than this many entries - 1

    def restrict(self, s: Iterable[str]) -> None:
        s = set(s)
        self.names = s if self.names is None else (self.names & s)


def _facts(conj, cv: str, a_alias: set, k_alias: set, all_names: set) -> _Facts:
    fx = _Facts()
    for l in conj:
        txt = l.text
        if l.atom is None:
            if l.truth is not None and l.positive and txt in a_alias:
                fx.len_guard = max(fx.len_guard or 0, 1)
            continue
        try:
            c = ast.parse(txt, mode="eval").body
        except SyntaxError:
            continue
        if not (isinstance(c, ast.Compare) and len(c.ops) == 1):
            continue
        lt, rt, rel = c.left, c.comparators[0], l.atom.rel
        ltx, rtx = norm(lt), norm(rt)
        if ltx == f"{cv}.name":
            if isinstance(rt, ast.Constant) and isinstance(rt.value, str):
                if rel == "Eq":
                    fx.restrict({rt.value})
                elif rel == "NotEq":
                    fx.not_names.add(rt.value)
            elif isinstance(rt, (ast.Tuple, ast.List, ast.Set)) and all(isinstance(e, ast.Constant) for e in rt.elts):
                vals = {e.value for e in rt.elts}
                if rel == "In":
                    fx.restrict(vals)
                elif rel == "NotIn":
                    fx.not_names |= vals
        elif rtx == f"{cv}.name" and isinstance(lt, ast.Constant) and isinstance(lt.value, str):
            sub = {n for n in all_names if lt.value in n}
            if rel == "In":
                fx.restrict(sub)
            elif rel == "NotIn":
                fx.not_names |= sub
        elif isinstance(lt, ast.Constant) and isinstance(lt.value, str) and rtx in k_alias:
            if rel == "In":
                fx.kw_in.add(lt.value)
            elif rel == "NotIn":
                fx.kw_out.add(lt.value)
        elif isinstance(lt, ast.Call) and norm(lt.func) == "len" and lt.args and norm(lt.args[0]) in a_alias and isinstance(rt, ast.Constant) and isinstance(rt.value, int):
            n = rt.value
            if rel == "Gt":
                fx.len_guard = max(fx.len_guard or 0, n + 1)
            elif rel in ("GtE", "Eq"):
                fx.len_guard = max(fx.len_guard or 0, n)
    return fx


def check(E: Engine, rep: Report, scopes: list[FunctionInfo], rule: str = "ARGS") -> dict:
    rec = E.recordable()
    all_names = set(rec)
    n_sites = n_undet = 0
    for g in scopes:
        ab = None
        call_vars: list[tuple[str, ast.AST, Optional[set]]] = []  # (name, region, caller-derived names)
        for n in _own_nodes(g):
            if isinstance(n, ast.For) and isinstance(n.target, ast.Name) and "_calls" in norm(n.iter):
                call_vars.append((n.target.id, n, None))
            elif isinstance(n, (ast.ListComp, ast.SetComp, ast.GeneratorExp, ast.DictComp)):
                for gen in n.generators:
                    if isinstance(gen.target, ast.Name) and "_calls" in norm(gen.iter):
                        call_vars.append((gen.target.id, n, None))
        a = g.node.args
        for p in a.posonlyargs + a.args + a.kwonlyargs:
            if p.annotation is not None and norm(p.annotation).strip("'\"").split(".")[-1] == "_Call":
                names: Optional[set] = set()
                for caller, ev in E.callers_of(g):
                    cab = abstractor(E.flow(caller))
                    # the argument expression bound to p at this site
                    call = ev.node
                    argx = None
                    if isinstance(call, ast.Call):
                        params = [x.arg for x in a.posonlyargs + a.args]
                        if g.cls is not None and params and params[0] in ("self", "cls"):
                            params = params[1:]
                        if p.arg in params and params.index(p.arg) < len(call.args):
                            argx = call.args[params.index(p.arg)]
                        for kw in call.keywords:
                            if kw.arg == p.arg:
                                argx = kw.value
                    if not isinstance(argx, ast.Name):
                        names = None
                        break
                    site_names: set = set()
                    for conj in cab.enclosing_conditions(call):
                        fx = _facts(conj, argx.id, set(), set(), all_names)
                        if fx.names is None:
                            site_names = None  # type: ignore[assignment]
                            break
                        site_names |= fx.names - fx.not_names
                    if site_names is None:
                        names = None
                        break
                    names |= site_names
                call_vars.append((p.arg, g.node, names))
        for cv, region, caller_names in call_vars:
            a_alias, k_alias = {f"{cv}.args"}, {f"{cv}.kwargs"}
            for n in ast.walk(region):
                if isinstance(n, ast.Assign) and len(n.targets) == 1 and isinstance(n.targets[0], ast.Name):
                    v = norm(n.value)
                    if v in (f"list({cv}.args)", f"{cv}.args", f"[*{cv}.args]"):
                        a_alias.add(n.targets[0].id)
                    if v in (f"{cv}.kwargs.copy()", f"{cv}.kwargs", f"dict({cv}.kwargs)", f"{{**{cv}.kwargs}}"):
                        k_alias.add(n.targets[0].id)
            for n in ast.walk(region):
                if isinstance(n, ast.Subscript) and norm(n.value) in a_alias and isinstance(n.slice, ast.Constant) and isinstance(n.slice.value, int) and n.slice.value >= 0:
                    k = n.slice.value
                elif isinstance(n, ast.Call) and isinstance(n.func, ast.Attribute) and n.func.attr == "pop" and norm(n.func.value) in a_alias and len(n.args) == 1 and isinstance(n.args[0], ast.Constant) and isinstance(n.args[0].value, int) and n.args[0].value >= 0:
                    k = n.args[0].value
                else:
                    continue
                ab = ab or abstractor(E.flow(g))
                n_sites += 1
                problems: list[str] = []
                undet = False
                for conj in ab.enclosing_conditions(n):
                    fx = _facts(conj, cv, a_alias, k_alias, all_names)
                    if fx.len_guard is not None and fx.len_guard > k:
                        continue
                    cand = fx.names
                    if cand is None:
                        cand = caller_names
                    if cand is None:
                        undet = True
                        continue
                    for mname in sorted(cand - fx.not_names):
                        m = rec.get(mname)
                        if m is None:
                            continue
                        params = _positional_params(m)
                        allp = params + [x.arg for x in m.node.args.kwonlyargs]
                        if any(q not in allp for q in fx.kw_in) and m.node.args.kwarg is None:
                            continue  # this method has no such keyword: path infeasible for it
                        if k >= len(params):
                            if m.node.args.vararg is None:
                                problems.append(f"`{mname}` has only {len(params)} positional parameter(s)")
                            else:
                                problems.append(f"`{mname}`: argument {k} belongs to *{m.node.args.vararg.arg}, which may be empty")
                            continue
                        pk = params[k]
                        if pk in fx.kw_in:
                            problems.append(f"`{mname}`: on this path `{pk}` was passed by keyword, so the positional tuple is shorter")
                        elif _has_default(m, pk):
                            problems.append(f"`{mname}({', '.join(params)})`: parameter `{pk}` has a default, so a recorded call may hold fewer than {k + 1} positional argument(s)")
                        elif pk not in fx.kw_out:
                            problems.append(f"`{mname}({', '.join(params)})`: `{pk}` may have been passed by keyword (the path does not exclude `'{pk}' in {sorted(k_alias)[0]}`)")
                if undet and not problems:
                    n_undet += 1
                key = f"{g.short}|{norm(n)}|positional-argument-present"
                rep.check(not problems, rule, key, f"`{norm(n)}` is read only where argument {k} of the recorded call is positional and mandatory" + (" (method set undetermined on some path: not decided there)" if undet else ""),
                          f"{g.short}: `{norm(n)}` indexes the positional arguments of a recorded call, but {problems[0] if problems else ''} -- IndexError (or the wrong argument) for a call the user wrote validly", E.where(g, n))
    return {"positional_index_sites": n_sites, "undetermined": n_undet}


def default_scopes(E: Engine, modules: tuple[str, ...]) -> list[FunctionInfo]:
    out = []
    for f in E.P.all_functions():
        if f.kind == "overload" or not f.module.name.startswith(modules):
            continue
        out.append(f)
    return out
