"""Interprocedural summaries: write effects and escaping explicit raises (DESIGN 2.6)."""
from __future__ import annotations

import ast
from dataclasses import dataclass
from typing import Iterable, Optional

from .flow import Event, FunctionFlow, Node, flow_of
from .model import FunctionInfo, Program, dotted, norm
from .resolve import Callable_, Resolver


@dataclass(frozen=True)
class Write:
    owner: str  # class qualname or '?'
    field: str
    op: str
    root: str  # self | param:<n> | global | unk | outer:...
    origin: str  # short qualname of the function holding the write statement
    text: str

    @property
    def region(self) -> tuple[str, str]:
        return (self.owner, self.field)


@dataclass(frozen=True)
class Raise:
    fn: str  # short qualname of the raising function
    exc: str
    guard: str  # normalised text-free signature of the guard (may be '')


class Summaries:
    """Fixpoint of (writes, raises) over the callable graph reachable on demand."""

    def __init__(self, R: Resolver):
        self.R = R
        self.P = R.P
        self.writes: dict[str, set[Write]] = {}
        self.raises: dict[str, set[Raise]] = {}
        self.asserts: dict[str, set[str]] = {}
        self.unresolved: dict[str, set[str]] = {}
        self.reflective: dict[str, set[str]] = {}
        self._callables: dict[str, Callable_] = {}
        self._deps: dict[str, set[str]] = {}
        self._rdeps: dict[str, set[str]] = {}
        self._map_cache: dict[tuple, frozenset] = {}
        self._bind_cache: dict[tuple, tuple] = {}
        self._done = False
        self.reflective_targets: Optional[list[Callable_]] = None

    # ------------------------------------------------------------ bootstrap
    def ensure(self, roots: Iterable[Callable_]) -> None:
        """Compute summaries for everything reachable from ``roots``."""
        work = list(roots)
        seen = set(self._callables)
        new = []
        while work:
            c = work.pop()
            if c.key in seen:
                continue
            seen.add(c.key)
            self._callables[c.key] = c
            new.append(c)
            fl = flow_of(self.R, c)
            deps = set()
            for _n, _i, e in fl.all_events():
                for cal, _mode in e.callees:
                    deps.add(cal.key)
                    if cal.key not in seen:
                        work.append(cal)
                if e.kind == "reflective" and self.reflective_targets:
                    for cal in self.reflective_targets:
                        deps.add(cal.key)
                        if cal.key not in seen:
                            work.append(cal)
            self._deps[c.key] = deps
        for c in new:
            self.writes.setdefault(c.key, set())
            self.raises.setdefault(c.key, set())
            self.asserts.setdefault(c.key, set())
            self.unresolved.setdefault(c.key, set())
        if not new:
            return
        for k, ds in self._deps.items():
            for d in ds:
                self._rdeps.setdefault(d, set()).add(k)
        # worklist fixpoint (sets only grow)
        work = {c.key for c in new}
        steps = 0
        while work:
            k = work.pop()
            steps += 1
            w, r = self._compute(self._callables[k])
            grew = False
            if not w <= self.writes[k]:
                self.writes[k] |= w
                grew = True
            if not r <= self.raises[k]:
                self.raises[k] |= r
                grew = True
            if grew:
                work |= self._rdeps.get(k, set())
            if steps > 200000:
                raise RuntimeError("summary fixpoint did not converge")

    # -------------------------------------------------------- per function
    def event_effects(self, fl: FunctionFlow, node: Node, e: Event) -> tuple[set[Write], set[Raise]]:
        """Writes and escaping raises of a single event, in the frame of ``fl``'s function."""
        w: set[Write] = set()
        r: set[Raise] = set()
        short = fl.fn.short
        if e.kind == "write":
            for owner, fld in e.places:
                for root in e.roots:
                    if root == "fresh":
                        continue
                    w.add(Write(owner, fld, e.op, root, short, e.text))
        elif e.kind == "raise":
            if not fl.caught(node, e.exc):
                r.add(Raise(short, e.exc, ""))
        elif e.kind in ("call", "getprop", "setprop"):
            for cal, mode in e.callees:
                cw = self.writes.get(cal.key, set())
                cr = self.raises.get(cal.key, set())
                for x in cw:
                    places = [(x.owner, x.field)]
                    if x.field == "<obj>" and x.root.startswith("param:") and x.owner == "?" + x.root:
                        # the callee mutates the object passed for a parameter:
                        # the storage is whatever the argument expression denotes here
                        arg = self._bind(e, cal, mode)[0].get(x.root[len("param:"):])
                        if isinstance(arg, ast.AST):
                            places = fl.place(arg) or places
                    for root in self._map_root(fl, e, cal, mode, x.root):
                        if root == "fresh":
                            continue
                        for owner, fld in places:
                            w.add(Write(owner, fld, x.op, root, x.origin, x.text))
                for x in cr:
                    if not fl.caught(node, x.exc):
                        r.add(x)
        elif e.kind == "reflective" and self.reflective_targets:
            n = e.node
            from .resolve import reflective_getattr

            ga = reflective_getattr(n, fl.ctx) if isinstance(n, ast.Call) else None
            recv = ga.args[0] if ga is not None and ga.args else None
            rroots = fl.roots(recv) if recv is not None else frozenset({"unk"})
            for cal in self.reflective_targets:
                for x in self.writes.get(cal.key, set()):
                    roots = rroots if x.root == "self" else frozenset({"unk"}) if x.root.startswith("param:") else frozenset({x.root})
                    for root in roots:
                        if root != "fresh":
                            w.add(Write(x.owner, x.field, x.op, root, x.origin, x.text))
                for x in self.raises.get(cal.key, set()):
                    if not fl.caught(node, x.exc):
                        r.add(x)
        return w, r

    def _map_root(self, fl: FunctionFlow, e: Event, cal: Callable_, mode: str, root: str) -> frozenset:
        if root in ("global", "unk"):
            return frozenset({root})
        k = (id(e), cal.key, mode, root)
        hit = self._map_cache.get(k)
        if hit is None:
            hit = self._map_root_(fl, e, cal, mode, root)
            self._map_cache[k] = hit
        return hit

    def _bind(self, e: Event, cal: Callable_, mode: str) -> tuple[dict, bool, list, dict]:
        """param name -> argument expression ('<fresh>' for a constructed self)."""
        k = (id(e), cal.key, mode)
        hit = self._bind_cache.get(k)
        if hit is not None:
            return hit
        n = e.node
        recv: Optional[ast.AST] = None
        args: list[ast.AST] = []
        kws: dict[str, ast.AST] = {}
        star = False
        if isinstance(n, ast.Call) and e.kind == "call":
            if isinstance(n.func, ast.Attribute):
                recv = n.func.value
            for a in n.args:
                if isinstance(a, ast.Starred):
                    star = True
                args.append(a)
            for kw in n.keywords:
                if kw.arg is None:
                    star = True
                else:
                    kws[kw.arg] = kw.value
        elif isinstance(n, ast.Attribute):  # getprop
            recv = n.value
        elif isinstance(n, ast.Subscript):  # __getitem__
            recv = n.value
            args = [n.slice]
        elif isinstance(n, (ast.Assign, ast.AnnAssign, ast.AugAssign, ast.Delete)):
            tgt = n.targets[0] if isinstance(n, (ast.Assign, ast.Delete)) else n.target
            if isinstance(tgt, (ast.Attribute, ast.Subscript)):
                recv = tgt.value
            if isinstance(n, (ast.Assign, ast.AnnAssign, ast.AugAssign)) and n.value is not None:
                args = ([tgt.slice] if isinstance(tgt, ast.Subscript) else []) + [n.value]
        params = self._positional_params(cal.fn)
        bound_first = mode in ("bound", "ctor")
        out: dict = {}
        full: list = []
        if bound_first:
            full.append("<fresh>" if mode == "ctor" else recv)
        full += args
        for i, pn in enumerate(params):
            if i < len(full):
                if any(isinstance(a, ast.Starred) for a in full[: i + 1] if not isinstance(a, str) and a is not None):
                    break
                out[pn] = full[i]
        for kname, v in kws.items():
            out[kname] = v
        hit = (out, star, args, kws)
        self._bind_cache[k] = hit
        return hit

    def _map_root_(self, fl: FunctionFlow, e: Event, cal: Callable_, mode: str, root: str) -> frozenset:
        if root.startswith("outer:"):
            # closure variable of a nested function: same frame as the definer
            if cal.fn.parent is fl.fn:
                return frozenset({root[len("outer:"):]})
            return frozenset({"unk"})
        if root == "self":
            pname = self._self_param(cal.fn)
            if pname is None:
                return frozenset({"unk"})
        elif root.startswith("param:"):
            pname = root[len("param:"):]
        else:
            return frozenset({"unk"})
        bind, star, args, kws = self._bind(e, cal, mode)
        if pname in bind:
            x = bind[pname]
            if x == "<fresh>":
                return frozenset({"fresh"})
            if x is None:
                return frozenset({"unk"})
            if isinstance(x, ast.Call) and (dotted(x.func) or "") == "super":
                return frozenset({"self"})
            return fl.roots(x)
        if star:
            return frozenset({"unk"})
        if pname in cal.fn.param_defaults():
            return frozenset({"global"})
        a = cal.fn.node.args
        if (a.vararg and a.vararg.arg == pname) or (a.kwarg and a.kwarg.arg == pname):
            out = set()
            for x in args:
                out |= fl.roots(x.value if isinstance(x, ast.Starred) else x)
            for x in kws.values():
                out |= fl.roots(x)
            return frozenset(out) or frozenset({"fresh"})
        return frozenset({"unk"})

    @staticmethod
    def _positional_params(f: FunctionInfo) -> list[str]:
        a = f.node.args
        return [x.arg for x in a.posonlyargs + a.args]

    @staticmethod
    def _self_param(f: FunctionInfo) -> Optional[str]:
        a = f.node.args
        pos = a.posonlyargs + a.args
        if not pos:
            return None
        if f.cls is not None and f.parent is None and f.kind != "staticmethod":
            return pos[0].arg
        # decorator wrappers take self explicitly
        if pos[0].arg == "self":
            return "self"
        return None

    def _compute(self, c: Callable_) -> tuple[set[Write], set[Raise]]:
        fl = flow_of(self.R, c)
        W: set[Write] = set()
        Rz: set[Raise] = set()
        sn = self._self_param(c.fn)
        for node, _i, e in fl.all_events():
            w, r = self.event_effects(fl, node, e)
            # in the function's own frame 'self' is only meaningful if it has one
            W |= w
            Rz |= r
            if e.kind == "unresolved":
                self.unresolved[c.key].add(e.text)
            if e.kind == "assert":
                self.asserts[c.key].add(e.text)
        return W, Rz

    # ------------------------------------------------------------- queries
    def of(self, c: Callable_ | FunctionInfo) -> tuple[set[Write], set[Raise]]:
        if isinstance(c, FunctionInfo):
            c = self.R.effective(c)
        self.ensure([c])
        return self.writes[c.key], self.raises[c.key]

    def reachable(self, c: Callable_) -> set[str]:
        self.ensure([c])
        seen: set[str] = set()
        stack = [c.key]
        while stack:
            k = stack.pop()
            if k in seen:
                continue
            seen.add(k)
            stack.extend(self._deps.get(k, ()))
        return seen
