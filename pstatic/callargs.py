"""ARGS rule: positional indexing into *recorded* calls.

A recorded ``_Call(name, args, kwargs)`` keeps the caller's own split between positional and keyword
arguments.  Code that later inspects or rewrites the log (device switch, parametrized-sequence queries,
serializer) may read ``call.args[k]`` only on paths where parameter k of the method ``call.name`` is known
to have been passed positionally: the parameter has no default (or the path holds a length / truth guard on
the argument tuple) and the path has excluded the keyword form (``'<param>' in call.kwargs`` tested before).

The rule works on the symbolic normal form (pstatic/sym.py), so local aliases (``args = list(call.args)``,
``calls = seq._calls[1:] + ...``), conditional expressions and private helpers do not matter.  The methods a
path can be about are taken from the tests on ``call.name`` in the path condition (==, membership in a literal
tuple, substring) -- for a helper taking a ``_Call`` parameter, from the path conditions of its call sites.
A path whose method set cannot be determined is counted as undetermined and not reported.
"""
from __future__ import annotations

import ast
from typing import Optional

from . import sym
from .engine import Engine
from .model import FunctionInfo, norm
from .report import Report
from .sym import Term


def _has_default(m: FunctionInfo, pname: str) -> bool:
    a = m.node.args
    pos = [x.arg for x in a.posonlyargs + a.args]
    if pname in pos:
        return pos.index(pname) >= len(pos) - len(a.defaults)
    for x, d in zip(a.kwonlyargs, a.kw_defaults):
        if x.arg == pname:
            return d is not None
    return True


def _positional_params(m: FunctionInfo) -> list[str]:
    a = m.node.args
    return [x.arg for x in a.posonlyargs + a.args][1:]


def _unobj(t: Term) -> Term:
    while t[0] == "obj":
        t = t[2]
    return t


def _call_var_of(t: Term) -> Optional[Term]:
    """t denotes the positional-argument tuple of a recorded call: returns the call term."""
    u = _unobj(t)
    if u[0] == "attr" and u[2] == "args":
        return u[1]
    if u[0] == "call" and u[1] in (("name", "list"), ("name", "tuple")) and len(u[2]) == 1 and not u[3]:
        return _call_var_of(u[2][0])
    if u[0] == "list" and len(u) == 2 and u[1][0] == "star":
        return _call_var_of(u[1][1])
    return None


def _kwargs_of(t: Term) -> Optional[Term]:
    u = _unobj(t)
    if u[0] == "attr" and u[2] == "kwargs":
        return u[1]
    if u[0] == "call" and u[1][0] == "attr" and u[1][2] == "copy" and not u[2]:
        return _kwargs_of(u[1][1])
    if u[0] == "call" and u[1] == ("name", "dict") and len(u[2]) == 1:
        return _kwargs_of(u[2][0])
    return None


def _is_recorded_call(cv: Term, call_params: set) -> bool:
    """cv is an element of a collection of recorded calls, or a parameter annotated ``_Call``."""
    if cv[0] == "name":
        return cv[1] in call_params
    if cv[0] == "elem":
        return any(x[0] == "attr" and x[2] in ("_calls", "_to_build_calls") for x in sym.subterms(cv[1]))
    return False


class _Facts:
    def __init__(self) -> None:
        self.names: Optional[set] = None
        self.not_names: set = set()
        self.kw_in: set = set()
        self.kw_out: set = set()
        self.len_guard: int = 0  # the argument tuple is known to hold at least this many entries
        self.max_len: Optional[int] = None  # ... at most this many entries

    def restrict(self, s) -> None:
        s = set(s)
        self.names = s if self.names is None else (self.names & s)


def _facts(lits, cv: Term, all_names: set) -> _Facts:
    fx = _Facts()
    name_t = ("attr", cv, "name")
    for x in lits:
        if _call_var_of(x) == cv:
            fx.len_guard = max(fx.len_guard, 1)  # truth test of the tuple
            continue
        if x[0] == "not" and _call_var_of(x[1]) == cv:
            fx.max_len = 0  # `not call.args`
            continue
        if x[0] == "or":
            # name == A or name == B ...: one of these methods
            alts = set()
            for d in x[1:]:
                if d[0] == "cmp" and d[1] == "Eq" and name_t in (d[2], d[3]) and (d[2] if d[3] == name_t else d[3])[0] == "const":
                    alts.add((d[2] if d[3] == name_t else d[3])[1])
                else:
                    alts = None
                    break
            if alts:
                fx.restrict(alts)
            continue
        if x[0] != "cmp":
            continue
        op, a, b = x[1], x[2], x[3]
        for l, r in ((a, b), (b, a)):
            if l == name_t and r[0] == "const" and isinstance(r[1], str) and op in ("Eq", "NotEq"):
                if op == "Eq":
                    fx.restrict({r[1]})
                else:
                    fx.not_names.add(r[1])
        if a == name_t and b[0] in ("tuple", "list", "set") and all(e[0] == "const" for e in b[1:]) and op in ("In", "NotIn"):
            vals = {e[1] for e in b[1:]}
            if op == "In":
                fx.restrict(vals)
            else:
                fx.not_names |= vals
        if b == name_t and a[0] == "const" and isinstance(a[1], str) and op in ("In", "NotIn"):
            subn = {n for n in all_names if a[1] in n}
            if op == "In":
                fx.restrict(subn)
            else:
                fx.not_names |= subn
        if a[0] == "const" and isinstance(a[1], str) and _kwargs_of(b) == cv and op in ("In", "NotIn"):
            (fx.kw_in if op == "In" else fx.kw_out).add(a[1])
        # len(args) compared with a constant
        for l, r, o in ((a, b, op), (b, a, {"Lt": "Gt", "LtE": "GtE"}.get(op, op))):
            if l[0] == "call" and l[1] == ("name", "len") and len(l[2]) == 1 and _call_var_of(l[2][0]) == cv and r[0] == "const" and isinstance(r[1], int):
                # canonical comparisons are Lt / LtE (mirrored): const < len  /  const <= len
                if o == "Gt":  # len > const
                    fx.len_guard = max(fx.len_guard, r[1] + 1)
                elif o in ("GtE", "Eq"):
                    fx.len_guard = max(fx.len_guard, r[1])
                if o == "Lt":  # len < const
                    fx.max_len = r[1] - 1 if fx.max_len is None else min(fx.max_len, r[1] - 1)
                elif o in ("LtE", "Eq"):
                    fx.max_len = r[1] if fx.max_len is None else min(fx.max_len, r[1])
    return fx


def _uses(t: Term, conds: tuple, out: list) -> None:
    """Collect (k, call var, local conditions, the indexing term) for every constant index into a recorded call's args."""
    if not isinstance(t, tuple) or not t:
        return
    if t[0] == "ifexp":
        _uses(t[1], conds, out)
        _uses(t[2], conds + sym.conj_of(t[1]), out)
        _uses(t[3], conds + sym.conj_of(sym.mk_not(t[1])), out)
        return
    if t[0] == "and":
        for i, x in enumerate(t[1:]):
            others = tuple(y for j, y in enumerate(t[1:]) if j != i and _count_uses(y) == 0)
            _uses(x, conds + others, out)
        return
    if t[0] == "idx" and t[2][0] == "const" and isinstance(t[2][1], int) and not isinstance(t[2][1], bool) and t[2][1] >= 0:
        cv = _call_var_of(t[1])
        if cv is not None:
            out.append((t[2][1], cv, conds, t))
    if t[0] == "call" and t[1][0] == "attr" and t[1][2] == "pop" and len(t[2]) == 1 and t[2][0][0] == "const" and isinstance(t[2][0][1], int) and t[2][0][1] >= 0:
        cv = _call_var_of(t[1][1])
        if cv is not None:
            out.append((t[2][0][1], cv, conds, t))
    for x in t:
        if isinstance(x, tuple):
            _uses(x, conds, out)


def _kw_uses(t: Term, conds: tuple, out: list) -> None:
    """Collect (key, call var, local conditions, term) for every read of a recorded call's kwargs by constant key:
    `<call>.kwargs["k"]` and `<call>.kwargs.get("k", ...)`."""
    if not isinstance(t, tuple) or not t:
        return
    if t[0] == "ifexp":
        _kw_uses(t[1], conds, out)
        _kw_uses(t[2], conds + sym.conj_of(t[1]), out)
        _kw_uses(t[3], conds + sym.conj_of(sym.mk_not(t[1])), out)
        return
    # only direct reads of the recorded mapping: a local copy (`call.kwargs.copy()`, `dict(call.kwargs)`) may have
    # been completed by the function itself before it is read
    if t[0] == "idx" and t[2][0] == "const" and isinstance(t[2][1], str) and t[1][0] == "attr" and t[1][2] == "kwargs":
        out.append((t[2][1], t[1][1], conds, t, False))
    if t[0] == "call" and t[1][0] == "attr" and t[1][2] == "get" and t[2] and t[2][0][0] == "const" and isinstance(t[2][0][1], str) and t[1][1][0] == "attr" and t[1][1][2] == "kwargs":
        out.append((t[2][0][1], t[1][1][1], conds, t, True))
    for x in t:
        if isinstance(x, tuple):
            _kw_uses(x, conds, out)


def _count_uses(t: Term) -> int:
    o: list = []
    _uses(t, (), o)
    return len(o)


def check(E: Engine, rep: Report, scopes: list[FunctionInfo], rule: str = "ARGS") -> dict:
    rec = E.recordable()
    all_names = set(rec)
    n_sites = n_undet = 0
    seen_keys: set = set()
    for g in scopes:
        a = g.node.args
        call_params = {p.arg for p in a.posonlyargs + a.args + a.kwonlyargs if p.annotation is not None and norm(p.annotation).strip("'\"").split(".")[-1] == "_Call"}
        src = norm(g.node)
        if not call_params and "_calls" not in src:
            continue
        Sg = sym.sym_of(E.P, g, True)
        # names a _Call parameter can carry: from the path conditions of the call sites
        caller_names: dict[str, Optional[set]] = {}
        for p in call_params:
            names: Optional[set] = set()
            params = [x.arg for x in a.posonlyargs + a.args]
            if g.cls is not None and params and params[0] in ("self", "cls"):
                params = params[1:]
            sites = E.callers_of(g)
            if not sites:
                names = None
            for caller, _ev in sites:
                Sc = sym.sym_of(E.P, caller, False)
                for l in Sc.calls(g.name):
                    argx = None
                    if p in params and params.index(p) < len(l.value[2]):
                        argx = l.value[2][params.index(p)]
                    for k, v in l.value[3]:
                        if k == p:
                            argx = v
                    if argx is None:
                        names = None
                        continue
                    fx = _facts(sym.conj_of(l.cond), argx, all_names)
                    if fx.names is None or names is None:
                        names = None
                    else:
                        names |= fx.names - fx.not_names
            caller_names[p] = names
        for l in Sg.log:
            found: list = []
            for t in (l.target, l.value):
                if t is not None:
                    _uses(t, (), found)
            for k, cv, local, term in found:
                if not _is_recorded_call(cv, call_params):
                    continue
                lits = sym.conj_of(l.cond) + tuple(local)
                fx = _facts(lits, cv, all_names)
                who = "/".join(sorted((fx.names or set()) - fx.not_names)) or ("?" if cv[0] != "name" else "/".join(sorted(caller_names.get(cv[1]) or [])) or "?")
                key = f"{g.short}|args[{k}]|{who}|positional-argument-present"
                sig = (key, lits)
                if sig in seen_keys:
                    continue
                seen_keys.add(sig)
                n_sites += 1
                problems: list[str] = []
                undet = False
                if fx.len_guard > k + 1:
                    problems.append(f"the path requires at least {fx.len_guard} positional arguments before reading argument {k}: a recorded call with exactly {k + 1} positional argument(s) -- which does hold argument {k} -- falls through to the other branch (default / keyword lookup)")
                if fx.len_guard > k:
                    cand: Optional[set] = set()
                else:
                    cand = fx.names
                    if cand is None and cv[0] == "name":
                        cand = caller_names.get(cv[1])
                    if cand is None:
                        undet = True
                        cand = set()
                for mname in sorted(cand - fx.not_names):
                    m = rec.get(mname)
                    if m is None:
                        continue
                    params = _positional_params(m)
                    allp = params + [x.arg for x in m.node.args.kwonlyargs]
                    if any(q not in allp for q in fx.kw_in) and m.node.args.kwarg is None:
                        continue  # this method has no such keyword: path infeasible for it
                    if k >= len(params):
                        if m.node.args.vararg is None:
                            problems.append(f"`{mname}` has only {len(params)} positional parameter(s)")
                        else:
                            problems.append(f"`{mname}`: argument {k} belongs to *{m.node.args.vararg.arg}, which may be empty")
                        continue
                    pk = params[k]
                    if pk in fx.kw_in:
                        problems.append(f"`{mname}`: on this path `{pk}` was passed by keyword, so the positional tuple is shorter")
                    elif _has_default(m, pk):
                        problems.append(f"`{mname}({', '.join(params)})`: parameter `{pk}` has a default, so a recorded call may hold fewer than {k + 1} positional argument(s)")
                    elif pk not in fx.kw_out:
                        problems.append(f"`{mname}({', '.join(params)})`: `{pk}` may have been passed by keyword (the path does not exclude `'{pk}' in <call>.kwargs`)")
                if undet and not problems:
                    n_undet += 1
                rep.check(not problems, rule, key, f"`{sym.show(term)[:60]}` is read only where argument {k} of the recorded call is positional and mandatory" + (" (method set undetermined on this path: not decided there)" if undet else ""),
                          f"{g.short}: `{sym.show(term)[:80]}` indexes the positional arguments of a recorded call, but {problems[0] if problems else ''} -- IndexError (or the wrong argument) for a call the user wrote validly", E.where(g, l.node))
    # ---- the dual: a keyword read of a parameter that may have been passed positionally
    n_kw = 0
    for g in scopes:
        a = g.node.args
        call_params = {p.arg for p in a.posonlyargs + a.args + a.kwonlyargs if p.annotation is not None and norm(p.annotation).strip("'\"").split(".")[-1] == "_Call"}
        src = norm(g.node)
        if not call_params and "_calls" not in src:
            continue
        Sg = sym.sym_of(E.P, g, True)
        seen_kw: set = set()
        for l in Sg.log:
            found2: list = []
            for t in (l.target, l.value):
                if t is not None:
                    _kw_uses(t, (), found2)
            for k, cv, local, term, with_default in found2:
                if not _is_recorded_call(cv, call_params):
                    continue
                lits = sym.conj_of(l.cond) + tuple(local)
                sig = (k, cv, lits)
                if sig in seen_kw:
                    continue
                seen_kw.add(sig)
                fx = _facts(lits, cv, all_names)
                cand = fx.names
                if cand is None:
                    continue  # method set undetermined on this path: not decided
                problems = []
                for mname in sorted(cand - fx.not_names):
                    m = rec.get(mname)
                    if m is None:
                        continue
                    params = _positional_params(m)
                    if k not in params:
                        continue  # keyword-only (or absent) for this method: can only be in kwargs
                    i = params.index(k)
                    if k in fx.kw_in or (fx.max_len is not None and fx.max_len <= i):
                        continue
                    problems.append(f"`{mname}({', '.join(params)})`: `{k}` is positional parameter {i}; a call recorded as `{mname}(<value>, ...)` keeps it in `.args`, so this read " + ("silently takes the fallback" if with_default else "raises KeyError"))
                n_kw += 1
                who = "/".join(sorted(cand - fx.not_names)) or "?"
                rep.check(not problems, rule, f"{g.short}|kwargs[{k}]|{who}|keyword-argument-present", f"`{sym.show(term)[:60]}` is read only where `{k}` cannot have been passed positionally (or the keyword form was tested)",
                          f"{g.short}: `{sym.show(term)[:80]}` reads a keyword of a recorded call, but {problems[0] if problems else ''} (the path neither tests `'{k}' in <call>.kwargs` nor excludes positional arguments)", E.where(g, l.node))
    return {"positional_index_sites": n_sites, "undetermined": n_undet, "keyword_read_sites": n_kw}


def default_scopes(E: Engine, modules: tuple[str, ...]) -> list[FunctionInfo]:
    out = []
    for f in E.P.all_functions():
        if f.kind == "overload" or not f.module.name.startswith(modules):
            continue
        out.append(f)
    return out
