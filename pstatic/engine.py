"""Shared analysis context for all rules."""
from __future__ import annotations

import ast
from typing import Iterable, Optional

from .effects import Summaries, Write
from .flow import Event, FunctionFlow, flow_of
from .model import AnalysisError, ClassInfo, FunctionInfo, Program, dotted, load, norm
from .resolve import Callable_, Resolver

# Modules whose classes hold the mutable state of a Sequence (regions are
# derived: every field of every class defined there).
STATE_MODULES = (
    "pulser.sequence.sequence",
    "pulser.sequence._schedule",
    "pulser.sequence._basis_ref",
    "pulser.sequence._call",
)
SEQ = "pulser.sequence.sequence.Sequence"
SCHED = "pulser.sequence._schedule._Schedule"
CHS = "pulser.sequence._schedule._ChannelSchedule"
DMMS = "pulser.sequence._schedule._DMMSchedule"
DECOS = "pulser.sequence._decorators"


class Engine:
    def __init__(self, root: Optional[str] = None):
        self.P: Program = load(root) if root else load()
        self.R = Resolver(self.P)
        self.S = Summaries(self.R)
        self._entries: Optional[list[Callable_]] = None
        self._recordable: Optional[dict[str, FunctionInfo]] = None

    # -------------------------------------------------------------- anchors
    def cls(self, q: str) -> ClassInfo:
        return self.P.cls(q)

    def fn(self, q: str) -> FunctionInfo:
        return self.P.fn(q)

    def method(self, cq: str, name: str, kind: Optional[str] = None) -> FunctionInfo:
        c = self.P.cls(cq)
        fs = [f for f in c.methods.get(name, []) if f.kind != "overload" and (kind is None or f.kind == kind)]
        if not fs:
            raise AnalysisError(f"anchor: method {cq}.{name} not found")
        return fs[-1] if kind is None and fs[-1].kind != "setter" else fs[0]

    def where(self, f: FunctionInfo, node: Optional[ast.AST] = None) -> str:
        line = getattr(node, "lineno", None) or f.node.lineno
        return f"{f.module.relpath}:{line} ({f.short})"

    def where_mod(self, relpath: str, node: Optional[ast.AST] = None) -> str:
        return f"{relpath}:{getattr(node, 'lineno', 0)}"

    # -------------------------------------------------------- sequence API
    def is_state_region(self, owner: str) -> bool:
        return any(owner.startswith(m + ".") for m in STATE_MODULES)

    def recordable(self) -> dict[str, FunctionInfo]:
        """Methods of Sequence whose calls are recorded in the call log (derived).

        = decorated with ``store``  ∪  those that append ``_Call("<own name>", ...)`` themselves.
        """
        if self._recordable is not None:
            return self._recordable
        seq = self.P.cls(SEQ)
        out: dict[str, FunctionInfo] = {}
        for name, fs in seq.methods.items():
            for f in fs:
                if f.kind == "overload":
                    continue
                if any((dotted(d) or "").split(".")[-1] == "store" for d in f.decorators):
                    out[name] = f
                else:
                    for n in ast.walk(f.node):
                        if (
                            isinstance(n, ast.Call)
                            and (dotted(n.func) or "") == "_Call"
                            and n.args
                            and isinstance(n.args[0], ast.Constant)
                            and n.args[0].value == name
                        ):
                            out[name] = f
        # ... or through a private helper that builds the record from a name it is given (symbolic normal form:
        # helpers inlined, so the _Call's first argument is the constant the method passed)
        helpers = {
            name for name, fs in seq.methods.items() if name.startswith("_") and not name.startswith("__")
            for f in fs if any(isinstance(n, ast.Call) and (dotted(n.func) or "") == "_Call" for n in ast.walk(f.node))
        }
        if helpers:
            from . import sym

            for name, fs in seq.methods.items():
                if name in out or name.startswith("_"):
                    continue
                for f in fs:
                    if f.kind == "overload":
                        continue
                    if not any(isinstance(n, ast.Call) and isinstance(n.func, ast.Attribute) and n.func.attr in helpers and isinstance(n.func.value, ast.Name) and n.func.value.id == "self" for n in ast.walk(f.node)):
                        continue
                    for l in sym.sym_of(self.P, f, True).calls("_Call"):
                        a = l.value[2]
                        if a and a[0] == ("const", name):
                            out[name] = f
        self._recordable = out
        return out

    def public_entries(self) -> list[FunctionInfo]:
        seq = self.P.cls(SEQ)
        out = []
        for name, fs in seq.methods.items():
            if name.startswith("_") and not (name.startswith("__") and name.endswith("__")):
                continue
            for f in fs:
                if f.kind != "overload":
                    out.append(f)
        return out

    def prepare_summaries(self) -> None:
        if self._entries is not None:
            return
        rec = self.recordable()
        self.S.reflective_targets = [self.R.effective(f) for n, f in sorted(rec.items()) if n != "__init__"]
        seq = self.P.cls(SEQ)
        entries = []
        for name, fs in seq.methods.items():
            for f in fs:
                if f.kind != "overload":
                    entries.append(self.R.effective(f))
        for q in ("pulser.sampler.sampler.sample", "pulser.sequence.helpers._switch_device.switch_device", "pulser.json.abstract_repr.serializer.serialize_abstract_sequence"):
            entries.append(self.R.effective(self.P.fn(q)))
        self.S.ensure(entries)
        self._entries = entries

    def reachable_callables(self, roots: Iterable[Callable_]) -> list[Callable_]:
        self.prepare_summaries()
        keys: set[str] = set()
        for r in roots:
            keys |= self.S.reachable(r)
        return [self.S._callables[k] for k in sorted(keys)]

    def state_writes(self, ws: Iterable[Write]) -> set[Write]:
        return {w for w in ws if self.is_state_region(w.owner)}

    # ------------------------------------------------- whole-program index
    def call_index(self) -> dict:
        """callee qualname -> [(caller FunctionInfo, event)] over *all* functions of the program."""
        if getattr(self, "_call_index", None) is None:
            idx: dict = {}
            n_calls = 0
            for f in list(self.P.all_functions()):
                if f.kind == "overload":
                    continue
                fl = flow_of(self.R, f)
                for _n, _i, e in fl.all_events():
                    if e.kind in ("call", "getprop", "setprop"):
                        n_calls += 1
                        for c, _m in e.callees:
                            idx.setdefault(c.innermost().qualname, []).append((f, e))
            self._call_index = idx
            self._n_call_events = n_calls
        return self._call_index

    def callers_of(self, callee: FunctionInfo) -> list:
        return self.call_index().get(callee.qualname, [])

    # ----------------------------------------------------------- misc utils
    def flow(self, f: FunctionInfo | Callable_) -> FunctionFlow:
        return flow_of(self.R, f)

    def unresolved_in(self, cs: Iterable[Callable_]) -> dict[str, list[str]]:
        out = {}
        for c in cs:
            u = self.S.unresolved.get(c.key)
            if u:
                out[c.fn.short] = sorted(u)
        return out


def event_desc(e: Event) -> str:
    """Stable, text-free descriptor of an event (used in finding keys)."""
    if e.kind == "write":
        places = ",".join(sorted({o.split(".")[-1] + "." + f for o, f in e.places}))
        return f"write:{places}:{e.op}"
    if e.kind == "raise":
        return "raise:" + e.exc
    if e.kind == "reflective":
        return "replay"
    if e.kind == "assert":
        return "assert"
    if e.kind == "unresolved":
        return "unresolved:" + e.text
    if e.via:
        return f"{e.kind}:<{e.via}>"
    names = {c.innermost().short for c, _m in e.callees}
    return e.kind + ":" + "|".join(sorted(names))
