"""C04 finding 5: a sequence that declares a variable without (yet) using it
is NOT parametrized, but after a legacy JSON encode/decode round trip it is:
the decoder derives the parametrized state from "are there declared
variables" instead of "are there calls waiting to be built"."""
import json
import sys
import warnings

from pulser import Pulse, Register, Sequence
from pulser.devices import MockDevice
from pulser.json.coders import PulserDecoder, PulserEncoder

warnings.simplefilter("ignore")

reg = Register.square(2, 5, prefix="q")
seq = Sequence(reg, MockDevice)
seq.declare_channel("ch", "rydberg_global")
seq.declare_variable("x")  # declared, never used
seq.add(Pulse.ConstantPulse(100, 1.0, 0.0, 0.0), "ch")

legacy = json.loads(json.dumps(seq, cls=PulserEncoder), cls=PulserDecoder)
abstract = Sequence.from_abstract_repr(seq.to_abstract_repr())

ok = True
for label, s in (("original", seq), ("abstract", abstract), ("legacy", legacy)):
    try:
        dur = s.get_duration()
    except RuntimeError as e:
        dur = f"RuntimeError: {e}"
    print(
        f"{label:9s}: is_parametrized={s.is_parametrized()}, "
        f"variables={list(s.declared_variables)}, get_duration() -> {dur}"
    )
    if s.is_parametrized() != seq.is_parametrized() or dur != seq.get_duration():
        ok = False

# A genuinely parametrized sequence must still come back parametrized
seq_p = Sequence(reg, MockDevice)
seq_p.declare_channel("ch", "rydberg_global")
x = seq_p.declare_variable("x")
seq_p.add(Pulse.ConstantPulse(100, x, 0.0, 0.0), "ch")
seq_p.delay(100, "ch")
legacy_p = json.loads(json.dumps(seq_p, cls=PulserEncoder), cls=PulserDecoder)
if not legacy_p.is_parametrized() or len(legacy_p._to_build_calls) != 2:
    print("parametrized sequence not restored as parametrized")
    ok = False
elif legacy_p.build(x=2.0).get_duration() != seq_p.build(x=2.0).get_duration():
    ok = False

print("PASS" if ok else "FAIL")
sys.exit(0 if ok else 1)
