"""C12 / finding 1: the layout-filling limit is computed as
int(n_traps * max_layout_filling); the float product can fall just short of
the exact integer (50 * 0.58 -> 28.999999999999996, 90 * 0.7 ->
62.99999999999999), so a register whose filling fraction is exactly the
maximum is rejected, the device-aware automatic layout produces a register
its own device rejects, and a consistent Device cannot be constructed.
"""
import sys
import warnings
from dataclasses import replace

import numpy as np

from pulser import Register
from pulser.devices import AnalogDevice, Device
from pulser.register.special_layouts import SquareLatticeLayout

warnings.simplefilter("ignore")
failures = []

# (a) explicit validation: 29 atoms in 50 traps is a filling of exactly 0.58
dev = replace(
    AnalogDevice,
    max_layout_filling=0.58,
    optimal_layout_filling=None,
    pre_calibrated_layouts=(),
)
layout = SquareLatticeLayout(5, 10, 5)
assert layout.number_of_traps == 50
reg = layout.define_register(*range(29))
assert len(reg.qubit_ids) / layout.number_of_traps <= dev.max_layout_filling
try:
    dev.validate_register(reg)
except ValueError as e:
    failures.append(f"(a) 29 atoms / 50 traps, max filling 0.58 rejected: {e}")
# one more atom really is too many and must still be rejected
try:
    dev.validate_register(layout.define_register(*range(30)))
    failures.append("(a') 30 atoms / 50 traps, max filling 0.58 accepted")
except ValueError:
    pass

# (b) the automatic layout of a valid register must be accepted by the device
base = Register.rectangle(5, 6, spacing=5, prefix="q")
reg29 = Register(dict(list(base.qubits.items())[:29]))
dev.validate_register(reg29)
auto = reg29.with_automatic_layout(dev)
try:
    dev.validate_register(auto)
except ValueError as e:
    failures.append(
        f"(b) with_automatic_layout() register ({len(auto.qubit_ids)} atoms /"
        f" {auto.layout.number_of_traps} traps) rejected by its device: {e}"
    )

# (c) 63 atoms in at most 90 traps at filling 0.7 is a consistent device
try:
    Device(
        name="Dev",
        dimensions=2,
        rydberg_level=60,
        min_atom_distance=4,
        max_atom_num=63,
        max_radial_distance=40,
        max_layout_filling=0.7,
        max_layout_traps=90,
    )
except ValueError as e:
    failures.append(f"(c) consistent Device cannot be constructed: {e}")
# whereas an inconsistent one must still be refused
try:
    Device(
        name="Dev",
        dimensions=2,
        rydberg_level=60,
        min_atom_distance=4,
        max_atom_num=64,
        max_radial_distance=40,
        max_layout_filling=0.7,
        max_layout_traps=90,
    )
    failures.append("(c') inconsistent Device (64 atoms > 0.7 * 90) accepted")
except ValueError:
    pass

if failures:
    print("FAIL")
    for f in failures:
        print(" -", f)
    sys.exit(1)
print("PASS")
