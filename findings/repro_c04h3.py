"""C04 finding 3: numpy floating scalars other than float64 (e.g. the
np.float32 items of a float32 array of angles) are accepted by
Sequence.phase_shift / enable_eom_mode / add_eom_pulse, but both the abstract
and the legacy serialisers then crash with "Object of type float32 is not JSON
serializable" (numpy integer scalars are handled, numpy floating ones are
not)."""
import json
import sys
import warnings

import numpy as np

from pulser import Pulse, Register, Sequence
from pulser.devices import AnalogDevice, MockDevice
from pulser.json.coders import PulserDecoder, PulserEncoder
from pulser.sampler import sample

warnings.simplefilter("ignore")

angles = np.linspace(0, 1, 5, dtype=np.float32)  # items are np.float32


def seq_phase_shift():
    reg = Register.square(2, 5, prefix="q")
    seq = Sequence(reg, MockDevice)
    seq.declare_channel("ch", "raman_local", initial_target="q0")
    seq.phase_shift(angles[1], "q0")
    seq.add(Pulse.ConstantPulse(100, 1.0, 0.0, 0.0), "ch")
    return seq


def seq_eom():
    reg = Register.square(2, 6, prefix="q")
    seq = Sequence(reg, AnalogDevice)
    seq.declare_channel("ch", "rydberg_global")
    seq.enable_eom_mode("ch", amp_on=angles[4], detuning_on=angles[0])
    seq.add_eom_pulse("ch", 100, phase=angles[2], post_phase_shift=angles[1])
    seq.disable_eom_mode("ch")
    return seq


def same(s1, s2):
    a, b = sample(s1), sample(s2)
    for ch in a.channel_samples:
        for f in ("amp", "det", "phase"):
            x = getattr(a.channel_samples[ch], f).as_array()
            y = getattr(b.channel_samples[ch], f).as_array()
            if x.shape != y.shape or not np.allclose(x, y):
                return False
    for basis, refs in s1._basis_ref.items():
        for q, ref in refs.items():
            if not np.isclose(
                float(ref.phase.last_phase),
                float(s2._basis_ref[basis][q].phase.last_phase),
            ):
                return False
    return True


ok = True
for name, maker in (("phase_shift", seq_phase_shift), ("EOM", seq_eom)):
    seq = maker()  # building works
    for kind in ("abstract", "legacy"):
        try:
            if kind == "abstract":
                seq2 = Sequence.from_abstract_repr(seq.to_abstract_repr())
            else:
                seq2 = json.loads(
                    json.dumps(seq, cls=PulserEncoder), cls=PulserDecoder
                )
            res = same(seq, seq2)
            print(f"{name} / {kind}: round trip done, identical: {res}")
            ok &= res
        except Exception as e:  # noqa
            print(f"{name} / {kind}: failed with {type(e).__name__}: {e}")
            ok = False

print("PASS" if ok else "FAIL")
sys.exit(0 if ok else 1)
