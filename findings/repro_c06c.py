"""C06 finding 2: the per-atom view drops the EOM off-detuning of the padding.

A channel that is still in EOM mode is padded with its 'detuning_off' when its
duration is extended (ChannelSamples.extend_duration, also used by
to_nested_dict() to bring every channel to the longest duration). The 'Global'
view keeps that padding, but the per-atom view (all_local=True, or any Local
channel) only copies the samples that lie inside pulse slots, so the atoms see
the off-detuning for one fall time after the last slot and then 0.
"""
import sys
import warnings

import numpy as np

from pulser import Register, Sequence
from pulser.devices import AnalogDevice
from pulser.sampler import sample

warnings.simplefilter("ignore")

reg = Register({"q0": (0, 0), "q1": (10, 0)})
seq = Sequence(reg, AnalogDevice)
seq.declare_channel("ryd", "rydberg_global")
seq.enable_eom_mode("ryd", amp_on=1.0, detuning_on=0.0, optimal_detuning_off=-10)
seq.add_eom_pulse("ryd", 100, 0.0)
seq.delay(52, "ryd")  # idles in EOM mode (the channel is 152 ns long)
assert seq.is_in_eom_mode("ryd")
det_off = float(seq._schedule["ryd"].eom_blocks[-1].detuning_off)
assert det_off != 0

samples = sample(seq, extended_duration=400)
ch_det = samples.channel_samples["ryd"].det.as_array()
# Per-channel: pulse (det 0), then detuning_off until the end of the padding
assert np.all(ch_det[:100] == 0) and np.all(ch_det[100:] == det_off)

glob = samples.to_nested_dict()["Global"]["ground-rydberg"]["det"]
loc = samples.to_nested_dict(all_local=True)["Local"]["ground-rydberg"]

ok = np.array_equal(glob, ch_det)
print("Global view follows the channel samples:", ok)
for q in ("q0", "q1"):
    same = np.array_equal(loc[q]["det"], ch_det)
    ok &= same
    bad = np.flatnonzero(loc[q]["det"] != ch_det)
    print(
        f"per-atom view of {q} follows the channel samples: {same}"
        + ("" if same else f" (det is {loc[q]['det'][bad[0]]} instead of "
           f"{ch_det[bad[0]]} for t in [{bad[0]}, {bad[-1]}])")
    )

print("PASS" if ok else "FAIL")
sys.exit(0 if ok else 1)
