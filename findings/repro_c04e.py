"""C04: a sequence BUILT from a template whose target_index argument is an item of a variable (`v[0]`) cannot be
serialised: the built argument is a 0-d AbstractArray, which unfold_targets tries to turn into a list
(TypeError: len() of unsized object).  Exit 1 when the defect is present."""
import json
import sys
from pulser import Pulse, Register, Sequence
from pulser.devices import DigitalAnalogDevice

reg = Register.square(2, spacing=6, prefix="q")
seq = Sequence(reg, DigitalAnalogDevice)
seq.declare_channel("ram", "raman_local", initial_target="q0")
v = seq.declare_variable("t", dtype=int, size=1)
seq.target_index(v[0], "ram")
seq.add(Pulse.ConstantPulse(100, 1.0, 0.0, 0.0), "ram")
built = seq.build(t=[2])
try:
    doc = built.to_abstract_repr()
except Exception as e:  # noqa: BLE001
    print("FAIL: built.to_abstract_repr() raised", type(e).__name__, e)
    sys.exit(1)
ops = [op for op in json.loads(doc)["operations"] if op["op"] == "target"]
back = Sequence.from_abstract_repr(doc)
same = back._schedule["ram"].slots[-1].targets == built._schedule["ram"].slots[-1].targets
print("targets written:", ops, "round trip equal:", same)
sys.exit(0 if same and ops[-1]["target"] == 2 else 1)
