#!/usr/bin/env python3
"""House-keeping validation of /verif (not a registered check): schemas, finding commits, determinism under PYTHONHASHSEED."""
import json
import os
import subprocess
import sys

VERIF = os.path.dirname(os.path.dirname(os.path.abspath(__file__)))
sys.path.insert(0, "/opt/veriftools/pyvenv/lib/python3.11/site-packages")
import jsonschema  # noqa: E402


def main() -> int:
    rc = 0
    man = json.load(open(os.path.join(VERIF, "MANIFEST.json")))
    jsonschema.validate(man, json.load(open("/root/.vp/MANIFEST.schema.json")))
    props = [json.loads(l)["id"] for l in open(os.path.join(VERIF, "properties.jsonl"))]
    claimed = [c["property_id"] for c in man["checks"]]
    na = [x["property_id"] for x in man.get("not_applicable", [])]
    assert sorted(claimed + na) == sorted(props), (claimed, na)
    kf = json.load(open(os.path.join(VERIF, "known_findings.json")))["findings"]
    for e in kf:
        if e["status"] == "fixed":
            p = subprocess.run(["git", "-C", "/repo", "cat-file", "-t", e["commit"]], capture_output=True, text=True)
            if p.stdout.strip() != "commit":
                print("BAD fixed commit", e["commit"], e["key"])
                rc = 1
            msg = subprocess.run(["git", "-C", "/repo", "log", "-1", "--format=%s", e["commit"]], capture_output=True, text=True).stdout
            if not msg.startswith("fix:"):
                print("commit is not a fix:", e["commit"], msg)
                rc = 1
    t = subprocess.run(["python3-vt", os.path.join(VERIF, "tools", "test_sym.py")], cwd=VERIF, capture_output=True, text=True)
    if t.returncode != 0:
        print("test_sym failed:\n" + t.stdout[-2000:])
        rc = 1
    outs = {}
    for seed in ("0", "1", "12345"):
        for pid in claimed:
            env = dict(os.environ, PYTHONHASHSEED=seed)
            p = subprocess.run(["python3-vt", "check.py", pid, "--tier", "quick"], cwd=VERIF, env=env, capture_output=True, text=True)
            last = [l for l in p.stdout.splitlines() if l.startswith(("OK ", "VIOLATION", "ANALYSIS-ERROR"))]
            sig = (p.returncode, tuple(l.split(" wall=")[0] for l in last))
            if pid in outs and outs[pid] != sig:
                print("NONDETERMINISTIC", pid, outs[pid], sig)
                rc = 1
            outs[pid] = sig
            if p.returncode != 0:
                print("NOT CLEAN", pid, sig)
                rc = 1
            ev = json.load(open(os.path.join(VERIF, "evidence", f"{pid}.json")))
            jsonschema.validate(ev, json.load(open("/root/.vp/EVIDENCE.schema.json")))
    print("validate:", "ok" if rc == 0 else "PROBLEMS", len(claimed), "checks x 3 hash seeds")
    return rc


if __name__ == "__main__":
    sys.exit(main())
