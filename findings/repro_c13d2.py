"""C13 finding 2: a parametrized sequence declares the one DMM of a physical
device twice through config_slm_mask().

DigitalAnalogDevice has reusable_channels=False and a single DMM 'dmm_0'.
In Ising mode config_slm_mask() declares the DMM it uses, so it must be
refused when 'dmm_0' is already declared (by config_detuning_map() or by an
earlier config_slm_mask()), exactly as the regular sequence refuses it and
as the parametrized config_detuning_map() refuses it.
"""
import sys
import warnings

from pulser import Register, Sequence
from pulser.devices import DigitalAnalogDevice

warnings.simplefilter("ignore")
assert not DigitalAnalogDevice.reusable_channels
assert list(DigitalAnalogDevice.dmm_channels) == ["dmm_0"]
reg = Register.from_coordinates([(0, 0), (0, 6)], prefix="q")
det_map = reg.define_detuning_map({"q0": 1.0})
problems = []


def make(parametrized, first):
    seq = Sequence(reg, DigitalAnalogDevice)
    seq.declare_channel("g", "rydberg_global")
    t = seq.declare_variable("t", dtype=int)
    if first == "detuning_map_before":
        seq.config_detuning_map(det_map, "dmm_0")
    seq.delay(t if parametrized else 100, "g")
    assert seq.is_parametrized() == parametrized
    if first == "detuning_map_after":
        seq.config_detuning_map(det_map, "dmm_0")
    elif first == "slm_mask":
        seq.config_slm_mask(["q0"], "dmm_0")
    return seq


for first in ("detuning_map_before", "detuning_map_after", "slm_mask"):
    outcome = {}
    for parametrized in (False, True):
        seq = make(parametrized, first)
        try:
            seq.config_slm_mask(["q1"], "dmm_0")
            outcome[parametrized] = "accepted"
        except ValueError as e:
            outcome[parametrized] = f"refused ({e})"
        dmms = [n for n in seq.declared_channels if n.startswith("dmm_")]
        if len(dmms) > 1:
            problems.append(
                f"[{first}, parametrized={parametrized}] the device's single "
                f"DMM is declared {len(dmms)} times: {dmms}"
            )
    if outcome[False].startswith("refused") and outcome[True] == "accepted":
        problems.append(
            f"[{first}] second declaration of 'dmm_0' by config_slm_mask(): "
            f"regular sequence {outcome[False]}, parametrized sequence "
            f"{outcome[True]}"
        )

if problems:
    print("FAIL")
    for p in problems:
        print(" -", p)
    sys.exit(1)
print("PASS")
