"""C06 -- sampling renders the schedule exactly (narrow)."""
from __future__ import annotations

import ast

from ..absval import abstractor
from ..engine import CHS, Engine
from ..model import AnalysisError, dotted, norm
from ..report import Report
from .common import av, own_nodes, returns

EXPLANATION = (
    "SIB: amplitude, detuning and phase are written over identical index ranges: in _ChannelSchedule.get_samples amp and det are accumulated over the same slot slice from the pulse's amplitude resp. detuning samples; "
    "in SequenceSamples.to_nested_dict each group of three accumulating statements (amp/det/phase) is identical after substituting the quantity, the single allowed difference being the detuning-map weight factor on "
    "det in the per-atom branch; extend_duration pads all arrays by (0, extension): amp with zeros, det with the EOM off-detuning iff the last EOM block is still open (else 0), phase with its edge value. "
    "GUARD: the SLM-mask start offset is applied only in XY mode; the per-atom mask shift only for masked targets in XY; the weight map is the detuning map's only for DMM samples (1.0 otherwise). "
    "CONTRA: inside the sampling functions a sequence-valued access path that some branch treats as possibly empty is never indexed with a constant without a dominating non-empty guard. "
    "NOT decided: the every-nanosecond equality of samples and schedule (runtime arrays)."
)
ASSUMPTIONS = ["statement groups are compared structurally after substituting the quantity key"]

SS = "pulser.sampler.samples.SequenceSamples"
CS = "pulser.sampler.samples.ChannelSamples"
QUANT = {"_AMP": "amp", "_DET": "det", "_PHASE": "phase"}


def _parse_acc(st: ast.AugAssign):
    """d[...][Q][idx] += cs.q[idx] (* w)  ->  (prefix text, Q, target idx, source attr, source idx, factor text)"""
    if not (isinstance(st, ast.AugAssign) and isinstance(st.op, ast.Add) and isinstance(st.target, ast.Subscript)):
        return None
    t = st.target
    tidx = norm(t.slice)
    inner = t.value
    if not (isinstance(inner, ast.Subscript) and isinstance(inner.slice, ast.Name) and inner.slice.id in QUANT):
        return None
    q = inner.slice.id
    prefix = norm(inner.value)
    v = st.value
    factor = ""
    if isinstance(v, ast.BinOp) and isinstance(v.op, ast.Mult):
        factor = norm(v.right)
        v = v.left
    if not (isinstance(v, ast.Subscript) and isinstance(v.value, ast.Attribute)):
        return None
    return prefix, q, tidx, norm(v.value.value), v.value.attr, norm(v.slice), factor


def run(E: Engine, rep: Report, tier: str) -> dict:
    P = E.P
    tnd = E.method(SS, "to_nested_dict")
    # ---------------------------------------------------------------- SIB
    groups: list[list] = []

    def scan(body: list[ast.stmt]) -> None:
        cur: list = []
        for st in body:
            p = _parse_acc(st) if isinstance(st, ast.AugAssign) else None
            if p is not None:
                cur.append((st, p))
            else:
                if cur:
                    groups.append(cur)
                    cur = []
                for blk in ("body", "orelse", "finalbody"):
                    sub = getattr(st, blk, None)
                    if isinstance(sub, list):
                        scan(sub)
        if cur:
            groups.append(cur)

    scan(tnd.node.body)
    for gi, g in enumerate(groups):
        qs = [p[1] for _st, p in g]
        where = E.where(tnd, g[0][0])
        key = f"to_nested_dict|group{gi}|{g[0][1][0][:24]}"
        ok_keys = sorted(qs) == sorted(QUANT)
        same_prefix = len({p[0] for _s, p in g}) == 1
        same_tidx = len({p[2] for _s, p in g}) == 1
        same_src = len({p[3] for _s, p in g}) == 1
        same_sidx = len({p[5] for _s, p in g}) == 1
        matches = all(QUANT[p[1]] == p[4] for _s, p in g)
        idx_agree = all(p[2] == p[5] for _s, p in g)
        factors = {p[1]: p[6] for _s, p in g}
        fac_ok = factors.get("_AMP", "") == "" and factors.get("_PHASE", "") == "" and factors.get("_DET", "") in ("", "det_weight_map[t]")
        detail = f"quantities {qs}, index {sorted({p[2] for _s, p in g})}, sources {sorted({p[3] + '.' + p[4] for _s, p in g})}, factors {factors}"
        rep.check(ok_keys and same_prefix and same_tidx and same_src and same_sidx and matches and idx_agree and fac_ok, "SIB", key, "amp/det/phase accumulated over the same range from the matching source", f"the amp/det/phase statements of this group disagree: {detail}", where)
    if len(groups) < 3:
        rep.error(f"only {len(groups)} amp/det/phase groups found in to_nested_dict (expected 3)")
    # the weight factor appears exactly in the per-atom branch
    w_groups = [g for g in groups if any(p[6] for _s, p in g)]
    rep.check(len(w_groups) == 1 and all(p[6] == "det_weight_map[t]" for _s, p in w_groups[0] if p[1] == "_DET"), "SIB", "to_nested_dict|weight-on-det-only", "DMM weight multiplies the detuning of the targeted atom only", "the detuning-map weight is applied to something else than the per-atom detuning", E.where(tnd))
    # get_samples
    gs = E.method(CHS, "get_samples")
    accs = [n for n in own_nodes(gs) if isinstance(n, ast.AugAssign) and isinstance(n.target, ast.Subscript) and isinstance(n.target.value, ast.Name) and n.target.value.id in ("amp", "det")]
    ok = len(accs) == 2 and len({norm(a.target.slice) for a in accs}) == 1
    srcs = {a.target.value.id: norm(a.value) for a in accs}
    rep.check(ok and "amplitude" in srcs.get("amp", "") and "detuning" in srcs.get("det", "") and norm(accs[0].target.slice).replace(" ", "") == "s.ti:s.tf", "SIB", "get_samples|amp-det-same-slot-slice", "amp[s.ti:s.tf] += amplitude samples; det[s.ti:s.tf] += detuning samples", f"get_samples accumulates {srcs} over {[norm(a.target.slice) for a in accs]}", E.where(gs))
    ph = [n for n in own_nodes(gs) if isinstance(n, ast.Assign) and isinstance(n.targets[0], ast.Subscript) and norm(n.targets[0].value) == "phase"]
    rep.check(len(ph) == 1 and norm(ph[0].value) == "pulse.phase" and norm(ph[0].targets[0].slice).startswith("t_start"), "SIB", "get_samples|phase-from-t_start-on", "phase[t_start:] = pulse.phase", "the phase samples are no longer overwritten from t_start on with the pulse's phase", E.where(gs))
    only_pulses = any(isinstance(n, ast.ListComp) and "isinstance(s.type, Pulse)" in norm(n) for n in own_nodes(gs))
    rep.check(only_pulses, "SIB", "get_samples|only-pulse-slots", "only slots holding a Pulse contribute samples", "get_samples no longer filters the pulse slots", E.where(gs))
    # extend_duration
    ed = E.method(CS, "extend_duration")
    pads = {}
    for n in own_nodes(ed):
        if isinstance(n, ast.Assign) and isinstance(n.value, ast.Call) and (dotted(n.value.func) or "").endswith("pad"):
            c = n.value
            pads[norm(n.targets[0])] = (norm(c.args[0]), norm(c.args[1]) if len(c.args) > 1 else "", {k.arg: norm(k.value) for k in c.keywords})
    ok = all(v[1].replace(" ", "") == "(0,extension)" for v in pads.values()) and len(pads) >= 3
    rep.check(ok, "SIB", "extend_duration|pad-at-the-end-only", f"{sorted(pads)} padded by (0, extension)", f"extend_duration pads {pads}", E.where(ed))
    a = pads.get("new_amp", ("", "", {}))
    d = pads.get("new_detuning", ("", "", {}))
    p_ = pads.get("new_phase", ("", "", {}))
    rep.check(a[0] == "self.amp" and not a[2], "SIB", "extend_duration|amp-zeros", "amplitude padded with zeros", f"amplitude padding changed: {a}", E.where(ed))
    rep.check(d[0] == "self.det" and d[2].get("constant_values") == "final_detuning", "SIB", "extend_duration|det-final_detuning", "detuning padded with final_detuning", f"detuning padding changed: {d}", E.where(ed))
    rep.check(p_[0] == "self.phase" and "edge" in p_[2].get("mode", ""), "SIB", "extend_duration|phase-edge", "phase padded with its last value", f"phase padding changed: {p_}", E.where(ed))
    ab = abstractor(E.flow(ed))
    fd = [n for n in own_nodes(ed) if isinstance(n, ast.Assign) and norm(n.targets[0]) == "final_detuning"]
    ok = False
    for n in fd:
        if "detuning_off" in norm(n.value):
            dnf = ab.enclosing_conditions(n)
            ok = any(any(l.atom is not None and l.atom.rel == "Is" and "self.eom_blocks.tf" in l.atom.lhs.roots for l in c) and any(l.truth is not None and l.positive and "self.eom_blocks" in l.truth.roots for l in c) for c in dnf)
    rep.check(ok and any(norm(n.value) in ("0.0", "0") for n in fd), "SIB", "extend_duration|off-detuning-iff-eom-open", "pads with detuning_off iff the last EOM block is still open (tf is None), else 0", "the condition for padding with the EOM off-detuning changed", E.where(ed))
    # the block whose off-detuning pads is the block the guard found open
    for n in fd:
        if "detuning_off" not in norm(n.value):
            continue
        tested = set()
        for c in ab.enclosing_conditions(n):
            for l in c:
                if l.atom is not None and l.atom.rel == "Is":
                    try:
                        cmp_ = ast.parse(l.text, mode="eval").body
                    except SyntaxError:
                        continue
                    if isinstance(cmp_, ast.Compare) and isinstance(cmp_.left, ast.Attribute) and cmp_.left.attr == "tf" and isinstance(cmp_.left.value, ast.Subscript):
                        tested.add(norm(cmp_.left.value))
        used = {norm(x.value) for x in ast.walk(n.value) if isinstance(x, ast.Attribute) and x.attr == "detuning_off" and isinstance(x.value, ast.Subscript)}
        rep.check(bool(tested) and used <= tested and bool(used), "SIB", "extend_duration|pads-with-the-block-found-open", f"detuning_off read from {sorted(used)}, the element whose tf is tested", f"extend_duration tests {sorted(tested)}.tf is None but pads with the off-detuning of {sorted(used)}: with several EOM blocks of different off-detunings the padding is that of another block", E.where(ed, n))
    # per-target window stays inside the slot: slice(start, s.tf) with start = s.ti or max(start, ...)
    n_win = 0
    for loop in own_nodes(tnd):
        if not (isinstance(loop, ast.For) and isinstance(loop.target, ast.Name) and norm(loop.iter).endswith(".slots")):
            continue
        sv = loop.target.id
        body_nodes = [x for st in loop.body for x in ast.walk(st)]
        for a in body_nodes:
            if not (isinstance(a, ast.Assign) and isinstance(a.value, ast.Call) and norm(a.value.func) == "slice" and len(a.value.args) == 2):
                continue
            n_win += 1
            lo, hi = a.value.args
            bad = None
            if norm(hi) != f"{sv}.tf":
                bad = f"the window ends at `{norm(hi)}`, not at the slot's end `{sv}.tf`"
            defs = [x.value for x in body_nodes if isinstance(x, ast.Assign) and len(x.targets) == 1 and isinstance(lo, ast.Name) and norm(x.targets[0]) == lo.id] if isinstance(lo, ast.Name) else [lo]
            for dv in defs:
                if norm(dv) == f"{sv}.ti":
                    continue
                if isinstance(dv, ast.Call) and norm(dv.func) in ("max", "np.maximum") and any(norm(x) in (f"{sv}.ti", norm(lo)) for x in dv.args):
                    continue
                bad = bad or f"the window start `{norm(lo)} = {norm(dv)}` is not bounded below by the slot's start `{sv}.ti`"
            if not defs:
                bad = bad or f"the window start `{norm(lo)}` has no definition in the slot loop"
            rep.check(bad is None, "SIB", f"to_nested_dict|window-within-slot|{norm(a.targets[0])}", f"`{norm(a)}` with start = {sv}.ti or max(start, ...)", f"to_nested_dict: {bad} -- samples of other slots are attributed to (added again for) the atom", E.where(tnd, a))
    rep.floor("SIB", 14)

    # -------------------------------------------------------------- GUARD
    ok = any(isinstance(n, ast.Assign) and norm(n.targets[0]) == "start_t" and isinstance(n.value, ast.IfExp) and norm(n.value.test) == "in_xy" and "_slm_mask.end" in norm(n.value.body) and norm(n.value.orelse) == "0" for n in own_nodes(tnd))
    rep.check(ok, "GUARD", "to_nested_dict|slm-offset-only-in-xy", "start_t = slm_mask.end if in_xy else 0", "the SLM mask offset of global channels is no longer restricted to XY mode", E.where(tnd))
    ok = any(isinstance(n, ast.If) and norm(n.test) == "in_xy and t in self._slm_mask.targets" for n in own_nodes(tnd))
    rep.check(ok, "GUARD", "to_nested_dict|mask-shift-only-masked-xy", "per-atom start shifted only for masked targets in XY", "the per-atom SLM shift condition changed", E.where(tnd))
    ok = False
    for n in own_nodes(tnd):
        if isinstance(n, ast.If) and norm(n.test) == "is_dmm":
            ok = "get_qubit_weight_map" in norm(ast.Module(body=n.body, type_ignores=[])) and "1.0" in norm(ast.Module(body=n.orelse, type_ignores=[]))
    rep.check(ok, "GUARD", "to_nested_dict|weights-only-for-dmm", "detuning-map weights for DMM samples, 1.0 otherwise", "the weight map selection changed", E.where(tnd))
    isd = any(isinstance(n, ast.Assign) and norm(n.targets[0]) == "is_dmm" and "isinstance(samples, DMMSamples)" in norm(n.value) for n in own_nodes(tnd))
    rep.check(isd, "GUARD", "to_nested_dict|is_dmm-by-type", "is_dmm = isinstance(samples, DMMSamples)", "is_dmm is no longer decided by the samples' type", E.where(tnd))
    rep.floor("GUARD", 4)

    # ------------------------------------------------------------- CONTRA
    n_idx = 0
    for f in (tnd, gs, ed, E.method(CS, "modulate")):
        ab = abstractor(E.flow(f))
        maybe_empty: dict[str, str] = {}
        for n in own_nodes(f):
            if isinstance(n, (ast.If, ast.IfExp, ast.While)):
                for conj in ab.literals(n.test):
                    for lit in conj:
                        if lit.truth is not None and lit.atom is None and lit.text.endswith(("slots", "eom_blocks", "samples_list", "targets")) and lit.text.replace(".", "").replace("_", "").isalnum():
                            maybe_empty[lit.text] = norm(n.test)
        for n in own_nodes(f):
            if isinstance(n, ast.Subscript) and isinstance(n.ctx, ast.Load) and (isinstance(n.slice, ast.Constant) or (isinstance(n.slice, ast.UnaryOp) and isinstance(n.slice.operand, ast.Constant))):
                path = norm(n.value)
                if path in maybe_empty:
                    n_idx += 1
                    dnf = ab.enclosing_conditions(n)
                    guarded = all(any(l.truth is not None and l.atom is None and l.positive and l.text == path for l in c) for c in dnf)
                    rep.check(guarded, "CONTRA", f"{f.short}|{norm(n)}", "constant index under a non-empty guard", f"`{norm(n)}` is indexed with a constant although the same function treats `{path}` as possibly empty (`{maybe_empty[path]}`): a channel without such entries raises IndexError here", E.where(f, n))
    rep.floor("CONTRA", 2)
    return {"groups": len(groups), "constant_indexings_of_maybe_empty": n_idx}
