"""C15 - enable_eom_mode(correct_phase_drift=True) corrects for the wrong time.

The drift is counted from the end of the *unrounded* fall time of the last
pulse, but the buffer at 'detuning_off' only starts once that fall time has
been rounded up to the channel's clock period (and min_duration). The phase
correction therefore over-corrects, and the populations differ from those of
the same pulses played with zero off-detuning.
"""
import dataclasses
import sys

import numpy as np

import pulser
from pulser import Pulse, Register, Sequence
from pulser.channels import Rydberg
from pulser.channels.eom import RydbergBeam, RydbergEOM
from pulser.devices import VirtualDevice
from pulser.sampler import sample
from pulser_simulation import QutipEmulator


DEVICE = VirtualDevice(
    name="Dev",
    dimensions=2,
    rydberg_level=70,
    channel_objects=(
        Rydberg.Global(
            1000,
            200,
            clock_period=16,
            min_duration=16,
            mod_bandwidth=7.0,  # rise time 68 ns -> fall time 136 ns
            eom_config=RydbergEOM(
                mod_bandwidth=30.0,
                limiting_beam=RydbergBeam.RED,
                max_limiting_amp=50 * 2 * np.pi,
                intermediate_detuning=800 * 2 * np.pi,
                controlled_beams=(RydbergBeam.BLUE,),
            ),
        ),
    ),
)


def build(correct: bool) -> Sequence:
    reg = Register({"q0": (0, 0), "q1": (50, 0)})
    seq = Sequence(reg, DEVICE)
    seq.declare_channel("ch", "rydberg_global")
    seq.add(Pulse.ConstantPulse(96, 6.0, 0.0, 0.0), "ch")
    seq.enable_eom_mode(
        "ch", 20.0, 0.0, optimal_detuning_off=-100, correct_phase_drift=correct
    )
    seq.add_eom_pulse("ch", 96, 0.0, correct_phase_drift=correct)
    seq.disable_eom_mode("ch", correct_phase_drift=correct)
    return seq


def populations(samples, seq):
    sim = QutipEmulator(samples, seq.register, seq.device)
    state = sim.run().get_final_state().full().ravel()
    return np.abs(state) ** 2


seq_c = build(True)
seq_n = build(False)
sch = seq_c._schedule["ch"]
block = sch.eom_blocks[0]
det_off = float(block.detuning_off)
assert det_off != 0
buffer_slot = [s for s in sch.slots if s.tf == block.ti][-1]
print("channel schedule:")
print(seq_c)
print(f"buffer at detuning_off={det_off:.3f} lasts {buffer_slot.ti}->{buffer_slot.tf} ns")
eom_pulse = sch.last_pulse_slot(ignore_detuned_delay=True).type
expected = (det_off * (buffer_slot.tf - buffer_slot.ti) * 1e-3) % (2 * np.pi)
print(f"phase of the EOM pulse: {float(eom_pulse.phase):.4f}, expected {expected:.4f}")

# Reference: the same pulses (uncorrected phases) with zero off-detuning
ss = sample(seq_n)
cs = ss.samples_list[0]
det = cs.det.as_array().copy()
det[cs.amp.as_array() == 0] = 0.0
zero = pulser.math.AbstractArray(0.0)
cs_ref = dataclasses.replace(
    cs,
    det=pulser.math.AbstractArray(det),
    eom_blocks=[dataclasses.replace(b, detuning_off=zero) for b in cs.eom_blocks],
)
ref = dataclasses.replace(ss, samples_list=[cs_ref])

p_corr = populations(sample(seq_c), seq_c)
p_ref = populations(ref, seq_n)
print("populations, drift corrected :", np.round(p_corr, 4))
print("populations, zero off-detuning:", np.round(p_ref, 4))
diff = float(np.max(np.abs(p_corr - p_ref)))
print(f"max population difference: {diff:.2e}")
if diff > 1e-3 or not np.isclose(float(eom_pulse.phase), expected):
    print("FAIL")
    sys.exit(1)
print("PASS")
