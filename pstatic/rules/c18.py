"""C18 -- switching device or register preserves the program."""
from __future__ import annotations

import ast

from ..engine import CHS, SCHED, SEQ, Engine
from ..flow import flow_of
from ..guards import always_raises
from ..model import AnalysisError, FunctionInfo, dotted, norm
from ..report import Report
from .common import own_nodes

EXPLANATION = (
    "TABLE/FLOW: T_timing = the set of Channel/EOM dataclass fields whose value can influence the timeline, *derived* on every run: every attribute read on a Channel-typed expression reachable from the "
    "scheduler module (through properties such as rise_time/phase_jump_time/_eom_buffer_time, Channel methods, Pulse.fall_time, Waveform.modulation_buffers), minus fields read only inside rejection guards "
    "(limits can only make the replay raise, which the property allows). Rule: every field of T_timing is compared under strict=True in check_channels_match (directly, or through a compared property that reads it), "
    "or a whole-timeline comparison over all declared channels dominates the strict return; EOM fields must be covered by the EOM config comparison / the sample comparison of EOM channels. "
    "OWN: switch_device and switch_register build the new sequence only by replaying the recorded calls on a fresh Sequence (no direct write to schedule regions). "
    "NOT decided: equality of the resulting samples (runtime). ARGS: the replay reads/rewrites a recorded call's positional arguments by constant index (or pop) only where the argument must be positional; EOM channels come from every recorded enable_eom_mode call; a conditionally compared strict parameter is compared under a condition symmetric in the old and the new channel."
    " Round 4 (added): check_channels_match answers 'match' under strict only after the strict parameter loop (or on a `not strict` path), and compares timing parameters exactly (no isclose/allclose)."
    ' Round 5 (added): the replay translates DMM names in delay/align; channel_match is read for a DMM only when declared; the relaxations on controlled_beams and custom_buffer_time are conditioned soundly; limits that shape the SLM-mask pulse are compared (KNOWN).'
)
ASSUMPTIONS = ["attribute reads are attributed to Channel fields through declared types; reflection (getattr with a computed name) in the strict comparison is resolved from the literal list it iterates"]

CH = "pulser.channels.base_channel.Channel"
EOMC = "pulser.channels.eom.BaseEOM"


def _is_limit_context(parents: dict, node: ast.AST) -> bool:
    """Read occurs only to decide a rejection (`if ...: raise`) or a None test."""
    p = parents.get(id(node))
    child = node
    while p is not None:
        if isinstance(p, ast.Compare):
            ops = [type(o).__name__ for o in p.ops]
            if all(o in ("Is", "IsNot") for o in ops):
                return True
        if isinstance(p, ast.If) and p.test is child or (isinstance(p, ast.If) and _within(p.test, node)):
            return always_raises(p.body)
        if isinstance(p, ast.Raise):
            return True  # used to build the error message
        if isinstance(p, ast.Assign) and p.value is node and len(p.targets) == 1 and isinstance(p.targets[0], ast.Name):
            # `limit = self.max_duration`: a local bound once; the read is a limit read when every use of the local is
            fn = p
            while fn is not None and not isinstance(fn, (ast.FunctionDef, ast.AsyncFunctionDef)):
                fn = parents.get(id(fn))
            name = p.targets[0].id
            if fn is not None:
                stores = [x for x in ast.walk(fn) if isinstance(x, ast.Name) and x.id == name and isinstance(x.ctx, ast.Store)]
                loads = [x for x in ast.walk(fn) if isinstance(x, ast.Name) and x.id == name and isinstance(x.ctx, ast.Load)]
                if len(stores) == 1 and loads and all(_is_limit_context(parents, x) for x in loads):
                    return True
            return False
        if isinstance(p, (ast.stmt,)):
            return False
        child = p
        p = parents.get(id(p))
    return False


def _within(root: ast.AST, node: ast.AST) -> bool:
    return any(x is node for x in ast.walk(root))


def timing_fields(E: Engine) -> tuple[dict, list]:
    """field -> [where read], derived by a worklist from the scheduler module."""
    P = E.P
    ch = P.cls(CH)
    eom = P.cls(EOMC)
    ch_classes = {c.qualname for c in [ch] + P.subclasses(ch)}
    eom_classes = {c.qualname for c in [eom] + P.subclasses(eom)}
    fields_ch = {n for c in [ch] + P.subclasses(ch) for n in {f.name for _k, f in P.dataclass_fields(c)}}
    fields_eom = {n for c in [eom] + P.subclasses(eom) for n in {f.name for _k, f in P.dataclass_fields(c)}}
    start = [f for f in P.all_functions() if f.module.name == "pulser.sequence._schedule" and f.kind != "overload"]
    # sampling helpers are not part of scheduling
    start = [f for f in start if f.name not in ("get_samples",)]
    work = list(start)
    seen = set()
    out: dict[str, list] = {}
    visited = []
    while work:
        f = work.pop()
        if f.qualname in seen:
            continue
        seen.add(f.qualname)
        visited.append(f.short)
        fl = flow_of(E.R, f)
        ctx = fl.ctx
        parents: dict[int, ast.AST] = {}
        for n in ast.walk(f.node):
            for c in ast.iter_child_nodes(n):
                parents[id(c)] = n
        for n in ast.walk(f.node):
            if isinstance(n, ast.Attribute) and isinstance(n.ctx, ast.Load):
                bt = E.R.type_of(n.value, ctx)
                quals = {a[1] for a in bt if a[0] == "inst"}
                is_ch = bool(quals & ch_classes)
                is_eom = bool(quals & eom_classes)
                if not (is_ch or is_eom):
                    continue
                flds = fields_ch if is_ch else fields_eom
                prefix = "" if is_ch else "eom_config."
                if n.attr in flds:
                    if n.attr == "eom_config":
                        continue
                    if _is_limit_context(parents, n):
                        continue
                    out.setdefault(prefix + n.attr, []).append(f"{f.short}:{n.lineno}")
                else:
                    for q in sorted(quals & (ch_classes | eom_classes)):
                        for g in P.lookup_method_with_overrides(P.classes[q], n.attr):
                            if g.qualname not in seen and g.name not in ("validate_pulse", "__post_init__", "__str__", "__repr__", "_to_dict", "_to_abstract_repr", "modulate", "apply_modulation"):
                                work.append(g)
            if isinstance(n, ast.Call):
                # a Channel passed as an argument (Pulse.fall_time(channel_obj, ...))
                passes = False
                for a in list(n.args) + [k.value for k in n.keywords]:
                    t = E.R.type_of(a, ctx)
                    if {x[1] for x in t if x[0] == "inst"} & ch_classes:
                        passes = True
                if passes:
                    cs, _st = E.R.callees(n, ctx)
                    for c, _m in cs:
                        g = c.innermost()
                        if g.qualname not in seen and g.module.name.startswith(("pulser.pulse", "pulser.waveforms", "pulser.channels")) and g.name not in ("validate_pulse", "modulate", "apply_modulation"):
                            work.append(g)
    return out, visited


def _fields_read_by(E: Engine, cls_qual: str, attr: str, _seen: set | None = None) -> set:
    """Fields read (transitively) by a property/method ``attr`` of the class; the attr itself if it is a field."""
    P = E.P
    c = P.cls(cls_qual)
    _seen = _seen or set()
    if attr in _seen:
        return set()
    _seen.add(attr)
    if P.lookup_field(c, attr):
        return {attr}
    out = set()
    for g in P.lookup_method(c, attr):
        sn = g.params[0] if g.params else "self"
        for n in ast.walk(g.node):
            if isinstance(n, ast.Attribute) and isinstance(n.value, ast.Name) and n.value.id == sn:
                out |= _fields_read_by(E, cls_qual, n.attr, _seen)
            if isinstance(n, ast.Attribute) and isinstance(n.value, ast.Attribute) and norm(n.value) == f"{sn}.eom_config":
                out.add("eom_config." + n.attr)
            if isinstance(n, ast.Attribute) and isinstance(n.value, ast.Call) and "eom_config" in norm(n.value):
                out.add("eom_config." + n.attr)
    return out


def SEQ_METHODS(E: Engine) -> set:
    return set(E.P.cls(SEQ).methods)


def run(E: Engine, rep: Report, tier: str) -> dict:
    P = E.P
    timing, visited = timing_fields(E)
    sw = E.fn("pulser.sequence.helpers._switch_device.switch_device")
    ccm = sw.nested.get("check_channels_match")
    bsm = sw.nested.get("build_sequence_from_matching")
    if ccm is None or bsm is None:
        raise AnalysisError("anchor: check_channels_match / build_sequence_from_matching not found")
    # ------------------------------------------ fields compared under strict
    from .. import sym
    from .symutil import S, arg, elem_of, has, is_, mentions, sh, unobj

    compared: set[str] = set()
    Sc = S(E, ccm)

    def items_of(lst) -> list:
        """[(condition, constant)] of a list built by a literal (with conditional splats) and/or appends."""
        out = []
        base = unobj(lst)
        if base[0] in ("list", "tuple"):
            for el in base[1:]:
                if el[0] == "const":
                    out.append((sym.TRUE, el[1]))
                elif el[0] == "star":
                    from .symutil import branches as _br

                    for conds, leaf in _br(unobj(el[1])):
                        leaf = unobj(leaf)
                        if leaf[0] in ("list", "tuple"):
                            out += [(sym.mk_and(conds), x[1]) for x in leaf[1:] if x[0] == "const"]
        for l in Sc.calls("append"):
            if l.target[1] == lst and arg(l, 0) is not None and arg(l, 0)[0] == "const":
                out.append((l.cond, arg(l, 0)[1]))
        return out

    OLD, NEW = sym.Pattern("seq.declared_channels[old_ch_name]").term, ("name", "new_ch_obj")
    both = {OLD, NEW}
    n_loops = 0
    for l in Sc.logged("test"):
        m = is_(l.value, "getattr(Q_x, Q_p) != getattr(Q_y, Q_p)")
        if m is None or not l.loops or not elem_of(m["Q_p"], l.loops[-1]) or {m["Q_x"], m["Q_y"]} != both:
            continue
        n_loops += 1
        base_conds = set(sym.conj_of(l.cond))
        for cond, name in items_of(l.loops[-1]):
            compared.add(name)
            extra = [x for x in sym.conj_of(cond) if x not in base_conds]
            objs = {nm for x in extra for nm, t_ in (("old_ch_obj", OLD), ("new_ch_obj", NEW)) if sym.contains(x, t_)}
            if objs:
                # a conditionally compared parameter must be compared whenever it matters on EITHER device
                rep.check(objs == {"old_ch_obj", "new_ch_obj"}, "TABLE", f"strict-compare|{name}|condition-symmetric", f"'{name}' is compared whenever the condition holds for the old OR the new channel",
                          f"'{name}' is only compared under a condition on {sorted(objs)}: when the condition holds for the other device only, the parameter differs unnoticed and the timeline changes", E.where(ccm, l.node))
    if not n_loops:
        raise AnalysisError("anchor: the strict parameter comparison loop of check_channels_match was not found")
    # direct comparisons  new_ch_obj.X != old_ch_obj.X  (incl. eom_config.mod_bandwidth)
    eom_whole = False
    for l in Sc.logged("test"):
        for x in sym.subterms(l.value):
            if x[0] != "cmp" or x[1] not in ("Eq", "NotEq"):
                continue
            m = is_(x, "Q_x.eom_config.mod_bandwidth != Q_y.eom_config.mod_bandwidth")
            if m is not None and {m["Q_x"], m["Q_y"]} == both:
                compared.add("eom_config.mod_bandwidth")
            a, b = x[2], x[3]
            if a[0] == "attr" and b[0] == "attr" and a[2] == b[2] and {a[1], b[1]} == both:
                compared.add(a[2])
            ua, ub = unobj(a), unobj(b)
            ma, mb = is_(ua, "dataclasses.asdict(Q_x.eom_config)"), is_(ub, "dataclasses.asdict(Q_y.eom_config)")
            if ma is not None and mb is not None and {ma["Q_x"], mb["Q_y"]} == both:
                eom_whole = True
    # timing parameters are compared exactly: durations derived from them are truncated to integers (rise time, buffer
    # time, retarget time), so two "close" values can fall on different sides of a truncation
    n_tol = 0
    for l in Sc.log:
        if l.kind != "call" or l.value[1][0] != "attr" or l.value[1][2] not in ("isclose", "allclose"):
            continue
        args_ = list(l.value[2])[:2]
        if len(args_) == 2 and all(sym.contains(args_[0], t_) or sym.contains(args_[1], t_) for t_ in both) and all(unobj(a_)[0] == "attr" for a_ in args_):
            n_tol += 1
            fld_ = unobj(args_[0])[2]
            rep.violation("TABLE", f"strict-compare|{fld_}|exact", f"check_channels_match compares `{sh(args_[0], 60)}` with `{sh(args_[1], 60)}` through {l.value[1][2]} (a tolerance): the schedule derives integer durations from this parameter by truncation, so two values inside the tolerance can still give different rise / fall / buffer times and a strict switch returns a different timeline", E.where(ccm, l.node))
    # under strict=True a "match" answer is given only after the parameter comparison: every `return ("", "")` is either
    # on a `not strict` path or follows the comparison loop
    loop_tests = [i for i, l in enumerate(Sc.log) if l.kind == "test" and l.loops and is_(l.value, "getattr(Q_x, Q_p) != getattr(Q_y, Q_p)") is not None]
    MATCH = ("tuple", ("const", ""), ("const", ""))
    n_ret = 0
    for i, l in enumerate(Sc.log):
        if l.kind != "return" or l.fn != ccm.short or unobj(l.value) != MATCH:
            continue
        n_ret += 1
        non_strict = sym.mk_not(("name", "strict")) in sym.conj_of(l.cond)
        rep.check(non_strict or (loop_tests and i > max(loop_tests)), "TABLE", f"strict-compare|match-only-after-parameter-comparison|return{n_ret}", "`return ('', '')` is reached under `not strict` or after the strict parameter loop",
                  f"check_channels_match answers \"match\" under `{sh(l.cond, 120)}` before the strict parameter comparison (mod_bandwidth, clock_period, min_duration, ...) was made: for those channels strict=True no longer compares the timing parameters and switch_device returns a sequence with a different timeline", E.where(ccm, l.node))
    if n_ret < 1:
        raise AnalysisError("anchor: check_channels_match has no `return ('', '')`")
    covered = set()
    for a in compared:
        if a.startswith("eom_config."):
            covered.add(a)
        else:
            covered |= _fields_read_by(E, CH, a)
    # ------------------------------------ whole-timeline comparison (strict)
    timeline_cmp = False
    eom_sample_cmp = False
    for n in ast.walk(bsm.node):
        if isinstance(n, ast.If) and norm(n.test) == "strict":
            for loop in ast.walk(n):
                if isinstance(loop, ast.For):
                    it = norm(loop.iter)
                    body_src = norm(loop)
                    raises = any(isinstance(x, ast.Raise) for x in ast.walk(loop))
                    if raises and ("seq._schedule" in it or "seq.declared_channels" in it) and ".slots" in body_src and ("!=" in body_src or "==" in body_src):
                        timeline_cmp = True
    # EOM sample comparison: under `strict`, for every channel of the EOM list, a mismatch of amp, det or phase
    # between the old and the new schedule's samples raises (symbolic normal form of the replay function)
    from .. import sym as _symS
    from .symutil import S as _SS, dnf as _dnfS, is_ as _isS

    got_q = set()
    for l in _SS(E, bsm).logged("raise"):
        for conj in _dnfS(l.cond):
            if ("name", "strict") not in conj:
                continue
            for x in conj:
                for q in ("amp", "det", "phase"):
                    m_ = _isS(x, f"not np.all(np.isclose(Q_a.{q}, Q_b.{q}))")
                    if m_ is None:
                        continue
                    sides = sorted(_symS.show(t_)[:200] for t_ in (m_["Q_a"], m_["Q_b"]))
                    pa = _isS(m_["Q_a"], "Q_s._schedule[Q_e].get_samples()")
                    pb = _isS(m_["Q_b"], "Q_s._schedule[Q_e].get_samples()")
                    if pa and pb and pa["Q_e"] == pb["Q_e"] and pa["Q_e"][0] == "elem" and sorted((pa["Q_s"] == ("name", "seq"), pb["Q_s"] == ("name", "seq"))) == [False, True] and any(_symS.contains(t_, ("name", "new_device")) or t_ == ("name", "new_seq") for t_ in (pa["Q_s"], pb["Q_s"])):
                        got_q.add(q)
    eom_sample_cmp = got_q == {"amp", "det", "phase"}
    rep.check(eom_sample_cmp, "TABLE", "switch_device|strict-compares-eom-samples-as-sampled", "under strict, amp/det/phase of <old>._schedule[ch].get_samples() and <new>._schedule[ch].get_samples() are compared directly",
              f"the strict comparison of the EOM channels' samples no longer compares get_samples() of the old and the new schedule as they are (found: {sorted(got_q)}): padding / truncating them first hides a difference in duration (e.g. another EOM buffer time), and a strict switch then returns a different timeline", E.where(bsm))
    # every replayed DMM configuration renames its entry of the channel map to the name the DMM got in the NEW
    # sequence (dmm_0, dmm_0_1, ...), unconditionally: later add_dmm_detuning calls are routed through that entry
    Sb = _SS(E, bsm)
    ren = [l for l in Sb.logged("store") if l.target is not None and l.target[0] == "idx" and l.value is not None and any(t[0] == "call" and t[1] == ("name", "_get_dmm_name") for t in _symS.subterms(l.value)) and _symS.contains(l.target[1], ("name", "channel_match"))]
    apps = [l for l in Sb.log if l.kind == "call" and l.target is not None and l.target[0] == "attr" and l.target[2] == "append" and _symS.contains(l.target[1], ("name", "dmm_calls")) or (l.kind == "call" and l.target is not None and l.target[0] == "attr" and l.target[2] == "append" and l.value[2] and any(t[0] == "call" and t[1] == ("name", "_get_dmm_name") for t in _symS.subterms(l.value[2][0])))]
    if not ren or not apps:
        raise AnalysisError("anchor: the DMM renaming of channel_match in build_sequence_from_matching was not found")
    base_cond = set(_symS.conj_of(apps[0].cond))
    for l in ren:
        extra_c = [x for x in _symS.conj_of(l.cond) if x not in base_cond]
        rep.check(not extra_c, "TABLE", "switch_device|dmm-entry-renamed-for-every-replayed-configuration", "channel_match[<dmm>] = name in the new sequence, on every replayed DMM configuration", f"the channel-map entry of a replayed DMM configuration is renamed only under `{[_symS.show(x)[:80] for x in extra_c]}`: when the condition fails, a later add_dmm_detuning on that DMM is replayed onto another DMM of the new sequence", E.where(bsm, l.node))
    # the strict block must precede the return of the new sequence
    # ---------------------------------------------------------- verdicts
    where = E.where(ccm)
    for fld in sorted(timing):
        sites = timing[fld][:4]
        if fld.startswith("eom_config."):
            ok = eom_sample_cmp or eom_whole and fld in covered or fld in covered
            rep.check(ok and (eom_whole or eom_sample_cmp), "TABLE", f"timing-field|{fld}|covered-by-strict", f"read at {sites}; covered by the EOM configuration / EOM sample comparison",
                      f"EOM field {fld} influences the timeline (read at {sites}) but strict switching neither compares the EOM configurations nor the samples of EOM channels", where)
            continue
        ok = fld in covered or timeline_cmp
        rep.check(ok, "TABLE", f"timing-field|{fld}|covered-by-strict", f"read at {sites}; compared under strict" + (" (whole-timeline comparison)" if timeline_cmp and fld not in covered else ""),
                  f"channel field '{fld}' influences the timeline (read by the scheduler at {sites}) but strict=True neither compares it in check_channels_match (compared: {sorted(compared)}) nor compares the whole timeline of every channel: "
                  "switch_device(strict=True) can return a sequence with a different timeline", where)
    # ---- round 5 (independent audit) ----
    # (a) every replayed call that NAMES a channel has a DMM name translated to the name the DMM got in the new sequence
    #     (a DMM's name derives from its ID in the device): delay and align included, not only the DMM configuration calls
    names_cmp = {x[3][1] if x[2][0] != "const" else x[2][1] for l in Sb.log for x in _symS.subterms(l.cond) if x[0] == "cmp" and x[1] == "Eq" and any(y[0] == "const" and isinstance(y[1], str) for y in (x[2], x[3]))}
    # ... or by membership in a (folded) tuple of call names: `call.name in ("delay", "align")`
    names_cmp |= {c_[1] for l in Sb.log for x in _symS.subterms(l.cond) if x[0] == "cmp" and x[1] == "In" and mentions(x[2], "name") and unobj(x[3])[0] in ("tuple", "list", "set") for c_ in unobj(x[3])[1:] if c_[0] == "const" and isinstance(c_[1], str)}
    rep.check({"delay", "align"} <= names_cmp, "TABLE", "switch_device|dmm-name-translated-in-delay-and-align", "the replay has branches for call.name == 'delay' / 'align' that translate DMM names", f"the replay translates channel names for {sorted(n for n in names_cmp if isinstance(n, str))} only: delay(..., 'dmm_0') and align('dmm_1', ...) are replayed with the OLD DMM name, so when the matched DMMs have other IDs the delay lands on another DMM (or the switch raises 'Use the name of a declared channel')", E.where(bsm))
    # (b) the channel map is read for a DMM only when that DMM was declared (in XY mode an SLM mask declares none)
    cm_reads = [l for l in Sb.log if l.kind in ("store", "assign", "call") and l.value is not None and any(t[0] == "idx" and t[1] == ("name", "channel_match") and any(u[0] == "call" and u[1] == ("name", "_get_dmm_name") for u in _symS.subterms(t[2])) for t in _symS.subterms(l.value))]
    ok_cm = bool(cm_reads) and all(any(x[0] == "cmp" and x[1] == "In" and x[3] == ("name", "channel_match") for x in _symS.conj_of(l.cond)) for l in cm_reads)
    rep.check(ok_cm, "TABLE", "switch_device|dmm-match-read-only-when-declared", "`channel_match[<dmm name>]` is read under `<dmm name> in channel_match`", "the replay reads channel_match[<name of the configured DMM>] unconditionally: in XY mode config_slm_mask does not declare its DMM, the map has no such key, and switch_device raises KeyError for every XY sequence with an SLM mask", E.where(bsm))
    # (c) (d) relaxations of the parametrized strict EOM comparison
    pops = [l for l in Sc.calls("pop") if l.value[2] and l.value[2][0][0] == "const"]
    for key_, need, why in (("controlled_beams", ("Parametrized", "_to_build_calls"), "dropping controlled_beams from the comparison when the new EOM controls more beams is sound only if the stored setpoint is concrete: with a variable amp_on / detuning_on the detuning_off is chosen at build time among the new EOM's larger option set"),
                            ("custom_buffer_time", ("custom_buffer_time",), "custom_buffer_time=None and a value equal to the default give the same Channel._eom_buffer_time, but disable_eom only waits for the fall without a custom buffer and always adds the whole buffer with one")):
        ks = [l for l in pops if l.value[2][0][1] == key_]
        if not ks:
            continue
        if key_ == "controlled_beams":
            # the branch taken when the new EOM controls MORE beams than the old one
            ks = [l for l in ks if any(x[0] == "cmp" and x[1] in ("Lt", "Gt") and _symS.contains(x, ("const", 1)) and mentions(x, "new_ch_obj", "new_eom_config") and "controlled_beams" in sh(x, 600) for x in _symS.conj_of(l.cond))
                  and any(x[0] == "cmp" and x[1] in ("LtE", "GtE") and _symS.contains(x, ("const", 1)) and "controlled_beams" in sh(x, 600) for x in _symS.conj_of(l.cond))]
            if not ks:
                raise AnalysisError("anchor: the relaxation of check_channels_match on controlled_beams (new EOM controls more beams) was not found")
            ok_k = all(any(mentions(x, *need) for x in _symS.conj_of(l.cond)) for l in ks) if ks else True
        else:
            ok_k = all(any(x[0] == "cmp" and x[1] == "Eq" and sh(x, 400).count("custom_buffer_time") >= 2 for x in _symS.conj_of(l.cond)) for l in ks)
        rep.check(ok_k, "TABLE", f"strict-compare|{key_}|relaxation-is-sound", f"the relaxation on {key_} is conditioned as it must be", f"check_channels_match ignores `{key_}` too liberally: {why}", E.where(ccm, ks[0].node if ks else None))
    # (e) limits that SHAPE the samples are compared too: Sequence._modulate_slm_mask_dmm clips the SLM-mask pulse to the
    #     DMM's bottom_detuning / total_bottom_detuning
    msd = E.method(SEQ, "_modulate_slm_mask_dmm")
    shaping = {t[2] for l in S(E, msd, inline=False).log for v_ in (l.value,) if v_ is not None for t in _symS.subterms(v_) if t[0] == "attr" and t[2] in ("bottom_detuning", "total_bottom_detuning")}
    dmm_cmp = any(mentions(l.cond, "bottom_detuning") for l in Sc.log) or any(mentions(l.cond, "bottom_detuning") or (l.loops and mentions(l.cond, "_slm_mask_dmm")) for l in Sb.logged("raise"))
    rep.check(not shaping or dmm_cmp, "TABLE", "strict-compare|dmm-bottom-detunings-shape-the-slm-mask-pulse", "bottom_detuning / total_bottom_detuning compared under strict (or the SLM DMM's samples)", f"Sequence._modulate_slm_mask_dmm clips the SLM-mask pulse to {sorted(shaping)} of the DMM, so these limits shape the samples; the strict path neither compares them nor the DMM's samples: with bottom_detuning -100 on the old device and -20 on the new one a strict switch returns a sequence whose mask detuning is -20 instead of -50", E.where(ccm))
    rep.floor("TABLE", 6)
    # expected members (sanity of the derivation itself)
    for must in ("mod_bandwidth", "clock_period", "min_duration"):
        if must not in timing:
            rep.error(f"T_timing derivation lost '{must}' (visited {len(visited)} functions): the derivation is broken")

    # the EOM checks cover every channel that was *ever* put in EOM mode (from the call log), not only those still in it
    from .. import sym as _symE
    from .symutil import S as _SE, is_ as _isE, sh as _shE, unobj as _unE

    Ssw = _SE(E, sw)
    comps = set()
    pool = [v for v in (Ssw.env or {}).values() if isinstance(v, tuple)] + [t for l in Ssw.log for t in (l.value, l.target) if t is not None]
    for top in pool:
        for t in _symE.subterms(top):
            if t[0] == "comp" and len(t[3]) == 1:
                it_, filt = t[3][0]
                for x in _symE.conj_of(filt):
                    m_ = _isE(x, "Q_c.name == 'enable_eom_mode'")
                    if m_ is not None and m_["Q_c"] == ("elem", it_, 0):
                        comps.add(it_)
    ok = bool(comps) and all(_symE.contains(it_, _symE.Pattern("seq._calls").term) and _symE.contains(it_, _symE.Pattern("seq._to_build_calls").term) for it_ in comps)
    rep.check(ok, "TABLE", "switch_device|eom-channels-from-call-log", "EOM channels = channels of every recorded enable_eom_mode call (regular and to-build)", f"the list of EOM channels no longer derives from all recorded enable_eom_mode calls ({('iterates ' + str([_shE(i_, 80) for i_ in comps])) if comps else 'no selection of the calls named enable_eom_mode from the call log is left'}): a channel whose EOM block is already closed, or one enabled in a parametrized sequence, would escape the EOM configuration and sample comparison", E.where(sw))
    # --------------------------------------------------------------- OWN
    E.prepare_summaries()
    for f, label in ((sw, "switch_device"), (E.method(SEQ, "switch_register"), "Sequence.switch_register")):
        c = E.R.effective(f)
        w, _r = E.S.of(c)
        sw_w = sorted({(x.owner.split(".")[-1], x.field, x.origin) for x in E.state_writes(w) if x.root != "fresh" and not (x.field == "_variables")})
        direct = []
        for g in [f] + list(f.nested.values()):
            fl = E.flow(g)
            for _n, _i, e in fl.all_events():
                if e.kind == "write" and any(E.is_state_region(o) for o, _f in e.places) and not all(fld in ("_variables",) for _o, fld in e.places):
                    direct.append(e.text)
        rep.check(not direct, "OWN", f"{label}|no-direct-schedule-write", "the new sequence is built only through the public API (replay of recorded calls); only `_variables` is copied", f"{label} writes sequence state directly: {direct}", E.where(f))
        # the replay goes through the public methods and uses every recorded call, in order
        Sf = S(E, f)
        reps_ = [l for l in Sf.log if l.kind == "call" and l.target is not None and l.target[0] == "call" and l.target[1] == ("name", "getattr") and l.loops]
        ok_all = bool(reps_)
        for l in reps_:
            it = l.loops[-1]
            m = is_(it, "Q_s._calls[1:]")
            m2 = it if it[0] == "bin" and it[1] == "Concat" else None
            ok_all = ok_all and m2 is not None and is_(m2[2], "Q_s._calls[1:]") is not None and is_(m2[3], "Q_s._to_build_calls", is_(m2[2], "Q_s._calls[1:]")) is not None
            ok_all = ok_all and len(l.target[2]) == 2 and l.target[2][1] == ("attr", ("elem", it, len(l.loops) - 1), "name")
        rep.check(ok_all, "OWN", f"{label}|replays-all-calls", "iterates over _calls[1:] + _to_build_calls, calling the method named by each stored call", f"{label} no longer replays the whole call log (regular calls, then the to-build calls) through the stored method names", E.where(f))
        rep.check(bool(reps_), "OWN", f"{label}|uses-getattr-replay", "calls getattr(new_seq, call.name)(*args, **kwargs)", f"{label} no longer replays calls through the public methods", E.where(f))
    rep.floor("OWN", 6)

    # -------------------------------------------------------------- ARGS
    # The replay rewrites recorded calls: positional indexes into them must be safe (pstatic/callargs.py)
    from .. import callargs

    scopes = [g for top in (sw, E.method(SEQ, "switch_register")) for g in [top] + list(top.nested.values())]
    extra = callargs.check(E, rep, scopes, "ARGS")
    rep.floor("ARGS", 4)
    return {"timing_fields": {k: v[:3] for k, v in sorted(timing.items())}, "compared_under_strict": sorted(compared), "fields_covered": sorted(covered), "whole_timeline_comparison": timeline_cmp, "eom_sample_comparison": eom_sample_cmp, "functions_analysed": len(visited), **extra}
