"""C15 - the EOM setpoint is an alias of the arrays given by the caller.

`enable_eom_mode()` / `modify_eom_setpoint()` wrap 'amp_on' and 'detuning_on'
with `pm.AbstractArray(...)`, which does not copy a numpy array (or tensor).
The setpoint kept in the schedule -- and the waveforms of the EOM pulses
already added, which are built from it -- therefore change when the caller
later updates that array in place: the pulses are no longer played with the
amplitude and detuning chosen when the mode was set, and the off-detuning
(calculated once, from the original values) no longer belongs to them.
"""
import sys

import numpy as np

from pulser import Register, Sequence
from pulser.channels import Rydberg
from pulser.channels.eom import RydbergBeam, RydbergEOM
from pulser.devices import VirtualDevice
from pulser.sampler import sample

DEVICE = VirtualDevice(
    name="Dev",
    dimensions=2,
    rydberg_level=70,
    channel_objects=(
        Rydberg.Global(
            1000,
            200,
            clock_period=1,
            min_duration=1,
            mod_bandwidth=4.0,
            eom_config=RydbergEOM(
                mod_bandwidth=30.0,
                limiting_beam=RydbergBeam.RED,
                max_limiting_amp=50 * 2 * np.pi,
                intermediate_detuning=800 * 2 * np.pi,
                controlled_beams=(RydbergBeam.BLUE,),
            ),
        ),
    ),
)

ok = True
for method in ("enable_eom_mode", "modify_eom_setpoint"):
    seq = Sequence(Register({"q0": (0, 0), "q1": (50, 0)}), DEVICE)
    seq.declare_channel("ch", "rydberg_global")
    # The parameters of a scan, updated in place from one sequence to the next
    amp = np.array(5.0)
    det = np.array(-1.0)
    if method == "modify_eom_setpoint":
        seq.enable_eom_mode("ch", 1.0, 0.0)
        seq.add_eom_pulse("ch", 100, 0.0)
    getattr(seq, method)("ch", amp, det)
    seq.add_eom_pulse("ch", 100, 0.0)
    block = seq._schedule["ch"].eom_blocks[-1]
    det_off = float(block.detuning_off)
    t0 = seq._schedule["ch"].last_pulse_slot().ti

    amp += 3.0  # next point of the scan
    det -= 2.0
    seq.delay(50, "ch")
    seq.add_eom_pulse("ch", 100, 0.0)

    cs = sample(seq).channel_samples["ch"]
    amps = np.unique(cs.amp.as_array()[t0:][cs.amp.as_array()[t0:] != 0])
    dets = np.unique(cs.det.as_array()[t0:][cs.amp.as_array()[t0:] != 0])
    print(f"{method}(amp_on=5.0, detuning_on=-1.0), detuning_off={det_off:.3f}")
    print("   setpoint in the schedule :", float(block.rabi_freq), float(block.detuning_on))
    print("   amplitude of the pulses  :", amps)
    print("   detuning of the pulses   :", dets)
    allowed = DEVICE.channels["rydberg_global"].eom_config.detuning_off_options(
        float(amps[-1]), float(dets[-1])
    )
    print("   off-detunings allowed for these pulses:", allowed.as_array())
    ok &= amps.tolist() == [5.0] and dets.tolist() == [-1.0]
    ok &= float(block.rabi_freq) == 5.0 and float(block.detuning_on) == -1.0

if not ok:
    print("FAIL")
    sys.exit(1)
print("PASS")
