"""C20 finding 1: EnergyVariance / EnergySecondMoment are wrong on mixed states.

The V2 backend emulates a density matrix as soon as the noise model has
dephasing / relaxation / depolarizing / eff_noise (or averages several runs).
For such a state the stored 'energy_second_moment' must be Tr[rho H(t)^2] and
'energy_variance' must be Tr[rho H(t)^2] - Tr[rho H(t)]^2.
"""
import sys

import numpy as np
import qutip

import pulser
from pulser.backend.default_observables import (
    Energy,
    EnergySecondMoment,
    EnergyVariance,
    StateResult,
)
from pulser_simulation import (
    QutipBackendV2,
    QutipConfig,
    QutipOperator,
    QutipState,
)

failures = []


def compare(label, got, expected):
    ok = np.isclose(got, expected, rtol=1e-6, atol=1e-6)
    print(f"  {label}: stored={got:.6f} expected={expected:.6f}"
          f" {'ok' if ok else 'WRONG'}")
    if not ok:
        failures.append(label)


# --- (a) direct: maximally mixed qubit, H = sigma_z -------------------------
rho = QutipState(qutip.Qobj(np.eye(2) / 2), eigenstates=("r", "g"))
sigma_z = QutipOperator.from_operator_repr(
    eigenstates=("r", "g"),
    n_qudits=1,
    operations=[(1.0, [({"rr": 1.0, "gg": -1.0}, {0})])],
)
print("maximally mixed qubit, H = sigma_z (Tr[rho H]=0, Tr[rho H^2]=1):")
compare("direct second moment",
        EnergySecondMoment().apply(state=rho, hamiltonian=sigma_z), 1.0)
compare("direct variance",
        EnergyVariance().apply(state=rho, hamiltonian=sigma_z), 1.0)

# --- (b) through QutipBackendV2 with a dephasing noise model ----------------
reg = pulser.Register.from_coordinates([(0, 0), (6, 0)], prefix="q")
seq = pulser.Sequence(reg, pulser.MockDevice)
seq.declare_channel("ryd", "rydberg_global")
seq.add(pulser.Pulse.ConstantPulse(500, 2 * np.pi, -3.0, 0.0), "ryd")
times = (0.25, 0.5, 0.75)
config = QutipConfig(
    observables=[
        StateResult(), Energy(), EnergySecondMoment(), EnergyVariance()
    ],
    default_evaluation_times=times,
    noise_model=pulser.NoiseModel(dephasing_rate=2.0),
)
backend = QutipBackendV2(seq, config=config)
results = backend.run()
print("QutipBackendV2 with NoiseModel(dephasing_rate=2.0):")
for k, t in enumerate(results.get_result_times("energy")):
    rho_t = results.state[k].to_qobj()
    assert rho_t.isoper
    ham = backend._sim_obj.get_hamiltonian(
        t * results.total_duration, noiseless=True
    )
    e1 = (rho_t * ham).tr().real
    e2 = (rho_t * ham * ham).tr().real
    compare(f"t={t:.2f} energy", results.energy[k], e1)
    compare(f"t={t:.2f} second moment", results.energy_second_moment[k], e2)
    compare(f"t={t:.2f} variance", results.energy_variance[k], e2 - e1**2)

if failures:
    print("FAIL:", len(failures), "values differ from their definition")
    sys.exit(1)
print("PASS")
