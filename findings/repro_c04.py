"""C04: expressions that cannot be serialised / decoded.
cd /tmp && PYTHONPATH=/repo/pulser-core:/repo/pulser-simulation /venv/bin/python -W ignore /verif/findings/repro_c04.py"""
import json
import numpy as np
from pulser import Pulse, Register, Sequence
from pulser.devices import MockDevice

reg = Register.from_coordinates([(0, 0), (6, 0)], prefix="q")


def mk(fn):
    seq = Sequence(reg, MockDevice)
    seq.declare_channel("ch", "rydberg_global")
    v = seq.declare_variable("v", dtype=float)
    seq.delay(fn(v) * 4 + 16, "ch")
    return seq


# abstract repr of round()
try:
    seq = mk(lambda v: np.round(v))
    s = seq.to_abstract_repr()
    back = Sequence.from_abstract_repr(s)
    a = seq.build(v=2.6).get_duration()
    b = back.build(v=2.6).get_duration()
    print("abstract_repr_round:", "holds" if a == b else f"VIOLATED ({a} != {b})")
except Exception as e:
    print("abstract_repr_round: VIOLATED (", type(e).__name__, str(e)[:80], ")")

# legacy JSON of tanh()
try:
    seq = mk(lambda v: np.tanh(v))
    s = seq._serialize()
    back = Sequence._deserialize(s)
    a = seq.build(v=0.5).get_duration()
    b = back.build(v=0.5).get_duration()
    print("legacy_json_tanh:", "holds" if a == b else f"VIOLATED ({a} != {b})")
except Exception as e:
    print("legacy_json_tanh: VIOLATED (", type(e).__name__, str(e)[:80], ")")
