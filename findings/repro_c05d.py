"""C05 finding 2: the detuning of a channel left in EOM mode is dropped after
its last pulse when the samples are distributed per qubit.

While a channel is in EOM mode its detuning sits at `detuning_off` whenever it
is not pulsing. ChannelSamples.extend_duration() therefore pads the detuning
with `detuning_off` when another channel makes the sequence longer, and the
emulator uses that value when the channel's samples stay in the 'Global' entry
of SequenceSamples.to_nested_dict(). But the per-qubit ('Local') branch of
to_nested_dict() only copies the samples inside the pulse slots, so the same
sequence gets delta = 0 on that stretch as soon as
  (a) the samples are requested with all_local=True, which the emulator does
      for a SimConfig with SPAM / doppler / amplitude noise, even when the
      noise ends up changing nothing (eta = 1e-12, no badly prepared atom), or
  (b) the channel in EOM mode is a Local channel.
"""
import dataclasses
import sys

import numpy as np

from pulser import Pulse, Register, Sequence
from pulser.channels import Rydberg
from pulser.channels.dmm import DMM
from pulser.devices import AnalogDevice, VirtualDevice
from pulser.waveforms import ConstantWaveform
from pulser_simulation import QutipEmulator, SimConfig

np.random.seed(0)
failures = []
DET_OFF_REQ = -5.0
DMM_DET = -2.0
T_CHECK = 900  # after the last EOM pulse (+ fall time), before the end

reg = Register({"q0": (0.0, 0.0)})
eom_global = AnalogDevice.channels["rydberg_global"]
dmm = DMM(bottom_detuning=-100, total_bottom_detuning=-1000)


def build(device, ch_id, **declare_kwargs):
    seq = Sequence(reg, device)
    seq.declare_channel("ryd", ch_id, **declare_kwargs)
    seq.config_detuning_map(reg.define_detuning_map({"q0": 1.0}), "dmm_0")
    seq.enable_eom_mode(
        "ryd", amp_on=3.0, detuning_on=0.0, optimal_detuning_off=DET_OFF_REQ
    )
    seq.add_eom_pulse("ryd", 100, 0.0)
    # The channel stays in EOM mode; the DMM makes the sequence longer
    seq.add_dmm_detuning(ConstantWaveform(1000, DMM_DET), "dmm_0")
    det_off = float(seq._schedule["ryd"].eom_blocks[-1].detuning_off)
    assert seq.get_duration("ryd") < T_CHECK - 100 < seq.get_duration()
    return seq, det_off


def delta(sim, t):
    """The detuning felt by q0: -<r|H(t)|r> (single atom, no interaction)."""
    r = sim.basis["r"]
    return -complex(r.dag() * sim.get_hamiltonian(t) * r).real


# (a) Global channel in EOM mode, with and without an (ineffective) SPAM noise
dev_a = VirtualDevice(
    name="dev_a",
    dimensions=2,
    rydberg_level=60,
    channel_objects=(eom_global,),
    channel_ids=("rydberg_global",),
    dmm_objects=(dmm,),
)
seq, det_off = build(dev_a, "rydberg_global")
expected = det_off + DMM_DET
sim_clean = QutipEmulator.from_sequence(seq)
sim_spam = QutipEmulator.from_sequence(
    seq,
    config=SimConfig(noise="SPAM", eta=1e-12, epsilon=0.0, epsilon_prime=0.0),
)
assert not any(sim_spam._hamiltonian._bad_atoms.values())
d_clean, d_spam = delta(sim_clean, T_CHECK), delta(sim_spam, T_CHECK)
print(
    f"(a) global EOM channel, t={T_CHECK}: expected delta = {expected:.4f}; "
    f"default config: {d_clean:.4f}; SPAM(eta=1e-12): {d_spam:.4f}"
)
if not np.isclose(d_clean, expected):
    failures.append("(a) default config: wrong detuning")
if not np.isclose(d_spam, expected):
    failures.append("(a) SPAM config without bad atoms: detuning_off dropped")

# (b) Local channel in EOM mode, default config
eom_local = Rydberg.Local(
    **{
        f.name: getattr(eom_global, f.name)
        for f in dataclasses.fields(eom_global)
        if f.init and f.name not in ("addressing",)
    }
    | dict(max_targets=1, min_retarget_interval=220, fixed_retarget_t=0)
)
dev_b = VirtualDevice(
    name="dev_b",
    dimensions=2,
    rydberg_level=60,
    channel_objects=(eom_local,),
    channel_ids=("rydberg_local",),
    dmm_objects=(dmm,),
)
seq, det_off = build(dev_b, "rydberg_local", initial_target="q0")
expected = det_off + DMM_DET
d_local = delta(QutipEmulator.from_sequence(seq), T_CHECK)
print(
    f"(b) local EOM channel, t={T_CHECK}: expected delta = {expected:.4f}; "
    f"got {d_local:.4f}"
)
if not np.isclose(d_local, expected):
    failures.append("(b) local channel in EOM mode: detuning_off dropped")

if failures:
    print("FAIL")
    for f in failures:
        print(" -", f)
    sys.exit(1)
print("PASS")
