"""Reproducers for the C09 (failed call leaves state behind) findings.

Run against the tree:  cd /tmp && PYTHONPATH=/repo/pulser-core:/repo/pulser-simulation /venv/bin/python -W ignore /verif/findings/repro_c09.py [name]
Each case prints  <name>: VIOLATED|holds  -- 'VIOLATED' means the failed call changed the sequence.
"""
import sys
import dataclasses
import numpy as np
import pulser
from pulser import Pulse, Register, Sequence
from pulser.channels import Rydberg, Raman
from pulser.channels.dmm import DMM
from pulser.channels.eom import RydbergBeam, RydbergEOM
from pulser.devices import AnalogDevice, MockDevice, VirtualDevice, DigitalAnalogDevice
from pulser.waveforms import BlackmanWaveform


def snap(seq):
    return (
        seq.is_parametrized(),
        seq._in_xy,
        seq._in_ising,
        tuple(seq._schedule.keys()),
        tuple((k, tuple((s.ti, s.tf, str(s.type)) for s in v.slots), tuple((b.ti, b.tf) for b in v.eom_blocks)) for k, v in seq._schedule.items()),
        len(seq._calls),
        tuple(str(c) for c in seq._calls),
        len(seq._to_build_calls),
        seq._slm_mask_dmm,
        tuple(sorted(map(str, seq._slm_mask_targets))),
        seq._mag_field,
        tuple(sorted(seq._basis_ref)),
    )


def attempt(seq, fn):
    before = snap(seq)
    try:
        fn()
    except Exception as e:  # noqa
        after = snap(seq)
        return ("VIOLATED" if before != after else "holds") + f"  ({type(e).__name__}: {str(e)[:60]})"
    return "call-did-not-raise"


reg = Register.from_coordinates([(0, 0), (6, 0)], prefix="q")
CASES = {}


def case(f):
    CASES[f.__name__] = f
    return f


@case
def failed_call_with_variable_flips_parametrized():
    seq = Sequence(reg, MockDevice)
    seq.declare_channel("ch", "rydberg_global")
    v = seq.declare_variable("v", dtype=int)
    return attempt(seq, lambda: seq.delay(v, "nope"))


@case
def foreign_variable_flips_parametrized():
    seq = Sequence(reg, MockDevice)
    seq.declare_channel("ch", "rydberg_global")
    other = Sequence(reg, MockDevice)
    v = other.declare_variable("v", dtype=int)
    return attempt(seq, lambda: seq.delay(v, "ch"))


@case
def zero_magnetic_field_enters_xy():
    seq = Sequence(reg, MockDevice)
    return attempt(seq, lambda: seq.set_magnetic_field(0, 0, 0))


def mod_device(**kw):
    ch = dataclasses.replace(AnalogDevice.channels["rydberg_global"], **kw)
    return dataclasses.replace(AnalogDevice, channel_objects=(ch,), channel_ids=("rydberg_global",))


@case
def delay_at_rest_bad_duration_keeps_fall_delay():
    seq = Sequence(reg, AnalogDevice)
    seq.declare_channel("ch", "rydberg_global")
    seq.add(Pulse.ConstantPulse(100, 1.0, 0.0, 0.0), "ch")
    return attempt(seq, lambda: seq.delay(2, "ch", at_rest=True))


@case
def declare_channel_bad_initial_target():
    seq = Sequence(reg, MockDevice)
    return attempt(seq, lambda: seq.declare_channel("ch", "rydberg_local", initial_target="zz"))


@case
def serialising_pops_stored_kwargs():
    seq = Sequence(reg, MockDevice)
    seq.declare_channel("a", "rydberg_global")
    seq.declare_channel("b", "raman_global")
    seq.add(Pulse.ConstantPulse(100, 1.0, 0.0, 0.0), "a")
    seq.align("a", "b", at_rest=True)
    before = snap(seq)
    seq.to_abstract_repr()
    return "VIOLATED" if snap(seq) != before else "holds"




# ---------------------------------------------------------------- known findings
def vdev(max_seq=None, ch_kw=None, local=False, dmm_kw=None, eom=False, two=False):
    """A virtual device with a Rydberg channel having output modulation."""
    ch_kw = dict(ch_kw or {})
    ch_kw.setdefault("mod_bandwidth", 4)
    ch_kw.setdefault("min_duration", 16)
    ch_kw.setdefault("clock_period", 4)
    if eom:
        ch_kw["eom_config"] = RydbergEOM(
            limiting_beam=RydbergBeam.RED, max_limiting_amp=30 * 2 * np.pi, intermediate_detuning=450 * 2 * np.pi,
            mod_bandwidth=40, controlled_beams=(RydbergBeam.BLUE,), custom_buffer_time=ch_kw.pop("custom_buffer_time", None),
        )
    if local:
        chs = [Rydberg.Local(None, None, min_retarget_interval=ch_kw.pop("min_retarget_interval", 220), fixed_retarget_t=ch_kw.pop("fixed_retarget_t", 0), max_targets=2, **ch_kw)]
    else:
        chs = [Rydberg.Global(None, None, **ch_kw)]
    ids = ["ryd"]
    if two:
        kw2 = dict(two) if isinstance(two, dict) else {}
        kw2.setdefault("mod_bandwidth", 4)
        kw2.setdefault("min_duration", 16)
        kw2.setdefault("clock_period", 4)
        chs.append(Raman.Global(None, None, **kw2))
        ids.append("ram")
    dmm = ()
    if dmm_kw is not None:
        dmm = (DMM(bottom_detuning=-1000, **dmm_kw),)
    return VirtualDevice(
        name="V", dimensions=2, rydberg_level=60, channel_objects=tuple(chs), channel_ids=tuple(ids),
        dmm_objects=dmm, max_sequence_duration=max_seq, reusable_channels=False, supports_slm_mask=bool(dmm),
    )


@case
def retarget_overlong_keeps_fall_delay():
    # K1: _Schedule.add_target: wait_for_fall appended, then _check_duration rejects
    seq = Sequence(reg, vdev(max_seq=500, local=True, ch_kw=dict(fixed_retarget_t=100)))
    seq.declare_channel("ch", "ryd", initial_target="q0")
    seq.add(Pulse.ConstantPulse(200, 1.0, 0.0, 0.0), "ch")
    return attempt(seq, lambda: seq.target("q1", "ch"))


@case
def retarget_interval_over_channel_max_duration():
    # K1b: add_target: wait_for_fall appended, then adjust_duration(retarget) rejects (> channel max_duration)
    seq = Sequence(reg, vdev(local=True, ch_kw=dict(max_duration=300, min_retarget_interval=600)))
    seq.declare_channel("ch", "ryd", initial_target="q0")
    seq.add(Pulse.ConstantPulse(16, 1.0, 0.0, 0.0), "ch")
    return attempt(seq, lambda: seq.target("q1", "ch"))


@case
def enable_eom_overlong_keeps_fall_delay():
    # K2: _Schedule.enable_eom: wait_for_fall appended, the EOM buffer no longer fits
    seq = Sequence(reg, vdev(max_seq=480, eom=True))
    seq.declare_channel("ch", "ryd")
    seq.add(Pulse.ConstantPulse(200, 1.0, 0.0, 0.0), "ch")
    return attempt(seq, lambda: seq.enable_eom_mode("ch", 1.0, 0.0))


@case
def enable_eom_detuned_buffer_overlong():
    # K2b: same with a non-zero detuning_off (buffer is a pulse: add_pulse branch)
    seq = Sequence(reg, vdev(max_seq=480, eom=True))
    seq.declare_channel("ch", "ryd")
    seq.add(Pulse.ConstantPulse(200, 1.0, 0.0, 0.0), "ch")
    return attempt(seq, lambda: seq.enable_eom_mode("ch", 1.0, 0.0, optimal_detuning_off=-10.0))


@case
def disable_eom_overlong_closes_block():
    # K3: _Schedule.disable_eom: block closed (tf set), then the fall-time delay does not fit
    seq = Sequence(reg, vdev(max_seq=260, eom=True))
    seq.declare_channel("ch", "ryd")
    seq.enable_eom_mode("ch", 1.0, 0.0)
    seq.add_eom_pulse("ch", 240, 0.0)
    r = attempt(seq, lambda: seq.disable_eom_mode("ch"))
    return r + f" in_eom_after={seq._schedule['ch'].in_eom_mode()}"


@case
def disable_eom_custom_buffer_overlong():
    # K3b: with a custom buffer time (add_delay branch)
    seq = Sequence(reg, vdev(max_seq=260, eom=True, ch_kw=dict(custom_buffer_time=100)))
    seq.declare_channel("ch", "ryd")
    seq.enable_eom_mode("ch", 1.0, 0.0)
    seq.add_eom_pulse("ch", 240, 0.0)
    r = attempt(seq, lambda: seq.disable_eom_mode("ch"))
    return r + f" in_eom_after={seq._schedule['ch'].in_eom_mode()}"


@case
def modify_eom_setpoint_overlong():
    # K4: modify_eom_setpoint: disable_eom(_skip_buffer) done, enable_eom's buffer does not fit
    seq = Sequence(reg, vdev(max_seq=260, eom=True))
    seq.declare_channel("ch", "ryd")
    seq.enable_eom_mode("ch", 1.0, 0.0)
    seq.add_eom_pulse("ch", 240, 0.0)
    r = attempt(seq, lambda: seq.modify_eom_setpoint("ch", 2.0, 0.0))
    return r + f" in_eom_after={seq._schedule['ch'].in_eom_mode()}"


@case
def align_second_channel_overlong():
    # K5: align: one channel is delayed, the next channel's (clock-rounded) delay is rejected as over-long
    dev = VirtualDevice(
        name="V3", dimensions=2, rydberg_level=60,
        channel_objects=(Rydberg.Global(None, None), Raman.Global(None, None), Rydberg.Global(None, None, clock_period=4, min_duration=4)),
        channel_ids=("a", "c", "b"), reusable_channels=False, max_sequence_duration=999,
    )
    seq = Sequence(reg, dev)
    for n in "acb":
        seq.declare_channel(n, n)
    seq.add(Pulse.ConstantPulse(999, 1.0, 0.0, 0.0), "a")
    seq.add(Pulse.ConstantPulse(100, 1.0, 0.0, 0.0), "c", protocol="no-delay")
    seq.add(Pulse.ConstantPulse(100, 1.0, 0.0, 0.0), "b", protocol="no-delay")
    return attempt(seq, lambda: seq.align("a", "c", "b", at_rest=False))


@case
def align_three_channels_delay_over_channel_max():
    # K5b: align: one channel already delayed, next channel's delta exceeds its max_duration
    dev = VirtualDevice(
        name="V3", dimensions=2, rydberg_level=60,
        channel_objects=(Rydberg.Global(None, None, min_duration=16, clock_period=4), Raman.Global(None, None, min_duration=16, clock_period=4),
                         Rydberg.Global(None, None, min_duration=16, clock_period=4, max_duration=200)),
        channel_ids=("a", "b", "c"), reusable_channels=False,
    )
    seq = Sequence(reg, dev)
    for n in "abc":
        seq.declare_channel(n, n)
    seq.add(Pulse.ConstantPulse(1000, 1.0, 0.0, 0.0), "a")
    seq.add(Pulse.ConstantPulse(100, 1.0, 0.0, 0.0), "b", protocol="no-delay")
    seq.add(Pulse.ConstantPulse(100, 1.0, 0.0, 0.0), "c", protocol="no-delay")
    return attempt(seq, lambda: seq.align("a", "b", "c", at_rest=False))


@case
def delay_at_rest_overlong_keeps_fall_delay():
    # K6: _delay: wait_for_fall appended, the delay itself no longer fits
    seq = Sequence(reg, vdev(max_seq=500))
    seq.declare_channel("ch", "ryd")
    seq.add(Pulse.ConstantPulse(200, 1.0, 0.0, 0.0), "ch")
    return attempt(seq, lambda: seq.delay(200, "ch", at_rest=True))


@case
def slm_mask_dmm_pulse_rejected_after_config():
    # K8: config_slm_mask in Ising mode with pulses present: the DMM is configured,
    # then the mask pulse is rejected by the DMM's max_duration
    seq = Sequence(reg, vdev(dmm_kw=dict(max_duration=100, min_duration=16, clock_period=4)))
    seq.declare_channel("ch", "ryd")
    seq.add(Pulse.ConstantPulse(200, 1.0, 0.0, 0.0), "ch")
    return attempt(seq, lambda: seq.config_slm_mask(["q0"], "dmm_0"))


@case
def first_pulse_rejected_by_slm_dmm_stays_scheduled():
    # K9: _add: the pulse is scheduled, then the pending SLM mask pulse on the DMM is rejected
    seq = Sequence(reg, vdev(dmm_kw=dict(max_duration=100, min_duration=16, clock_period=4)))
    seq.config_slm_mask(["q0"], "dmm_0")
    seq.declare_channel("ch", "ryd")
    return attempt(seq, lambda: seq.add(Pulse.ConstantPulse(200, 1.0, 0.0, 0.0), "ch"))


@case
def enable_eom_buffer_over_channel_max_duration():
    # K2c: enable_eom: fall-time delay appended, then adjust_duration(custom buffer) exceeds the channel's max_duration
    seq = Sequence(reg, vdev(eom=True, ch_kw=dict(custom_buffer_time=400, max_duration=300)))
    seq.declare_channel("ch", "ryd")
    seq.add(Pulse.ConstantPulse(200, 1.0, 0.0, 0.0), "ch")
    return attempt(seq, lambda: seq.enable_eom_mode("ch", 1.0, 0.0))


@case
def disable_eom_buffer_over_channel_max_duration():
    # K3c: disable_eom: block closed, then adjust_duration(custom buffer) exceeds the channel's max_duration
    seq = Sequence(reg, vdev(eom=True, ch_kw=dict(custom_buffer_time=400, max_duration=300)))
    seq.declare_channel("ch", "ryd")
    seq.enable_eom_mode("ch", 1.0, 0.0)
    seq.add_eom_pulse("ch", 100, 0.0)
    r = attempt(seq, lambda: seq.disable_eom_mode("ch"))
    return r + f" in_eom_after={seq._schedule['ch'].in_eom_mode()}"


if __name__ == "__main__":
    names = sys.argv[1:] or list(CASES)
    for n in names:
        try:
            print(f"{n}: {CASES[n]()}")
        except Exception as e:  # noqa
            print(f"{n}: ERROR {type(e).__name__}: {e}")
