"""C10 -- phase-jump time and retarget intervals are honoured."""
from __future__ import annotations

import ast

from ..absval import abstractor
from ..engine import CHS, SCHED, SEQ, Engine
from ..model import AnalysisError, dotted, norm
from ..report import Report
from .. import sym
from .common import own_nodes
from .symutil import S, all_of, any_lit, arg, has, is_, mentions, sh

EXPLANATION = (
    "FLOW: in make_next_pulse_slot the inserted delay's provenance contains the channel's phase_jump_time, 2*rise_time*in_eom_mode (combined by max), the last pulse's fall_time, minus the time already "
    "elapsed since that pulse (t0 - last_pulse_slot.tf); the buffer is combined by max with the conflict delay, is computed only under protocol != 'no-delay' and only when the phases differ "
    "(last_pulse.phase != corrected phase); detuned delays are skipped when looking for the last pulse. In add_target: wait_for_fall precedes reading the last slot; the same-target early return precedes any "
    "append; the retarget duration has provenance {min_retarget_interval, last_target(), fixed_retarget_t} combined by clip/max and passes adjust_duration when non-zero. GUARD: Channel.phase_jump_time = "
    "custom_phase_jump_time if it is not None else 2*rise_time; rise_time derives from mod_bandwidth. NOT decided: the inequalities themselves (numeric). FLOW (added): the phase compared with the last pulse is the phase the new slot carries (drift-corrected when a correction applies), up to the time at which the drift is evaluated. Round 3 (added): RETKIND -- no function annotated `-> set[...]` returns a list/tuple/dict (add_target compares target sets with ==, a list never equals a set, so re-targeting the same atoms would insert a retarget)."
    " Round 5 (added): add_target returns for unchanged targets BEFORE waiting for the fall time; the phase-jump buffer takes the last pulse's fall time in the mode that pulse's own slot was played in."
    ' Round 6 (added after the fifth independent round of breaking changes): the phase reference of the qubits is compared at the earliest start AFTER the waits have been added (the drift time is the one the pulse will be scheduled at).'
    ' Round 7 (added after the sixth, smaller round of breaking changes): the look-back of get_duration takes the EOM rise time under in_eom_mode (the mode the channel is in), not under supports_eom().'
)
ASSUMPTIONS = ["formulas are matched on the symbolic normal form of the functions (pstatic/sym.py): temporaries, private helpers, conditional forms and operand order do not matter", "state mutation between two reads of the same attribute path is not modelled by the normal form; the one ordering that matters here (wait_for_fall before reading the last slot) is checked on the event order of the CFG"]

CH = "pulser.channels.base_channel.Channel"


def run(E: Engine, rep: Report, tier: str) -> dict:
    mn = E.method(SCHED, "make_next_pulse_slot")
    Sm = S(E, mn)
    slots = [l for l in Sm.calls("_TimeSlot") if l.fn == mn.short]
    if not slots:
        raise AnalysisError("anchor: make_next_pulse_slot no longer builds a _TimeSlot")
    slot = slots[-1]
    ti = arg(slot, 1, "ti")
    where = E.where(mn, slot.node)
    # 2*rise_time*in_eom_mode (a bool used as a factor) is also written (2*rise_time if in_eom_mode else 0)
    EOM_TERMS = ("2 * Q_ch.rise_time * Q_eom", "(2 * Q_ch.rise_time if Q_eom else 0)")
    BUFS = tuple(f"max(Q_ch.phase_jump_time, {t_}) + Q_lp.fall_time(Q_ch, in_eom_mode=Q_eomfall) - Q_t0 + Q_ls.tf" for t_ in EOM_TERMS)

    def has_buf(t_):
        for b_ in BUFS:
            m_ = has(t_, b_)
            if m_ is not None:
                return m_
        return None

    full = has_buf(ti)
    rep.check(has(ti, "Q_ch.phase_jump_time") is not None and has(ti, "max(Q_ch.phase_jump_time, Q__)") is not None, "FLOW", "phase_jump_buffer|phase_jump_time", "phase-jump time is part of the buffer", "the start time of the next pulse no longer includes the channel's phase_jump_time (max(phase_jump_time, ...))", where)
    m2 = None
    for t_ in EOM_TERMS:
        m2 = m2 or has(ti, f"max(Q_ch.phase_jump_time, {t_})")
    rep.check(m2 is not None and is_(m2["Q_eom"], "Q__.in_eom_mode()") is not None, "FLOW", "phase_jump_buffer|2*rise_time-in-eom", "max(phase_jump_time, 2*rise_time*in_eom_mode)", "in EOM mode the buffer no longer enforces at least 2*rise_time (max(phase_jump_time, 2*rise_time*in_eom_mode()) not found in the start time)", where)
    m3 = has(ti, "max(Q_ch.phase_jump_time, Q__) + Q_lp.fall_time(Q_ch, in_eom_mode=Q_eomfall) + QS_rest")
    # ... the fall time of the mode the LAST PULSE was played in: the EOM fall time only if that pulse's own slot lies in an
    # EOM block (`in_eom_mode(<last pulse slot>)`), not merely because the channel is in EOM mode now
    if full is not None:
        ef = full["Q_eomfall"]
        per_slot = any(t[0] == "call" and t[1][0] == "attr" and t[1][2] == "in_eom_mode" and t[2] and t[2][0] == full["Q_ls"] for t in sym.subterms(ef))
        rep.check(per_slot, "FLOW", "phase_jump_buffer|fall-time-of-the-last-pulse's-own-mode", "fall_time(..., in_eom_mode=<... in_eom_mode(last_pulse_slot)>)", f"the last pulse's fall time is computed with `in_eom_mode={sh(ef, 60)}`, the channel's CURRENT mode: a regular pulse followed by enable_eom_mode() and an EOM pulse of another phase gets the short EOM fall time, and with a custom EOM buffer below 2*rise_time the phase jump comes before the regular pulse has ramped down", where)
    rep.check(m3 is not None, "FLOW", "phase_jump_buffer|plus-fall_time", "the last pulse's fall time is added", "the buffer no longer adds the last pulse's fall time (in the mode the channel is in) to the phase-jump time", where)
    rep.check(full is not None, "FLOW", "phase_jump_buffer|minus-elapsed", "minus the time already elapsed since the last pulse (t0 - last_pulse_slot.tf)", "the time already elapsed since the last pulse (t0 - last_pulse_slot.tf) is no longer subtracted from the buffer", where)
    rep.check(full is not None, "FLOW", "phase_jump_buffer|shape", "max(jump, 2*rise*eom) + fall_time - (t0 - last_pulse_slot.tf)", "the buffer between pulses of different phase is no longer max(phase_jump_time, 2*rise_time*in_eom) + fall_time - (t0 - last_pulse.tf)", where)
    # the elapsed time is measured from the channel's current end (the tf of the slot whose targets the new slot inherits)
    tg = arg(slot, 3, "targets")
    base = tg[1] if tg is not None and tg[0] == "attr" and tg[2] == "targets" else None
    ok = full is not None and base is not None and full["Q_t0"] == ("attr", base, "tf")
    rep.check(ok, "FLOW", "phase_jump_buffer|elapsed-from-channel-end", "elapsed = t0 - last_pulse_slot.tf with t0 the channel's current end",
              f"the elapsed time subtracted from the buffer is not measured from the channel's current end ({sh(full['Q_t0']) if full else '?'}): time the pulse still has to wait for other reasons would be deducted from the phase-jump buffer", where)
    # conditions under which the buffer is computed: read off the path condition of the fall_time call
    fts = [l for l in Sm.calls("fall_time") if full is not None and l.target == ("attr", full["Q_lp"], "fall_time")]
    has_nodelay = bool(fts) and all(any(is_(x, "Q_p != 'no-delay'") is not None for x in sym.conj_of(l.cond)) for l in fts)
    has_phase = bool(fts) and all(any(is_(x, "Q_a.phase != Q_b") is not None for x in sym.conj_of(l.cond)) for l in fts)
    rep.check(has_nodelay, "FLOW", "phase_jump_buffer|only-if-not-no-delay", "computed under protocol != 'no-delay'", "the phase-jump buffer is no longer restricted to protocols other than 'no-delay' (or the guard disappeared)", where)
    # ... and the phase that is compared is the phase the slot will carry (the drift-corrected one), up to the time
    # at which the drift is evaluated
    drift_times: list = []
    stored = [c for c in sym.subterms(arg(slot, 0, "type")) if c[0] == "call" and c[1] == ("name", "Pulse")]
    xs = [dict(c[3]).get("phase") for c in stored if dict(c[3]).get("phase") is not None]
    same_phase = bool(fts) and bool(xs)
    if same_phase:
        x0 = xs[0]
        h = None
        if x0[0] == "call" and x0[1][0] == "name" and x0[1][1] in mn.nested:
            h = mn.nested[x0[1][1]]
        elif x0[0] == "call" and x0[1][0] == "attr" and x0[1][1] == ("name", "self") and x0[1][2].startswith("_") and mn.cls is not None and x0[1][2] in mn.cls.methods:
            h = mn.cls.methods[x0[1][2]][0]
        if h is not None and not x0[3]:
            # the stored phase is computed by a local function / private method (too large to be inlined at that
            # site): use its own symbolic value; small arguments are substituted, the large one (the time at which
            # the drift is evaluated) becomes the metavariable
            pars = [p_ for p_ in h.params if p_ not in ("self", "cls")]
            bind = {}
            for p_, a_ in zip(pars, x0[2]):
                bind[("name", p_)] = a_ if sym.size(a_, 8) <= 6 else ("name", "Q_t")
            xpat = sym.subst(S(E, h).ret, lambda t: bind.get(t))
        else:
            xpat = sym.subst(x0, lambda t: (t[0], t[1], (("name", "Q_t"),), t[3]) if len(t) == 4 and t[0] == "call" and isinstance(t[1], tuple) and len(t[1]) == 3 and t[1][0] == "attr" and t[1][2] == "calc_phase_drift" else None)
        for l in fts:
            hit = False
            for x in sym.conj_of(l.cond):
                m = is_(x, "Q_a.phase != Q_b")
                if m is not None and m["Q_a"] == full["Q_lp"]:
                    mm_ = sym.match(xpat, m["Q_b"])
                    hit = hit or mm_ is not None
                    if mm_ is not None and mm_.get("Q_t") is not None:
                        drift_times.append(mm_["Q_t"])
            same_phase = same_phase and hit
    # ... evaluated no earlier than the pulse can start: the drift-corrected phase that is compared is taken at the start
    # time AFTER the waits for other channels / phase barriers (the scheduled pulse carries the drift accumulated over that
    # wait), not at the channel's current end t0
    for dt_ in drift_times:
        late_enough = full is not None and dt_ != full["Q_t0"] and (mentions(dt_, "phase_barrier_ts") or mentions(dt_, "_find_add_delay") or sym.contains(dt_, full["Q_t0"]) and dt_ != full["Q_t0"])
        rep.check(late_enough, "FLOW", "phase_jump_buffer|phase-compared-at-the-earliest-start-after-waits", "corrected phase evaluated at max(t0, barriers, other channels' ends)", f"the phase that decides whether a phase jump is needed is the drift-corrected phase at `{sh(dt_, 60)}` (the channel's current end): when the pulse still has to wait for another channel, the phase it is scheduled with has drifted further, so two pulses of different scheduled phase can be left without the phase-jump time", where)
    rep.check(same_phase, "FLOW", "phase_jump_buffer|compares-the-phase-that-is-scheduled", "the last pulse's phase is compared with the phase the new slot carries (drift-corrected when a correction applies)", "the phase-jump buffer is decided on a phase other than the one stored in the new slot (e.g. the nominal pulse.phase although the slot carries the drift-corrected phase): two consecutive pulses of different scheduled phase can be left without the phase-jump time", where)
    rep.check(has_phase, "FLOW", "phase_jump_buffer|only-if-phase-differs", "computed only when the phase changes", "the phase-jump buffer is no longer conditioned on a phase change", where)
    # delay = max(conflict delay, buffer)
    ok = False
    if full is not None:
        for m in all_of(ti, "max(Q_a, Q_b)"):
            for x, y in ((m["Q_a"], m["Q_b"]), (m["Q_b"], m["Q_a"])):
                if has_buf(x) is not None and mentions(y, "phase_barrier_ts") and has_buf(y) is None:
                    ok = True
    rep.check(ok, "FLOW", "make_next_pulse_slot|delay=max(conflict,buffer)", "delay = max(conflict delay, phase-jump buffer)", "the inserted delay is no longer the max of the conflict delay (phase barriers, other channels) and the phase-jump buffer", where)
    ok = full is not None and is_(full["Q_ls"], "Q__.last_pulse_slot(ignore_detuned_delay=True)") is not None and full["Q_lp"] == ("attr", full["Q_ls"], "type")
    rep.check(ok, "FLOW", "make_next_pulse_slot|last-pulse-ignores-detuned-delays", "last_pulse_slot(ignore_detuned_delay=True)", "the last pulse is no longer looked up with last_pulse_slot(ignore_detuned_delay=True) (detuned delays must be skipped), or fall time and end time come from different slots", where)
    # --------------------------------------------------------- add_target
    at = E.method(SCHED, "add_target")
    fl = E.flow(at)
    wf = E.method(SCHED, "wait_for_fall")
    order = [(node.id, i, e) for node, i, e in fl.all_events()]
    i_wait = next((k for k, (_a, _b, e) in enumerate(order) if e.kind == "call" and any(c.innermost() is wf for c, _m in e.callees)), None)
    # (a read of the last slot inside the `if <last>.targets == <new targets>: return` test decides only whether anything
    #  is done at all: it may precede the wait -- retargeting to the same atoms inserts nothing, not even the fall time)
    noop_tests = [n_.test for n_ in ast.walk(at.node) if isinstance(n_, ast.If) and n_.body and isinstance(n_.body[0], ast.Return) and any(isinstance(c_, ast.Compare) and any(isinstance(o_, ast.Eq) for o_ in c_.ops) and "targets" in ast.unparse(c_) for c_ in ast.walk(n_.test))]
    in_noop = {id(x_) for t_ in noop_tests for x_ in ast.walk(t_)}
    i_last = next((k for k, (_a, _b, e) in enumerate(order) if e.kind == "call" and e.text.endswith("[-1]") and id(e.node) not in in_noop), None)
    # retargeting to the atoms the channel already targets returns BEFORE the wait for the fall time
    i_noop = next((k for k, (_a, _b, e) in enumerate(order) if e.kind == "call" and e.text.endswith("[-1]") and id(e.node) in in_noop), None)
    rep.check(i_noop is not None and i_wait is not None and i_noop < i_wait, "FLOW", "add_target|same-targets-return-before-the-wait", "`if <last>.targets == qubits_set: return` precedes wait_for_fall", "add_target waits for the last pulse's fall time before it tests whether the targets change: a no-op target() on a Local channel with a modulation bandwidth appends a delay as long as that fall time, where retargeting to the same atoms must insert nothing", E.where(at))
    rep.check(i_wait is not None and i_last is not None and i_wait < i_last, "FLOW", "add_target|wait_for_fall-before-reading-last", "the previous pulse ramps down before the retarget starts", "add_target reads the last slot before waiting for the fall time: the retarget could start while the pulse is still ramping down", E.where(at))
    Sa = S(E, at)
    tslots = [l for l in Sa.calls("_TimeSlot") if l.fn == at.short]
    if not tslots:
        raise AnalysisError("anchor: add_target no longer builds a _TimeSlot")
    for ts in tslots:
        w = E.where(at, ts.node)
        t_i, t_f, q = arg(ts, 1, "ti"), arg(ts, 2, "tf"), arg(ts, 3, "targets")
        qs = q[2][0] if q is not None and q[0] == "call" and q[2] else q
        same = any_lit(ts, "Q_l.targets != Q_q")
        rep.check(same is not None and same["Q_q"] == qs, "FLOW", "add_target|same-target-returns-before-append", "retargeting to the same atoms inserts nothing", "the target slot is no longer built only when the new targets differ from the current ones (same-target early return gone or changed)", w)
        CLIP = "Q_np.clip(Q_ch.min_retarget_interval - (Q_ti - Q_cs.last_target()), 0, Q_ch.min_retarget_interval)"
        mc = has(t_f, CLIP)
        rep.check(mc is not None, "FLOW", "add_target|interval-since-last-target", "delta = clip(min_retarget_interval - (ti - last_target()), 0, min_retarget_interval)", "the retarget duration no longer accounts for the minimum retarget interval since the last target (clip(min_retarget_interval - (ti - last_target()), 0, min_retarget_interval) not found)", w)
        rep.check(mc is not None and t_i is not None and sym.contains(t_i, mc["Q_ti"]), "FLOW", "add_target|elapsed=ti-last_target", "elapsed measured from the slot's own start to the end of the previous target instruction", "the elapsed time is no longer ti - last_target() with ti the start of the new target slot", w)
        mm = has(t_f, "max(Q_ch.fixed_retarget_t, Q_c)")
        rep.check(mm is not None and has(mm["Q_c"], CLIP) is not None, "FLOW", "add_target|at-least-fixed_retarget_t", "delta = max(delta, fixed_retarget_t)", "the retarget no longer lasts at least fixed_retarget_t", w)
        ma = has(t_f, "Q_cs.adjust_duration(Q_d)")
        rep.check(ma is not None and has(ma["Q_d"], CLIP) is not None, "FLOW", "add_target|adjusted", "non-zero retarget passes adjust_duration", "the retarget duration no longer passes adjust_duration", w)
    rep.floor("FLOW", 14)
    # the look-back of the at-rest duration covers the longest possible ramp-down (2*rise_time), like the conflict scan does
    _lookback(E, rep)
    # -------------------------------------------------------------- GUARD
    pj = [f for f in E.cls(CH).methods["phase_jump_time"] if f.kind == "property"][0]
    r = S(E, pj).ret
    m = has(r, "Q_a if Q_s.custom_phase_jump_time is None else Q_b")
    ok = m is not None and has(m["Q_a"], "2 * Q_s.rise_time") is not None and not mentions(m["Q_a"], "custom_phase_jump_time") and mentions(m["Q_b"], "custom_phase_jump_time") and not mentions(m["Q_b"], "rise_time")
    rep.check(ok, "GUARD", "Channel.phase_jump_time|custom-else-2*rise_time", "custom_phase_jump_time if defined (0 included) else 2*rise_time", f"phase_jump_time is no longer `custom if custom is not None else 2*rise_time` (a custom value of 0 must be honoured): {sh(r)}", E.where(pj))
    rt = [f for f in E.cls(CH).methods["rise_time"] if f.kind == "property"][0]
    r = S(E, rt).ret
    rep.check(has(r, "Q_k / Q_s.mod_bandwidth * QS_r") is not None, "GUARD", "Channel.rise_time|from-mod_bandwidth", "rise time = MODBW_TO_TR / mod_bandwidth", f"rise_time no longer derives from mod_bandwidth: {sh(r)}", E.where(rt))
    rep.floor("GUARD", 4)
    # RETKIND: add_target decides "same targets -> no retarget" with `last.targets == qubits_set`; the target ids it
    # receives come from functions annotated `-> set[...]`.  A return that is certainly not a set (list / tuple / dict
    # literal or comprehension, list()/tuple()/sorted()) makes that equality always false: every re-target to the same
    # atoms then inserts a retarget delay.  Decided for every function of the program with a set return annotation.
    import ast as _ast

    from .symutil import branches as _branches10, unobj as _unobj10

    n_ret = 0
    for g in E.P.all_functions():
        r_ann = g.node.returns
        if r_ann is None or g.kind == "overload" or not _ast.unparse(r_ann).replace("typing.", "").lower().startswith(("set[", "set", "abstractset", "frozenset")):
            continue
        for l in S(E, g, inline=False).logged("return"):
            if l.value is None or l.fn != g.short:
                continue
            for _c, leaf in _branches10(l.value):
                v = _unobj10(leaf)
                n_ret += 1
                not_set = v[0] in ("list", "tuple", "dict") or (v[0] == "comp" and v[1] in ("list", "dict", "gen")) or (v[0] == "call" and v[1] in (("name", "list"), ("name", "tuple"), ("name", "dict"), ("name", "sorted")))
                rep.check(not not_set, "GUARD", f"{g.short}|returns-a-set|{sh(v, 30)}", "returned value is not a list/tuple/dict", f"{g.short} is declared to return a set but returns `{sh(v, 80)}`: callers compare it with sets (`last.targets == qubits_set` in _Schedule.add_target) and such a comparison is never true for a list, so re-targeting the same atoms inserts a retarget", E.where(g, l.node))
    if n_ret < 8:
        rep.error(f"RETKIND: only {n_ret} returns of set-annotated functions found")
    return {}


def _rise_coeffs(t) -> set:
    """Numeric coefficients with which `<x>.rise_time` enters the comparisons inside a term."""
    out = set()

    def walk(x, in_cmp: bool) -> None:
        if not isinstance(x, tuple) or not x:
            return
        if x[0] == "cmp":
            in_cmp = True
        if in_cmp and x[0] == "mul" and len(x) == 3 and sym.is_num(x[1]) and isinstance(x[2], tuple) and x[2][0] == "ifexp":
            # c * (a if cond else b): the coefficient applies to both alternatives
            walk(("mul", x[1], x[2][2]), True)
            walk(("mul", x[1], x[2][3]), True)
            return
        if in_cmp and x[0] == "mul" and any(y[0] == "attr" and y[2] == "rise_time" for y in x[1:] if isinstance(y, tuple)):
            out.add(x[1][1] if sym.is_num(x[1]) else 1)
            return
        if in_cmp and x[0] == "attr" and x[2] == "rise_time":
            out.add(1)
            return
        for y in x:
            walk(y, in_cmp)

    walk(t, False)
    return out


def _lookback(E: Engine, rep: Report) -> None:
    gd = E.method(CHS, "get_duration")
    fad = E.method(SCHED, "_find_add_delay")
    facs = {}
    for f, label in ((gd, "get_duration"), (fad, "_find_add_delay")):
        Sf = S(E, f)
        for l in Sf.log:
            if l.kind == "test":  # tests of inlined private helpers included
                facs.setdefault(label, set()).update(_rise_coeffs(l.value))
    rep.check(facs.get("get_duration") == {2}, "GUARD", "_ChannelSchedule.get_duration|lookback=2*rise_time", "the backwards scan for a pending fall time stops only after 2*rise_time of idle time (the longest possible fall time)",
              f"the at-rest look-back threshold is {sorted(facs.get('get_duration', []))} x rise_time: a pulse whose fall time (up to 2*rise_time) is still pending would be missed behind short delays", E.where(gd))
    # ... and the rise time is the one of the mode the channel is IN (in_eom_mode), not of what the channel could do
    #     (supports_eom): outside EOM mode the fall time is bounded by 2 x the channel's own rise time
    eom_sel = [t for l in S(E, gd).log if l.kind == "test" for t in sym.subterms(l.value) if t[0] == "ifexp" and (mentions(t[2], "eom_config") != mentions(t[3], "eom_config")) and mentions(t, "rise_time")]
    for t in eom_sel[:1]:
        c_ = t[1] if mentions(t[2], "eom_config") else sym.mk_not(t[1])
        rep.check(mentions(c_, "in_eom_mode") and not mentions(c_, "supports_eom"), "GUARD", "_ChannelSchedule.get_duration|lookback-in-the-current-mode", "the EOM rise time bounds the look-back under in_eom_mode",
                  f"the look-back of get_duration takes the EOM rise time under `{sh(c_, 80)}`: a channel that merely has an EOM but is in ordinary operation ramps down with its own (longer) rise time, so a pulse still falling behind two short delays is missed and a retarget / EOM buffer starts before it has ramped down", E.where(gd))
    rep.check(facs.get("_find_add_delay") == {2}, "GUARD", "_Schedule._find_add_delay|lookback=2*rise_time", "the conflict scan looks 2*rise_time behind non-pulse slots",
              f"the conflict scan threshold is {sorted(facs.get('_find_add_delay', []))} x rise_time", E.where(fad))
