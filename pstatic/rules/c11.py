"""C11 -- emulation keeps states physical and follows the measurement conventions (narrow)."""
from __future__ import annotations

import ast
import os
import re

from ..absval import abstractor
from ..engine import Engine
from ..model import AnalysisError, dotted, norm
from ..report import Report
from .common import own_nodes, returns

EXPLANATION = (
    "TYPECMP: a value whose declared type admits an array (np.ndarray / Sequence / ArrayLike) as well as a string mode literal is never compared with `==`/`!=` to a string literal in a truth context "
    "without a dominating isinstance(_, str) on the same expression (the program itself shows the safe idiom; a bare comparison on an array raises 'truth value is ambiguous' -- e.g. when the backend re-creates "
    "its config from stored options with several default evaluation times). TABLE: the measurement conventions agree between the code and the documented SPAM table: the state read as 1 is r (ground-rydberg), "
    "h (digital), d / |1> (XY) in QutipResult._weights, State.infer_one_state and EIGENSTATES (second XY state, first ground-rydberg state), and the ground-rydberg qubit vector order is reversed exactly once. "
    "SIB: both samplers flip a measured 1 with the false-negative rate and a measured 0 with the false-positive rate (np.where(bit == 1, <false-neg>, <false-pos>)), the legacy names are tied by "
    "_DIFF_NOISE_PARAMS (p_false_pos->epsilon, p_false_neg->epsilon_prime) and BitStrings passes both rates by keyword; weights are normalised by their sum. "
    "NOT decided: normalisation/positivity of evolved states, Rabi oscillation, legacy/V2 agreement (runtime numerics)."
)
ASSUMPTIONS = ["declared types come from annotations; numpy arrays are recognised by their annotation names"]

ARRAYISH = ("ndarray", "ArrayLike", "AbstractArray", "TensorLike")


def _arrayish(t: frozenset) -> bool:
    for a in t:
        if a[0] in ("list", "tuple"):
            return True
        if a[0] == "ext" and a[1].split(".")[-1] in ARRAYISH:
            return True
        if a[0] == "inst" and a[1].split(".")[-1] in ARRAYISH:
            return True
    return False


def run(E: Engine, rep: Report, tier: str) -> dict:
    P = E.P
    # ------------------------------------------------------------ TYPECMP
    n_cmp = 0
    for f in P.all_functions():
        if f.kind == "overload" or not f.module.name.startswith(("pulser.backend", "pulser_simulation", "pulser.result", "pulser.noise_model")):
            continue
        fl = E.flow(f)
        ab = None
        for n in own_nodes(f):
            if not (isinstance(n, ast.Compare) and len(n.ops) == 1 and isinstance(n.ops[0], (ast.Eq, ast.NotEq))):
                continue
            sides = [n.left, n.comparators[0]]
            lit = [s for s in sides if isinstance(s, ast.Constant) and isinstance(s.value, str)]
            other = [s for s in sides if not (isinstance(s, ast.Constant) and isinstance(s.value, str))]
            if len(lit) != 1 or len(other) != 1:
                continue
            t = E.R.type_of(other[0], fl.ctx)
            if not (("str",) in t and _arrayish(t)):
                continue
            n_cmp += 1
            ab = ab or abstractor(fl)
            dnf = ab.enclosing_conditions(n)
            text = norm(other[0])
            guarded = all(any(l.truth is not None and l.positive and l.text.replace(" ", "").startswith(f"isinstance({text},".replace(" ", "")) and "str" in l.text for l in c) for c in dnf)
            key = f"{f.short}|{text}|{type(n.ops[0]).__name__}|{lit[0].value}"
            rep.check(guarded, "TYPECMP", key, f"`{norm(n)}` evaluated only after isinstance({text}, str)",
                      f"`{norm(n)}`: `{text}` is declared as {sorted(a[0] + (':' + a[1].split('.')[-1] if len(a) > 1 and isinstance(a[1], str) else '') for a in t)} -- when it holds an array the comparison yields an array and its truth value raises ValueError; guard it with isinstance({text}, str) as the other call sites do", E.where(f, n))
    rep.floor("TYPECMP", 3)

    # -------------------------------------------------------------- TABLE
    chm = P.module("pulser.channels.base_channel")
    eig = P.fold(chm, chm.assigns["EIGENSTATES"])
    w = E.fn("pulser_simulation.qutip_result.QutipResult._weights")
    one = None
    for n in own_nodes(w):
        if isinstance(n, (ast.Assign, ast.AnnAssign)) and norm(n.targets[0] if isinstance(n, ast.Assign) else n.target) == "one_state_dict" and isinstance(n.value, ast.Dict):
            one = {k.value: v.value for k, v in zip(n.value.keys, n.value.values) if isinstance(k, ast.Constant) and isinstance(v, ast.Constant)}
    if one is None:
        raise AnalysisError("anchor: one_state_dict not found in QutipResult._weights")
    want = {"ground-rydberg": "r", "digital": "h", "XY": "d"}
    rep.check(one == want, "TABLE", "QutipResult._weights|one_state_dict", f"{one}", f"one_state_dict = {one}; the documented convention is {want}", E.where(w))
    ios = E.fn("pulser.backend.state.State.infer_one_state")
    table = {}
    for n in own_nodes(ios):
        if isinstance(n, ast.If) and isinstance(n.test, ast.Compare) and isinstance(n.test.comparators[0], ast.Set) and isinstance(n.body[0], ast.Return) and isinstance(n.body[0].value, ast.Constant):
            table[frozenset(e.value for e in n.test.comparators[0].elts if isinstance(e, ast.Constant))] = n.body[0].value.value
    for b, st in eig.items():
        got = table.get(frozenset(st))
        rep.check(got == want[b], "TABLE", f"State.infer_one_state|{b}", f"{sorted(st)} -> {got}", f"infer_one_state maps eigenstates {sorted(st)} to '{got}', the convention for {b} is '{want[b]}'", E.where(ios))
    rep.check(table.get(frozenset({"0", "1"})) == "1", "TABLE", "State.infer_one_state|0-1", "{'0','1'} -> '1'", "infer_one_state no longer maps {'0','1'} to '1'", E.where(ios))
    doc_path = os.path.join(P.root, "docs", "source", "conventions.md")
    if os.path.exists(doc_path):
        doc = open(doc_path, encoding="utf-8").read()
        ok = re.search(r"ground-rydberg``.*?\|r\\rangle \\rightarrow 1", doc, re.S) and re.search(r"digital``.*?\|h\\rangle \\rightarrow 1", doc, re.S) and re.search(r"XY``.*?\|1\\rangle \\rightarrow 1", doc, re.S)
        rep.check(bool(ok), "TABLE", "docs|spam-table", "documented: r->1, h->1, |1>->1", "the documented SPAM table changed", "docs/source/conventions.md")
    # ground-rydberg vector order reversed exactly once in the 2-level branch
    rev = [n for n in own_nodes(w) if isinstance(n, ast.IfExp) and norm(n.body) == "probs[::-1]"]
    ok = len(rev) == 1 and norm(rev[0].test).replace('"', "'") == "self.meas_basis == 'ground-rydberg'" and norm(rev[0].orelse) == "probs"
    rep.check(ok, "TABLE", "QutipResult._weights|reverse-only-ground-rydberg", "qubit probabilities reversed iff measuring in ground-rydberg (r is the first vector but reads 1)", "the reversal of the two-level probabilities changed", E.where(w))
    nrm = any(isinstance(r.value, ast.Call) and "weights / sum(weights)" in norm(r.value) or "weights / sum(weights)" in norm(r.value) for r in returns(w))
    rep.check(nrm, "TABLE", "QutipResult._weights|normalised", "weights / sum(weights)", "sampling weights are no longer normalised", E.where(w))
    bp = E.fn("pulser_simulation.qutip_state.QutipState.bitstring_probabilities")
    src = norm(bp.node)
    rep.check("state_str.replace(one_state, '1')" in src and "bitstring.replace(s_, '0')" in src and "set(self.eigenstates) - {one_state}" in src, "TABLE", "QutipState.bitstring_probabilities|one->1-others->0", "the one-state reads 1, every other eigenstate reads 0", "bitstring conversion changed", E.where(bp))
    rep.floor("TABLE", 8)

    # ---------------------------------------------------------------- SIB
    s1 = E.fn("pulser_simulation.simresults.CoherentResults.sample_state")
    s2 = E.fn("pulser_simulation.qutip_state.QutipState.sample")
    ab1 = abstractor(E.flow(s1))
    def rate_name(f, e: ast.AST) -> str:
        """Name of the rate an expression denotes: a parameter name, or the constant key of `x = d["key"]`."""
        if isinstance(e, ast.Name):
            for n in own_nodes(f):
                if isinstance(n, ast.Assign) and len(n.targets) == 1 and isinstance(n.targets[0], ast.Name) and n.targets[0].id == e.id:
                    return rate_name(f, n.value)
            return e.id
        if isinstance(e, ast.Subscript) and isinstance(e.slice, ast.Constant):
            return str(e.slice.value)
        if isinstance(e, ast.Attribute):
            return e.attr
        return norm(e)

    for f, neg, pos in ((s1, "epsilon_prime", "epsilon"), (s2, "p_false_neg", "p_false_pos")):
        ok = False
        got = None
        for n in own_nodes(f):
            if isinstance(n, ast.Call) and (dotted(n.func) or "").endswith("where") and len(n.args) == 3 and isinstance(n.args[0], ast.Compare):
                c = n.args[0]
                if isinstance(c.ops[0], ast.Eq) and norm(c.comparators[0]) == "1":
                    got = (rate_name(f, n.args[1]), rate_name(f, n.args[2]))
                    ok = got == (neg, pos)
        rep.check(ok, "SIB", f"{f.short}|flip=where(bit==1,false-neg,false-pos)", f"a measured 1 flips with {neg}, a measured 0 with {pos}", f"{f.short}: np.where(bit == 1, {got[0] if got else '?'}, {got[1] if got else '?'}) -- a measured 1 must flip with the false-negative rate ({neg}) and a measured 0 with the false-positive rate ({pos})", E.where(f))
    scm = P.module("pulser_simulation.simconfig")
    diff = P.fold(scm, scm.assigns["_DIFF_NOISE_PARAMS"])
    rep.check(diff.get("p_false_pos") == "epsilon" and diff.get("p_false_neg") == "epsilon_prime" and diff.get("state_prep_error") == "eta", "SIB", "_DIFF_NOISE_PARAMS|legacy-names", "p_false_pos->epsilon, p_false_neg->epsilon_prime, state_prep_error->eta", f"_DIFF_NOISE_PARAMS = {diff}", E.where_mod(scm.relpath, scm.assigns["_DIFF_NOISE_PARAMS"]))
    sd = [f for f in P.cls("pulser_simulation.simconfig.SimConfig").methods["spam_dict"]][0]
    d = None
    for r in returns(sd):
        if isinstance(r.value, ast.Dict):
            d = {k.value: norm(v) for k, v in zip(r.value.keys, r.value.values) if isinstance(k, ast.Constant)}
    rep.check(d == {"eta": "self.eta", "epsilon": "self.epsilon", "epsilon_prime": "self.epsilon_prime"}, "SIB", "SimConfig.spam_dict|names", f"{d}", f"spam_dict = {d}", E.where(sd))
    bs = E.fn("pulser.backend.default_observables.BitStrings.apply")
    kws = {}
    for n in own_nodes(bs):
        if isinstance(n, ast.Call) and isinstance(n.func, ast.Attribute) and n.func.attr == "sample":
            kws = {k.arg: norm(k.value) for k in n.keywords}
    rep.check(kws.get("p_false_pos", "").endswith(".p_false_pos") and kws.get("p_false_neg", "").endswith(".p_false_neg"), "SIB", "BitStrings.apply|rates-by-keyword", "p_false_pos/p_false_neg passed by keyword from the noise model", f"BitStrings.apply passes {kws}", E.where(bs))
    rep.floor("SIB", 5)
    return {"string_vs_array_comparisons": n_cmp}
