"""C03 finding 1: 'min-delay'/'wait-for-all' use the other channel's CURRENT
EOM state to compute the fall time of pulses played BEFORE the EOM was enabled.

Channel "a" plays a regular (non-EOM) pulse that ends at t=100 and whose
output-modulation fall time is 240 ns (mod_bandwidth=4 MHz), so it only ends
at t=340. The EOM mode of "a" is then enabled (detuning_off=0, so the EOM
buffer is a plain delay). A pulse added to channel "b" (same atoms) with
'min-delay' or 'wait-for-all' must not start before t=340.
"""
import sys
import warnings

import numpy as np

from pulser import Pulse, Register, Sequence
from pulser.channels import Raman, Rydberg
from pulser.channels.eom import RydbergBeam, RydbergEOM
from pulser.devices import VirtualDevice

warnings.simplefilter("ignore")

device = VirtualDevice(
    name="ModDevice",
    dimensions=2,
    rydberg_level=70,
    channel_objects=(
        Rydberg.Global(
            1000,
            200,
            clock_period=1,
            min_duration=1,
            mod_bandwidth=4.0,
            eom_config=RydbergEOM(
                mod_bandwidth=30.0,
                limiting_beam=RydbergBeam.RED,
                max_limiting_amp=50 * 2 * np.pi,
                intermediate_detuning=800 * 2 * np.pi,
                controlled_beams=(RydbergBeam.BLUE,),
            ),
        ),
        Raman.Global(
            1000, 200, clock_period=1, min_duration=1, mod_bandwidth=4.0
        ),
    ),
)
ryd = device.channels["rydberg_global"]
# detuning_on chosen such that the (only) detuning_off option is exactly 0
offset = float(ryd.eom_config.detuning_off_options(1.0, 0.0)[0])
detuning_on = -offset

failed = False
for protocol in ("min-delay", "wait-for-all"):
    seq = Sequence(Register.square(2, spacing=6, prefix="q"), device)
    seq.declare_channel("a", "rydberg_global")
    seq.declare_channel("b", "raman_global")
    first = Pulse.ConstantPulse(100, 1.0, 0.0, 0.0)
    seq.add(first, "a")
    slot_a = seq._schedule["a"][-1]
    end_of_a = slot_a.tf + first.fall_time(ryd, in_eom_mode=False)
    seq.enable_eom_mode("a", 1.0, detuning_on, optimal_detuning_off=0.0)
    assert float(seq._schedule["a"].eom_blocks[-1].detuning_off) == 0.0
    # No other pulse was played on "a" (the EOM buffer is a delay)
    assert seq._schedule["a"].last_pulse_slot() is slot_a

    new = Pulse.ConstantPulse(100, 1.0, 0.0, 0.0)
    estimate = seq.estimate_added_delay(new, "b", protocol)
    seq.add(new, "b", protocol)
    start_of_b = seq._schedule["b"][-1].ti
    ok = start_of_b >= end_of_a and estimate == start_of_b
    print(
        f"{protocol}: pulse on 'a' ends at {slot_a.tf} + fall time = "
        f"{end_of_a}; pulse on 'b' starts at {start_of_b} "
        f"(estimate_added_delay={estimate}) -> {'ok' if ok else 'CONFLICT'}"
    )
    failed |= not ok

print("FAIL" if failed else "PASS")
sys.exit(1 if failed else 0)
