"""C17 / results round-trip: Results of a register with integer qubit IDs
cannot be serialised.

Register.square(2) -- the library default, prefix=None -- gives the qubit IDs
0, 1, 2, 3.  Registers and sequences serialise such IDs through
stringify_qubit_ids(); Results._to_abstract_repr() writes atom_order verbatim,
the results schema wants strings, and Results.to_abstract_repr() raises
jsonschema.ValidationError ("1 is not of type 'string'").
"""
import sys
import warnings

import jsonschema

from pulser import Pulse, Register, Sequence
from pulser.backend import BitStrings, Occupation, Results
from pulser.devices import MockDevice

warnings.simplefilter("ignore")
failures = []


def roundtrip(label, res, expected_order):
    try:
        s = res.to_abstract_repr()
    except jsonschema.exceptions.ValidationError as e:
        failures.append(f"{label}: to_abstract_repr raised: {e.message}")
        return
    back = Results.from_abstract_repr(s)
    if back.atom_order != expected_order:
        failures.append(
            f"{label}: atom_order {back.atom_order!r} != {expected_order!r}"
        )
    if back.get_tagged_results() != res.get_tagged_results():
        failures.append(f"{label}: tagged results differ")


# 1) A Results object as any backend would build it for Register.square(2)
reg = Register.square(2, spacing=6)  # default IDs: 0, 1, 2, 3
res = Results(atom_order=tuple(reg.qubit_ids), total_duration=100)
res._store(observable=Occupation(), time=1.0, value=[0.0, 0.1, 0.2, 0.3])
roundtrip("hand-built", res, ("0", "1", "2", "3"))

# control: string IDs
res_s = Results(atom_order=("q0", "q1"), total_duration=100)
res_s._store(observable=Occupation(), time=1.0, value=[0.0, 0.1])
roundtrip("string ids (control)", res_s, ("q0", "q1"))

# 2) The same through a real emulator run
try:
    from pulser_simulation import QutipBackendV2, QutipConfig

    seq = Sequence(reg, MockDevice)
    seq.declare_channel("ch", "rydberg_global")
    seq.add(Pulse.ConstantPulse(100, 5, 0, 0), "ch")
    run = QutipBackendV2(
        seq,
        config=QutipConfig(observables=[Occupation(), BitStrings(num_shots=5)]),
    ).run()
    roundtrip("QutipBackendV2 run", run, ("0", "1", "2", "3"))
except ImportError:
    pass

if failures:
    print("FAIL")
    for f in failures:
        print("  -", f)
    sys.exit(1)
print("PASS")
