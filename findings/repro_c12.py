"""C12: a virtual device whose channel defines max_abs_detuning but not max_amp.
cd /tmp && PYTHONPATH=/repo/pulser-core:/repo/pulser-simulation /venv/bin/python -W ignore /verif/findings/repro_c12.py"""
from pulser.channels import Rydberg
from pulser.devices import VirtualDevice

try:
    dev = VirtualDevice(name="V", dimensions=2, rydberg_level=60, channel_objects=(Rydberg.Global(10.0, None),))
    dev.specs
    dev._specs(for_docs=True)
    print("device_specs_with_undefined_max_amp: holds")
except TypeError as e:
    print("device_specs_with_undefined_max_amp: VIOLATED (", type(e).__name__, e, ")")
