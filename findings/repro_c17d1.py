"""C17 / results round-trip: complex-valued results come back as dicts.

AbstractReprEncoder writes a complex number z as {"real": .., "imag": ..}
(every other decoder in the package undoes this with _convert_complex), but
Results._from_abstract_repr() stores the raw JSON value, so
Results.from_abstract_repr(res.to_abstract_repr()) != res for any observable
whose value is complex (e.g. Expectation of a non-Hermitian operator).
"""
import sys
import uuid

import numpy as np

from pulser.backend import Results

failures = []


def check(label, cond, detail=""):
    if not cond:
        failures.append(f"{label}: {detail}")


# 1) Hand-filled Results
res = Results(atom_order=("q0", "q1"), total_duration=100)
u_exp, u_corr, u_en = uuid.uuid4(), uuid.uuid4(), uuid.uuid4()
res._store_raw(uuid=u_exp, tag="expectation", time=0.5, value=0.5 + 0.25j)
res._store_raw(uuid=u_exp, tag="expectation", time=1.0, value=np.complex128(1j))
res._store_raw(
    uuid=u_corr,
    tag="correlation_matrix",
    time=1.0,
    value=np.array([[1.0, 0.5j], [-0.5j, 1.0]]),
)
res._store_raw(uuid=u_en, tag="energy", time=1.0, value=-1.5)

back = Results.from_abstract_repr(res.to_abstract_repr())
check(
    "expectation values",
    back.expectation == res.expectation,
    f"{back.expectation!r} != {res.expectation!r}",
)
check(
    "get_result",
    back.get_result("expectation", 0.5) == 0.5 + 0.25j,
    repr(back.get_result("expectation", 0.5)),
)
check(
    "complex matrix",
    back.correlation_matrix == [res.correlation_matrix[0].tolist()],
    repr(back.correlation_matrix),
)
check("real value untouched", back.energy == [-1.5], repr(back.energy))

# 2) Same thing with results produced by a real emulator run
try:
    from pulser import Pulse, Register, Sequence
    from pulser.backend import Expectation
    from pulser.devices import MockDevice
    from pulser_simulation import QutipBackendV2, QutipConfig, QutipOperator

    seq = Sequence(Register({"a": (0, 0), "b": (6, 0)}), MockDevice)
    seq.declare_channel("ch", "rydberg_global")
    seq.add(Pulse.ConstantPulse(100, 5, 0, 0), "ch")
    sigma_plus = QutipOperator.from_operator_repr(
        eigenstates=("r", "g"),
        n_qudits=2,
        operations=[(1.0, [({"rg": 1.0}, [0])])],
    )
    run = QutipBackendV2(
        seq, config=QutipConfig(observables=[Expectation(sigma_plus)])
    ).run()
    run_back = Results.from_abstract_repr(run.to_abstract_repr())
    check(
        "emulator expectation",
        run_back.expectation == run.expectation,
        f"{run_back.expectation!r} != {run.expectation!r}",
    )
except ImportError:  # pulser_simulation not available: part 1 is enough
    pass

if failures:
    print("FAIL")
    for f in failures:
        print("  -", f)
    sys.exit(1)
print("PASS")
