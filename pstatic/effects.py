"""Interprocedural summaries: write effects and escaping explicit raises (DESIGN 2.6)."""
from __future__ import annotations

import ast
from dataclasses import dataclass
from typing import Iterable, Optional

from .flow import Event, FunctionFlow, Node, flow_of
from .model import FunctionInfo, Program, dotted, norm
from .resolve import Callable_, Resolver


@dataclass(frozen=True)
class Write:
    owner: str  # class qualname or '?'
    field: str
    op: str
    root: str  # self | param:<n> | global | unk | outer:...
    origin: str  # short qualname of the function holding the write statement
    text: str

    @property
    def region(self) -> tuple[str, str]:
        return (self.owner, self.field)


@dataclass(frozen=True)
class Raise:
    fn: str  # short qualname of the raising function
    exc: str
    guard: str  # normalised text-free signature of the guard (may be '')


class Summaries:
    """Fixpoint of (writes, raises) over the callable graph reachable on demand."""

    def __init__(self, R: Resolver):
        self.R = R
        self.P = R.P
        self.writes: dict[str, set[Write]] = {}
        self.raises: dict[str, set[Raise]] = {}
        self.asserts: dict[str, set[str]] = {}
        self.unresolved: dict[str, set[str]] = {}
        self.reflective: dict[str, set[str]] = {}
        self._callables: dict[str, Callable_] = {}
        self._deps: dict[str, set[str]] = {}
        self._done = False
        self.reflective_targets: Optional[list[Callable_]] = None

    # ------------------------------------------------------------ bootstrap
    def ensure(self, roots: Iterable[Callable_]) -> None:
        """Compute summaries for everything reachable from ``roots``."""
        work = list(roots)
        seen = set(self._callables)
        new = []
        while work:
            c = work.pop()
            if c.key in seen:
                continue
            seen.add(c.key)
            self._callables[c.key] = c
            new.append(c)
            fl = flow_of(self.R, c)
            deps = set()
            for _n, _i, e in fl.all_events():
                for cal, _mode in e.callees:
                    deps.add(cal.key)
                    if cal.key not in seen:
                        work.append(cal)
                if e.kind == "reflective" and self.reflective_targets:
                    for cal in self.reflective_targets:
                        deps.add(cal.key)
                        if cal.key not in seen:
                            work.append(cal)
            self._deps[c.key] = deps
        for c in new:
            self.writes.setdefault(c.key, set())
            self.raises.setdefault(c.key, set())
            self.asserts.setdefault(c.key, set())
            self.unresolved.setdefault(c.key, set())
        # fixpoint
        changed = True
        rounds = 0
        while changed:
            changed = False
            rounds += 1
            for k, c in self._callables.items():
                w, r = self._compute(c)
                if not w <= self.writes[k]:
                    self.writes[k] |= w
                    changed = True
                if not r <= self.raises[k]:
                    self.raises[k] |= r
                    changed = True
            if rounds > 50:
                break

    # -------------------------------------------------------- per function
    def event_effects(self, fl: FunctionFlow, node: Node, e: Event) -> tuple[set[Write], set[Raise]]:
        """Writes and escaping raises of a single event, in the frame of ``fl``'s function."""
        w: set[Write] = set()
        r: set[Raise] = set()
        short = fl.fn.short
        if e.kind == "write":
            for owner, fld in e.places:
                for root in e.roots:
                    if root == "fresh":
                        continue
                    w.add(Write(owner, fld, e.op, root, short, e.text))
        elif e.kind == "raise":
            if not fl.caught(node, e.exc):
                r.add(Raise(short, e.exc, ""))
        elif e.kind in ("call", "getprop", "setprop"):
            for cal, mode in e.callees:
                cw = self.writes.get(cal.key, set())
                cr = self.raises.get(cal.key, set())
                for x in cw:
                    for root in self._map_root(fl, e, cal, mode, x.root):
                        if root == "fresh":
                            continue
                        w.add(Write(x.owner, x.field, x.op, root, x.origin, x.text))
                for x in cr:
                    if not fl.caught(node, x.exc):
                        r.add(x)
        elif e.kind == "reflective" and self.reflective_targets:
            n = e.node
            recv = n.func.args[0] if isinstance(n, ast.Call) and isinstance(n.func, ast.Call) and n.func.args else None
            rroots = fl.roots(recv) if recv is not None else frozenset({"unk"})
            for cal in self.reflective_targets:
                for x in self.writes.get(cal.key, set()):
                    roots = rroots if x.root == "self" else frozenset({"unk"}) if x.root.startswith("param:") else frozenset({x.root})
                    for root in roots:
                        if root != "fresh":
                            w.add(Write(x.owner, x.field, x.op, root, x.origin, x.text))
                for x in self.raises.get(cal.key, set()):
                    if not fl.caught(node, x.exc):
                        r.add(x)
        return w, r

    def _map_root(self, fl: FunctionFlow, e: Event, cal: Callable_, mode: str, root: str) -> frozenset:
        if root in ("global", "unk"):
            return frozenset({root})
        if root.startswith("outer:"):
            # closure variable of a nested function: same frame as the definer
            if cal.fn.parent is fl.fn:
                return frozenset({root[len("outer:"):]})
            return frozenset({"unk"})
        n = e.node
        if mode == "ctor":
            if root == "self":
                return frozenset({"fresh"})
        # receiver
        recv: Optional[ast.AST] = None
        args: list[ast.AST] = []
        kws: dict[str, ast.AST] = {}
        star = False
        if isinstance(n, ast.Call) and e.kind == "call":
            if isinstance(n.func, ast.Attribute):
                recv = n.func.value
            for a in n.args:
                if isinstance(a, ast.Starred):
                    star = True
                args.append(a)
            for k in n.keywords:
                if k.arg is None:
                    star = True
                else:
                    kws[k.arg] = k.value
        elif isinstance(n, ast.Attribute):  # getprop
            recv = n.value
        elif isinstance(n, ast.Subscript):  # __getitem__
            recv = n.value
            args = [n.slice]
        elif isinstance(n, (ast.Assign, ast.AnnAssign, ast.AugAssign, ast.Delete)):
            # setprop / __setitem__: receiver is the target's value
            tgt = n.targets[0] if isinstance(n, (ast.Assign, ast.Delete)) else n.target
            if isinstance(tgt, (ast.Attribute, ast.Subscript)):
                recv = tgt.value
            if isinstance(n, (ast.Assign, ast.AnnAssign, ast.AugAssign)) and n.value is not None:
                args = ([tgt.slice] if isinstance(tgt, ast.Subscript) else []) + [n.value]
        params = self._positional_params(cal.fn)
        bound_first = mode in ("bound", "ctor")
        if root == "self":
            sn = self._self_param(cal.fn)
            if sn is None:
                return frozenset({"unk"})
            pname = sn
        elif root.startswith("param:"):
            pname = root[len("param:"):]
        else:
            return frozenset({"unk"})
        if pname in kws:
            return fl.roots(kws[pname])
        if pname in params:
            idx = params.index(pname)
            if bound_first:
                if idx == 0:
                    if mode == "ctor":
                        return frozenset({"fresh"})
                    if recv is None:
                        return frozenset({"unk"})
                    if isinstance(recv, ast.Call) and (dotted(recv.func) or "") == "super":
                        return frozenset({"self"})
                    return fl.roots(recv)
                idx -= 1
            if 0 <= idx < len(args) and not any(isinstance(a, ast.Starred) for a in args[: idx + 1]):
                return fl.roots(args[idx])
        if star:
            return frozenset({"unk"})
        # default value used -> nothing of the caller
        if pname in cal.fn.param_defaults():
            return frozenset({"global"})
        a = cal.fn.node.args
        if (a.vararg and a.vararg.arg == pname) or (a.kwarg and a.kwarg.arg == pname):
            out = set()
            for x in args:
                out |= fl.roots(x.value if isinstance(x, ast.Starred) else x)
            for x in kws.values():
                out |= fl.roots(x)
            return frozenset(out) or frozenset({"fresh"})
        return frozenset({"unk"})

    @staticmethod
    def _positional_params(f: FunctionInfo) -> list[str]:
        a = f.node.args
        return [x.arg for x in a.posonlyargs + a.args]

    @staticmethod
    def _self_param(f: FunctionInfo) -> Optional[str]:
        a = f.node.args
        pos = a.posonlyargs + a.args
        if not pos:
            return None
        if f.cls is not None and f.parent is None and f.kind != "staticmethod":
            return pos[0].arg
        # decorator wrappers take self explicitly
        if pos[0].arg == "self":
            return "self"
        return None

    def _compute(self, c: Callable_) -> tuple[set[Write], set[Raise]]:
        fl = flow_of(self.R, c)
        W: set[Write] = set()
        Rz: set[Raise] = set()
        sn = self._self_param(c.fn)
        for node, _i, e in fl.all_events():
            w, r = self.event_effects(fl, node, e)
            # in the function's own frame 'self' is only meaningful if it has one
            W |= w
            Rz |= r
            if e.kind == "unresolved":
                self.unresolved[c.key].add(e.text)
            if e.kind == "assert":
                self.asserts[c.key].add(e.text)
        return W, Rz

    # ------------------------------------------------------------- queries
    def of(self, c: Callable_ | FunctionInfo) -> tuple[set[Write], set[Raise]]:
        if isinstance(c, FunctionInfo):
            c = self.R.effective(c)
        self.ensure([c])
        return self.writes[c.key], self.raises[c.key]

    def reachable(self, c: Callable_) -> set[str]:
        self.ensure([c])
        seen: set[str] = set()
        stack = [c.key]
        while stack:
            k = stack.pop()
            if k in seen:
                continue
            seen.add(k)
            stack.extend(self._deps.get(k, ()))
        return seen
