"""C04 -- sequence serialisation round-trips and is schema-valid (TABLE rules)."""
from __future__ import annotations

import ast

from .. import seqtables as T
from ..absval import abstractor
from ..engine import SEQ, Engine
from ..model import AnalysisError, dotted, norm
from ..report import Report

EXPLANATION = (
    "TABLE agreement, all tables extracted from the current source and schema on every run (nothing frozen): "
    "T1 recordable calls (methods decorated @store or recording _Call(<own name>) themselves) are all handled by a serializer branch; "
    "ops emitted by the serializer (abstract interpretation of each branch: dict literals, get_all_args tuples, remove_kwarg_if_default, conditional keys) = ops handled by _deserialize_operation "
    "= ops with a const in the schema's Op* definitions (and listed in Operation.anyOf); per op the always-emitted keys = schema required = keys the deserializer reads unconditionally, optional keys are "
    "read with .get and a default equal to the default of the Sequence method's parameter; the get_all_args tuple equals the method's positional parameter list (names and order) for @store methods and is "
    "consistent with the recorded _Call shape for manual records; keyword names used by the deserializer exist in the method signature. Waveform kinds: SIGNATURES <-> abstract_repr call sites <-> "
    "_deserialize_waveform kinds/keys <-> schema *Waveform definitions <-> constructor parameters. Expression tables: every function wrapped by an OpSupport method serialises to a name known to "
    "SIGNATURES/UNARY_OPERATORS/BINARY_OPERATORS, every emitted expression name is accepted by the deserializer and the schema enum and vice versa; legacy SUPPORTED_* tables contain the same functions. "
    "FLOW: enable_eom_mode/modify_eom_setpoint record the computed detuning_off. NOT decided: behavioural equality of the decoded sequence (runtime). ARGS: the serializer reads a recorded call's positional arguments by constant index only where the argument must be positional (no default, keyword form excluded on that path). TABLE/GUARD (added): the three PulserSequence alternatives of the schema allow the same properties and every top-level key the serializer emits; an argument whose default is None is tested with `is (not) None`, never for truthiness; a default is stored into the mapping whose entry was tested for None. Round 3 (added): every operator name of UNARY_OPERATORS/BINARY_OPERATORS decodes to the function of that name and no two names share a function; a keyword of a recorded call is read only where the parameter cannot have been passed positionally (dual of ARGS)."
    " Round 4 (added): ORDER -- in the deserializer's replay (helpers inlined, source order) no Sequence method decorated with block_if_measured follows the replayed measure; LEGACY-TABLE -- every class named as '__submodule__' by the legacy encoder (owner of a @parametrize classmethod, concrete register classes) is in SUPPORTS_SUBMODULE; IDS -- no numpy array is built from a QubitId-typed argument in the (de)serializer, unfold_targets unwraps array-like (built) targets before its scalar/collection dispatch, and both ParamObj encoders read args[0] only under a test that a positional argument exists."
    ' Round 5 (added): no silent truncation when ParamObj pairs signature names with positional arguments; both encoders of a variable item convert a slice key; both JSON encoders convert np.integer and np.floating; the legacy decoder derives _building from to_build_calls.'
    " Round 6 (added after the fifth independent round of breaking changes): PulserDecoder.object_hook replays obj['calls'] before _building is restored and obj['to_build_calls'] after; VariableItem._to_dict expands a slice over the variable's size."
)
ASSUMPTIONS = [
    "the serializer's branch bodies use the idioms the abstract interpreter knows (dict literals, get_all_args, remove_kwarg_if_default, op_dict[k]=v, update); an unknown idiom is an ANALYSIS-ERROR, not a pass",
]

SER_MOD = "pulser.json.abstract_repr.serializer"
DES_MOD = "pulser.json.abstract_repr.deserializer"
SIG_MOD = "pulser.json.abstract_repr.signatures"


def _params(f) -> list[str]:
    a = f.node.args
    return [x.arg for x in a.posonlyargs + a.args][1:]  # without self


def _default_of(E: Engine, f, name: str):
    d = f.param_defaults().get(name)
    if d is None:
        return "<no-default>"
    try:
        return ast.literal_eval(d)
    except Exception:
        return "<expr>"


def run(E: Engine, rep: Report, tier: str) -> dict:
    P = E.P
    rec = E.recordable()
    sx = T.SerializerExtractor(E)
    branches = sx.branches()
    des = T.deserializer_ops(E)
    sch = T.schema_ops(E)
    ser_f = E.fn(T.SER)
    des_f = E.fn(T.DESER)
    sch_where = "pulser-core/pulser/json/abstract_repr/schemas/sequence-schema.json"

    # -------------------------------------------------- T1 ⊆ T2 (exhaustive)
    handled = {n for b in branches for n in b.names if not b.raises_unknown}
    for name in sorted(rec):
        rep.check(name in handled, "TABLE", f"recordable|{name}|has-serializer-branch", "recorded call is handled by the serializer", f"Sequence.{name} is recorded in the call log but the serializer has no branch for it (to_abstract_repr would raise 'Unknown call')", E.where(ser_f))
    # ------------------------------------------------------ T3 = T4 = T5
    emitted: dict[str, list] = {}
    for b in branches:
        for e in b.emitted:
            emitted.setdefault(e.op, []).append(e)
    ops_all = sorted(set(emitted) | set(des) | set(sch))
    for op in ops_all:
        rep.check(op in emitted and op in des and op in sch, "TABLE", f"op|{op}|three-sides",
                  "emitted by the serializer, handled by the deserializer, defined in the schema",
                  f"op '{op}': serializer={'yes' if op in emitted else 'NO'}, deserializer={'yes' if op in des else 'NO'}, schema={'yes' if op in sch else 'NO'}", E.where(des_f))
        if op in sch:
            rep.check(sch[op]["listed_in_Operation"], "TABLE", f"op|{op}|schema-listed", "definition is a member of Operation.anyOf", f"schema definition {sch[op]['definition']} is not listed in Operation.anyOf", sch_where)
    # ------------------------------------------------------ per-op keys
    for op in ops_all:
        if not (op in emitted and op in des and op in sch):
            continue
        d = des[op]
        s = sch[op]
        for e in emitted[op]:
            keys = dict(e.keys)
            keys.pop("op", None)
            if "pulse_repr" in e.dynamic:
                want_det = op == "pulse"
                var = [v for v in sx.pulse_repr_variants if ("detuning" in v) == want_det]
                if not var:
                    raise AnalysisError("Pulse signatures not found in SIGNATURES")
                for k in var[0]:
                    keys[k] = "req"
            req = {k for k, v in keys.items() if v == "req"}
            opt = {k for k, v in keys.items() if v == "opt"}
            tag = f"op|{op}|from:{e.call}"
            where = f"{ser_f.module.relpath}:{e.line} ({ser_f.short})"
            rep.check(req | opt == d.required | set(d.optional), "TABLE", f"{tag}|keys-emitted=keys-read",
                      f"keys {sorted(req | opt)}", f"serializer emits {sorted(req | opt)} but the deserializer reads {sorted(d.required | set(d.optional))} (difference: {sorted((req | opt) ^ (d.required | set(d.optional)))})", where)
            rep.check(d.required <= req, "TABLE", f"{tag}|required-reads-always-emitted", "every key read with op[...] is always emitted",
                      f"deserializer reads {sorted(d.required - req)} with op[...] but the serializer emits it only conditionally (KeyError on decode)", where)
            rep.check(req == s["required"], "TABLE", f"{tag}|always-emitted=schema-required", f"required {sorted(req)}",
                      f"always-emitted keys {sorted(req)} differ from schema required {sorted(s['required'])}", where)
            rep.check(req | opt <= s["properties"] and (s["additional"] is False), "TABLE", f"{tag}|emitted⊆schema-properties", "all emitted keys are schema properties (additionalProperties false)",
                      f"emitted keys {sorted((req | opt) - s['properties'])} are not schema properties of {s['definition']}", where)
            rep.check(not (opt & s["required"]), "TABLE", f"{tag}|optional-not-required", "conditionally emitted keys are not required by the schema", f"{sorted(opt & s['required'])} is emitted conditionally but required by the schema", where)
        # defaults of optional keys = defaults of the method parameter
        for mname, kws, npos, star, call in d.calls:
            m = rec.get(mname) or (E.method(SEQ, mname) if mname in E.cls(SEQ).methods else None)
            if m is None:
                rep.violation("TABLE", f"op|{op}|calls-{mname}", f"deserializer calls Sequence.{mname}, which does not exist", E.where(des_f, call))
                continue
            allp = m.params[1:]
            rep.check(set(kws) <= set(allp), "TABLE", f"op|{op}|keywords-exist|{mname}", f"keywords {kws} are parameters of Sequence.{mname}", f"deserializer passes keywords {sorted(set(kws) - set(allp))} that Sequence.{mname} does not have", E.where(des_f, call))
            for k, dv in d.optional.items():
                if k in allp:
                    md = _default_of(E, m, k)
                    rep.check(md == dv, "TABLE", f"op|{op}|default|{k}", f"deserializer default {dv!r} == Sequence.{mname}({k}={md!r})",
                              f"op.get('{k}', {dv!r}) in the deserializer but Sequence.{mname} defaults {k}={md!r}: an elided default decodes to a different value", E.where(des_f, call))
    # the serializer drops a keyword only when it equals the method default (by reflection) and the key is optional on the reader side
    for b in branches:
        for nm, meth, kw in b.removed:
            m = rec.get(meth if isinstance(meth, str) else nm)
            ok = m is not None and kw in m.params and kw in m.param_defaults()
            rep.check(ok, "TABLE", f"serializer|remove_kwarg_if_default|{nm}.{kw}", "elided keyword has a default in the method signature", f"remove_kwarg_if_default({meth}, {kw}) but Sequence.{meth} has no default for it", E.where(ser_f))
            # must be optional for the deserializer
            ops_here = [e.op for e in b.emitted if e.call == nm]
            for op in ops_here:
                if op in des:
                    rep.check(kw in des[op].optional, "TABLE", f"serializer|elided-read-with-get|{op}.{kw}", "deserializer reads the elided key with .get", f"'{kw}' may be elided by the serializer but the deserializer reads op['{kw}'] unconditionally", E.where(des_f))
    # ------------------------------------------------- get_all_args tuples
    for b in branches:
        for nm, tup in b.tuples.items():
            m = rec.get(nm)
            if m is None:
                continue
            stored = any((dotted(d) or "").split(".")[-1] == "store" for d in m.decorators)
            params = _params(m)
            if stored:
                ok = list(tup) == params[: len(tup)] and len(tup) == len(params) and not m.node.args.vararg
                rep.check(ok, "TABLE", f"get_all_args|{nm}", f"tuple {tup} == parameters of Sequence.{nm}",
                          f"get_all_args{tup} does not render Sequence.{nm}{tuple(params)}: positional/keyword arguments of the recorded call would be mis-assigned", E.where(ser_f))
            else:
                shape = _manual_record_shape(E, m)
                if shape is None:
                    rep.violation("TABLE", f"get_all_args|{nm}", f"manual record of {nm} not understood", E.where(m))
                    continue
                n_args, kw_keys = shape
                ok = set(tup[n_args:]) <= set(kw_keys) and len(tup) >= n_args
                rep.check(ok, "TABLE", f"get_all_args|{nm}", f"tuple {tup} consistent with recorded _Call({n_args} positional, kwargs {sorted(kw_keys)})",
                          f"get_all_args{tup} is inconsistent with the recorded _Call of {nm} ({n_args} positional, kwargs {sorted(kw_keys)})", E.where(ser_f))
    rep.floor("TABLE", 120)

    # ------------------------------------------------------- waveforms
    _waveform_tables(E, rep)
    rep.floor("WF-TABLE", 30)
    # ------------------------------------------------------ expressions
    _expression_tables(E, rep)
    rep.floor("EXPR-TABLE", 30)
    # ---------------------------------------------------------- legacy
    _legacy_tables(E, rep)
    rep.floor("LEGACY-TABLE", 8)

    # ------------------------------------------------------------ FLOW
    pep = E.method(SEQ, "_process_eom_parameters")
    for nm in ("enable_eom_mode", "modify_eom_setpoint"):
        m = E.method(SEQ, nm)
        from .symutil import S as _S4, unobj as _un4
        from .. import sym as _sym4

        ok = False
        for inline_, marker in ((False, "_process_eom_parameters"), (True, "calculate_detuning_off")):
            for l in _S4(E, m, inline=inline_).calls("_Call"):
                a_ = l.value[2]
                kw = _un4(a_[2]) if len(a_) >= 3 else None
                if kw is None or kw[0] != "dict":
                    continue
                vals = {kk[1]: vv for kk, vv in kw[1:] if kk[0] == "const"}
                v = vals.get("optimal_detuning_off")
                if v is not None:
                    # the value computed by _process_eom_parameters / calculate_detuning_off (first item of the
                    # result) is what is stored, not the argument as given
                    ok = ok or any(t[0] == "item" and t[2] == 0 and t[1][0] == "call" and t[1][1][0] == "attr" and t[1][1][2] == marker for t in _sym4.subterms(v))
        rep.check(ok, "FLOW", f"Sequence.{nm}|records-computed-detuning_off", "the recorded optimal_detuning_off is the value computed by _process_eom_parameters",
                  f"{nm} no longer records the computed detuning_off (a rebuilt/deserialised sequence could pick a different off-detuning)", E.where(m))
    rep.floor("FLOW", 2)
    # ---- document alternatives: the three PulserSequence alternatives (2D / 3D / mappable register) differ only in
    # the register (and the layout requirement); every top-level key the serializer can emit is allowed in each
    seq_sch = P.schemas.get("sequence-schema.json", {})
    alts = [a for a in seq_sch.get("definitions", {}).get("PulserSequence", {}).get("anyOf", []) if isinstance(a, dict) and "properties" in a]
    if len(alts) < 2:
        raise AnalysisError("anchor: PulserSequence.anyOf alternatives not found in sequence-schema.json")
    top = set()
    for b in branches:
        top |= {k for k in b.top_keys if isinstance(k, str)}
    top |= {k for k in sx.static_top_keys()} if hasattr(sx, "static_top_keys") else set()
    union = set().union(*[set(a["properties"]) for a in alts])
    for i, a in enumerate(alts):
        props = set(a["properties"])
        rep.check(props == union, "TABLE", f"schema|PulserSequence.anyOf[{i}]|same-properties-as-siblings", f"{len(props)} properties in every alternative", f"alternative {i} of PulserSequence lacks {sorted(union - props)} which its sibling alternatives allow (additionalProperties is false: such documents are rejected for this register kind only)", sch_where)
        rep.check(top <= props, "TABLE", f"schema|PulserSequence.anyOf[{i}]|serializer-top-keys-allowed", "every top-level key the serializer emits per call is a property", f"the serializer can emit top-level key(s) {sorted(top - props)} that alternative {i} of PulserSequence does not allow", sch_where)
    # ---- an argument whose default is None is tested with `is not None` (0 / "" are legal values)
    from .. import sym
    from .symutil import S, is_, sh, unobj

    none_default = {}
    for nm, m in rec.items():
        for pn, dv in m.param_defaults().items():
            if isinstance(dv, ast.Constant) and dv.value is None:
                none_default.setdefault(pn, set()).add(nm)
    Sser = S(E, ser_f)
    n_nd = 0
    for l in Sser.logged("test"):
        for lit in ([l.value] if l.value[0] not in ("and", "or") else list(l.value[1:])):
            t = lit[1] if lit[0] == "not" else lit
            if t[0] == "idx" and t[2][0] == "const" and t[2][1] in none_default:
                n_nd += 1
                rep.violation("GUARD", f"serialize_abstract_sequence|{t[2][1]}|presence-tested-by-truthiness", f"`{sh(t, 60)}` is tested for truthiness, but `{t[2][1]}` (default None in {sorted(none_default[t[2][1]])}) may legitimately be 0 or an empty string: the argument is then dropped from the serialised sequence; test `is not None`", E.where(ser_f, l.node))
            m_ = is_(lit, "Q_v is not None") or is_(lit, "Q_v is None")
            if m_ is not None and m_["Q_v"][0] == "idx" and m_["Q_v"][2][0] == "const" and m_["Q_v"][2][1] in none_default:
                n_nd += 1
                rep.ok("GUARD", f"serialize_abstract_sequence|{m_['Q_v'][2][1]}|presence-tested-by-is-None", "optional argument tested with `is (not) None`", E.where(ser_f, l.node))
    if n_nd < 1:
        rep.error("no presence test of a None-default argument found in the serializer (expected at least initial_target)")
    # ---- default filling: `if A[k] is None: B[k] = default` must test and fill the same mapping
    n_df = 0
    for f in (E.method("pulser.parametrized.paramobj.ParamObj", "_to_abstract_repr"), ser_f):
        for l in S(E, f).logged("store"):
            if l.target is None or l.target[0] != "idx" or l.target[2][0] != "const":
                continue
            k = l.target[2]
            for x in sym.conj_of(l.cond):
                m_ = is_(x, "Q_d[Q_k] is None", {"Q_k": k})
                if m_ is None:
                    continue
                n_df += 1
                same = unobj(m_["Q_d"]) == unobj(l.target[1]) or m_["Q_d"] == l.target[1]
                rep.check(same, "GUARD", f"{f.short}|default-filled-where-tested|{k[1]}", f"`[{k[1]!r}] is None` is tested on the mapping that receives the default", f"{f.short}: the default for '{k[1]}' is stored into `{sh(l.target[1], 60)}` under a test of `{sh(m_['Q_d'], 60)}[{k[1]!r}] is None` -- a value present only in the former (e.g. passed positionally) is overwritten by the default", E.where(f, l.node))
    rep.floor("GUARD", 2)
    # ORDER: the replay calls every method that refuses a measured sequence before it replays the measurement
    _replay_order(E, rep, des_f)
    # IDS: qubit IDs are ints or strs and a register may mix them: no numpy array is built from an ID-typed argument
    # (np.array([1, "q2"]) is ['1', 'q2'], after which the int ID is no longer found in the register)
    _ids_rules(E, rep)
    # ARGS: the serializer reads recorded positional arguments only where they must be positional
    from .. import callargs

    extra = callargs.check(E, rep, callargs.default_scopes(E, ("pulser.json.abstract_repr.serializer",)), "ARGS")
    rep.floor("ARGS", 1)
    return {"recordable_calls": len(rec), "ops": ops_all, "serializer_branches": len(branches), **extra}


def _ids_rules(E: Engine, rep: Report) -> None:
    from .. import sym
    from .symutil import S, sh

    n_fn = 0
    for f in E.P.all_functions():
        if f.module.name not in ("pulser.json.abstract_repr.serializer", "pulser.json.abstract_repr.deserializer") or f.kind == "overload":
            continue
        a = f.node.args
        id_params = [x.arg for x in a.posonlyargs + a.args + a.kwonlyargs if x.annotation is not None and "QubitId" in ast.unparse(x.annotation)]
        if not id_params:
            continue
        n_fn += 1
        bad = []
        for l in S(E, f).log:
            if l.kind != "call" or l.value[1] not in (("attr", ("name", "np"), "array"), ("attr", ("name", "np"), "asarray"), ("attr", ("name", "numpy"), "array")):
                continue
            if any(sym.contains(a_, ("name", p_)) for a_ in l.value[2] for p_ in id_params):
                bad.append(l)
        rep.check(not bad, "IDS", f"{f.short}|ids-not-coerced-by-numpy", f"no np.array(...) over the ID-typed parameter(s) {id_params}",
                  f"{f.short} builds `{sh(bad[0].value, 80) if bad else ''}` from qubit IDs: numpy gives a list mixing int and str IDs one string dtype (1 -> '1'), so a sequence on a register with mixed IDs can no longer be serialised (the int ID is not found)", E.where(f, bad[0].node if bad else None))
    if n_fn < 2:
        raise AnalysisError(f"C04 IDS: only {n_fn} function(s) with QubitId-typed parameters found in the (de)serializer (unfold_targets, convert_targets expected)")
    # ... and the targets of a BUILT sequence are what build() substitutes for the variables: an AbstractArray (0-d for
    # `var[i]`).  The scalar-or-collection dispatch of unfold_targets must therefore unwrap array-likes before it asks
    # `isinstance(..., (int, str))` / iterates -- list() and len() of a 0-d array raise
    uf = next((f for f in E.P.all_functions() if f.module.name == "pulser.json.abstract_repr.serializer" and f.name == "unfold_targets"), None)
    if uf is None:
        raise AnalysisError("anchor: unfold_targets not found in the abstract serializer")
    r_ = S(E, uf).ret
    unwrap = [t for t in sym.subterms(r_) if t[0] == "call" and t[1] == ("name", "isinstance") and len(t[2]) == 2 and t[2][0] == ("name", "target_ids") and any(x[0] == "attr" and x[2] == "AbstractArray" for x in sym.subterms(t[2][1]))] if r_ is not None else []
    conv = r_ is not None and any(t[0] == "call" and t[1][0] == "attr" and t[1][2] in ("tolist", "item", "as_array") for t in sym.subterms(r_))
    rep.check(bool(unwrap) and conv, "IDS", "unfold_targets|built-array-targets-unwrapped", "array-like targets (np / AbstractArray) are converted with tolist() before the scalar / collection dispatch",
              "unfold_targets no longer unwraps array-like targets: the target of a built sequence that came from `var[i]` is a 0-d AbstractArray, on which list()/len() raise, so to_abstract_repr() of a built sequence fails", E.where(uf))
    # a parametrized object may have been created with keyword arguments only: both encoders of ParamObj recognise a
    # parametrized classmethod by looking at args[0] -- only after checking that there is a positional argument
    n_h = 0
    for nm in ("_to_dict", "_to_abstract_repr"):
        pf = E.method("pulser.parametrized.paramobj.ParamObj", nm)
        for l in S(E, pf, inline=False).calls("hasattr"):
            a0 = l.value[2][0] if l.value[2] else None
            if a0 is None or a0[0] != "idx" or a0[2] != ("const", 0) or not any(t == ("attr", ("name", "self"), "args") for t in sym.subterms(a0[1])):
                continue
            n_h += 1
            base = a0[1]
            guarded = any(x == base or x == ("attr", ("name", "self"), "args") or (x[0] == "cmp" and x[1] in ("Gt", "GtE", "NotEq") and any(t == ("attr", ("name", "self"), "args") for t in sym.subterms(x))) for x in sym.conj_of(l.cond))
            rep.check(guarded, "IDS", f"ParamObj.{nm}|args[0]-read-only-when-present", "`hasattr(args[0], ...)` is evaluated under `args and ...`",
                      f"ParamObj.{nm} evaluates `{sh(l.value, 60)}` without first checking that a positional argument exists (path: `{sh(l.cond, 100)}`): an object created with keyword arguments only, e.g. ConstantWaveform(duration=var, value=1.0), raises IndexError in this encoder", E.where(pf, l.node))
    if n_h < 2:
        raise AnalysisError(f"anchor: the classmethod test `hasattr(args[0], cls.__name__)` was found in {n_h} of the 2 ParamObj encoders")
    # ---- round 5: defects found by an independent audit, repaired in /repo, kept from coming back ----
    # (a) positional arguments of a parametrized call are paired with names without silent truncation: where
    #     `zip(<names>, self.args)` is used, the names depend on a comparison with len(self.args) (or the path does)
    pa = E.method("pulser.parametrized.paramobj.ParamObj", "_to_abstract_repr")
    n_zip = 0
    for l in S(E, pa, inline=False).calls("zip"):
        if len(l.value[2]) != 2 or l.value[2][1] != ("attr", ("name", "self"), "args"):
            continue
        n_zip += 1
        len_args = sym.Pattern("len(self.args)").term
        guarded = any(t[0] == "cmp" and sym.contains(t, len_args) for t in sym.subterms(l.value[2][0])) or any(x[0] == "cmp" and sym.contains(x, len_args) for x in sym.conj_of(l.cond))
        rep.check(guarded, "IDS", "ParamObj._to_abstract_repr|positional-arguments-not-truncated", "zip(names, self.args) under a comparison with len(self.args)",
                  f"ParamObj._to_abstract_repr pairs `{sh(l.value[2][0], 60)}` with self.args through zip(), which drops the arguments beyond the listed names: a parametrized InterpolatedWaveform(dur, values, times, 'interp1d') is exported as an ordinary (Pchip) interpolated waveform and the decoded sequence builds another pulse", E.where(pa, l.node))
    if n_zip < 1:
        raise AnalysisError("anchor: ParamObj._to_abstract_repr no longer pairs signature names with self.args")
    # (b) both encoders of a variable item turn a slice key into indices (a slice is not JSON serialisable)
    for nm in ("_to_dict", "_to_abstract_repr"):
        vf = E.method("pulser.parametrized.variable.VariableItem", nm)
        handles = any(t[0] == "call" and t[1] == ("name", "isinstance") and len(t[2]) == 2 and (("name", "slice") in sym.subterms(t[2][1]) or any(y == ("attr", ("name", "abc"), "Sequence") for y in sym.subterms(t[2][1]))) for l in S(E, vf, inline=False).log for v in (l.cond, l.value) if v is not None for t in sym.subterms(v))
        r_ = S(E, vf, inline=False).ret
        handles = handles or (r_ is not None and any(t[0] == "call" and t[1] == ("name", "isinstance") for t in sym.subterms(r_)))
        rep.check(handles, "IDS", f"VariableItem.{nm}|slice-key-converted", "the key is dispatched on its kind (slice -> list of indices)", f"VariableItem.{nm} hands its key on as it is: for a slice key (`var[1:]`, accepted by Variable.__getitem__) the JSON encoder raises 'Object of type slice is not JSON serializable'", E.where(vf))
    #     ... with the indices taken over the VARIABLE's size (`list(range(self.var.size))[key]`), in both
    for nm in ("_to_dict", "_to_abstract_repr"):
        vf = E.method("pulser.parametrized.variable.VariableItem", nm)
        rng = [t for l in S(E, vf, inline=False).log for v in (l.value,) if v is not None for t in sym.subterms(v) if t[0] == "call" and t[1] == ("name", "range")]
        r_ = S(E, vf, inline=False).ret
        rng += [t for t in sym.subterms(r_) if t[0] == "call" and t[1] == ("name", "range")] if r_ is not None else []
        bad_r = [t for t in rng if not any(u == ("attr", ("attr", ("name", "self"), "var"), "size") for u in sym.subterms(t))]
        rep.check(bool(rng) and not bad_r, "IDS", f"VariableItem.{nm}|slice-indices-over-the-variable's-size", "range(self.var.size)", f"VariableItem.{nm} turns a slice key into indices with `{sh(bad_r[0], 60) if bad_r else '?'}`, not over the variable's size: `var[-2:]` of a size-4 variable is encoded as var[[0, 1]], so the decoded sequence silently reads other items", E.where(vf))
    # (c) the two JSON encoders convert the same families of numpy scalars
    fam = {}
    for q in ("pulser.json.coders.PulserEncoder.default", "pulser.json.abstract_repr.serializer.AbstractReprEncoder.default"):
        ef = E.fn(q)
        fam[q] = {sh(t[2][1], 40) for l in S(E, ef, inline=False).log for t in sym.subterms(l.cond) if t[0] == "call" and t[1] == ("name", "isinstance") and len(t[2]) == 2 and sh(t[2][1], 40).startswith("np.")}
    a_, b_ = list(fam.values())
    for q, f_ in fam.items():
        rep.check({"np.integer", "np.floating"} <= f_, "IDS", f"{q.split('.')[-2]}.default|numpy-scalars-converted", "np.integer and np.floating are converted to int / float", f"{q.split('.')[-2]}.default converts {sorted(f_)} only: a np.float32 (or np.int32) value that the sequence accepts (phase shift, EOM parameters) makes the encoder raise TypeError", E.where(E.fn(q)))
    rep.check(a_ == b_, "IDS", "encoders|same-numpy-families", "the legacy and the abstract encoder convert the same numpy types", f"the two encoders convert different numpy types: {sorted(a_)} vs {sorted(b_)}", E.where(E.fn(list(fam)[0])))
    # (d) a decoded legacy sequence is parametrized iff calls wait to be built (declaring a variable is not enough)
    oh = E.fn("pulser.json.coders.PulserDecoder.object_hook")
    bst = [l for l in S(E, oh, inline=False).logged("store") if l.target is not None and l.target[0] == "attr" and l.target[2] == "_building"]
    if not bst:
        raise AnalysisError("anchor: PulserDecoder.object_hook no longer sets seq._building")
    for l in bst:
        v_ = sh(l.value, 200)
        rep.check("to_build_calls" in v_ and "'vars'" not in v_, "IDS", "PulserDecoder.object_hook|_building-from-to_build_calls", "seq._building = not obj['to_build_calls']", f"the legacy decoder sets _building = `{v_}`: a sequence that declares a variable without using it comes back parametrized (get_duration / sample / draw raise), unlike the original", E.where(oh, l.node))
    # (e) ... and the recorded calls are replayed in the mode they were made in: the concrete calls (obj["calls"]) are
    #     replayed BEFORE _building is restored (while the fresh sequence is not parametrized, so they are executed), the
    #     calls waiting to be built (obj["to_build_calls"]) AFTER it (so they are only stored)
    log_oh = S(E, oh, inline=False).log
    def _replays(key_):
        direct = [i for i, l in enumerate(log_oh) if l.kind == "call" and l.value[1][0] == "call" and l.value[1][1] == ("name", "getattr") and l.loops and any(t == ("const", key_) for t in sym.subterms(l.loops[-1]))]
        # ... or through a private helper of the decoder that is handed obj[<key>] and replays it (getattr(seq, name)(...))
        via = []
        for i, l in enumerate(log_oh):
            if l.kind == "call" and l.value[1][0] == "attr" and l.value[1][2].startswith("_") and any(any(t == ("const", key_) for t in sym.subterms(a_)) for a_ in l.value[2]):
                hs = [g for g in E.P.all_functions() if g.name == l.value[1][2] and g.cls is oh.cls]
                if hs and any(isinstance(n_, ast.Call) and isinstance(n_.func, ast.Call) and isinstance(n_.func.func, ast.Name) and n_.func.func.id == "getattr" for n_ in ast.walk(hs[0].node)):
                    via.append(i)
        return direct + via
    i_calls, i_tb = _replays("calls"), _replays("to_build_calls")
    i_bld = [i for i, l in enumerate(log_oh) if l.kind == "store" and l.target is not None and l.target[0] == "attr" and l.target[2] == "_building"]
    if not i_calls or not i_tb or not i_bld:
        raise AnalysisError("anchor: PulserDecoder.object_hook: replay loops over obj['calls'] / obj['to_build_calls'] or the _building store not found")
    mixed = [i for i in i_calls if i in i_tb]
    rep.check(not mixed and max(i_calls) < min(i_bld) < min(i_tb), "IDS", "PulserDecoder.object_hook|calls-replayed-before-_building-is-restored", "replay obj['calls']; set _building; replay obj['to_build_calls']", "the legacy decoder no longer replays the concrete calls before restoring _building (or replays both lists in one loop): concrete add / delay / phase_shift calls made before the first parametrized call are then only validated and pushed to _to_build_calls, so the decoded sequence has another schedule and call record than the original", E.where(oh, log_oh[i_bld[0]].node))
    rep.floor("IDS", 12)


def _replay_order(E: Engine, rep: Report, des_f) -> None:
    """Methods of Sequence decorated with ``block_if_measured`` raise once ``measure`` was called: in the
    deserializer's replay (helpers inlined, source order) none of them may follow the ``measure`` call."""
    from .symutil import S, sh, unobj

    des_f = E.fn("pulser.json.abstract_repr.deserializer.deserialize_abstract_sequence")
    blocked = {m.name for ms in E.cls(SEQ).methods.values() for m in ms
               if any((dotted(d) or "").split(".")[-1] == "block_if_measured" for d in m.decorators)}
    if not blocked:
        raise AnalysisError("C04 ORDER: no Sequence method is decorated with block_if_measured")
    seq_calls = []
    for l in S(E, des_f).log:
        if l.kind != "call" or l.value[1][0] != "attr":
            continue
        b = unobj(l.value[1][1])
        if b[0] == "call" and sh(b[1]).split(".")[-1] == "Sequence":
            seq_calls.append(l)
    names = [l.value[1][2] for l in seq_calls]
    if "measure" not in names:
        raise AnalysisError("C04 ORDER: the deserializer no longer replays `measure` on the rebuilt Sequence")
    first = names.index("measure")
    n = 0
    for i, l in enumerate(seq_calls):
        nm = names[i]
        if nm not in blocked or nm == "measure":
            continue
        n += 1
        rep.check(i < first, "ORDER", f"deserializer|{l.fn}|{nm}|before-measure", "replayed before the measurement (the method refuses a measured sequence)",
                  f"deserialize_abstract_sequence replays Sequence.{nm} after Sequence.measure: {nm} is guarded by block_if_measured, so every serialized sequence that has both a measurement and this call can no longer be rebuilt (RuntimeError 'The sequence has been measured')", E.where(des_f, l.node))
    rep.floor("ORDER", 5)


def _manual_record_shape(E, m):
    """(number of positional args, kwargs keys) of the `_Call("<name>", args, kwargs)` the method records
    (symbolic normal form: locals inlined, dict(...) and {...} alike)."""
    from .symutil import S, unobj

    for l in S(E, m).calls("_Call"):
        a_ = l.value[2]
        if len(a_) < 3 or a_[0] != ("const", m.name):
            continue
        a, k = unobj(a_[1]), unobj(a_[2])
        if a[0] not in ("tuple", "list") or any(x[0] == "star" for x in a[1:]):
            return None
        if k[0] != "dict":
            return None
        keys = [kk[1] for kk, _v in k[1:] if kk[0] == "const"]
        if len(keys) != len(k) - 1:
            return None
        return len(a) - 1, keys
    return None


def _waveform_tables(E: Engine, rep: Report) -> None:
    P = E.P
    sigs = T.signatures(E)
    sch = P.schemas["sequence-schema.json"]["definitions"]
    sch_where = "pulser-core/pulser/json/abstract_repr/schemas/sequence-schema.json"
    # kind -> signature
    kinds = {v["extra"]["kind"]: (k, v) for k, v in sigs.items() if "kind" in v["extra"]}
    # deserializer kinds
    dw = E.fn("pulser.json.abstract_repr.deserializer._deserialize_waveform")
    dkinds: dict[str, dict] = {}
    # per returned constructor call of the symbolic normal form (locals such as `kind = obj["kind"]` and nested
    # helpers such as `param(key)` are inlined): the kind its path fixes, the keys of `obj` it reads, its keywords
    from .. import sym as _sym
    from .symutil import S as _S, is_ as _is

    for l in _S(E, dw).logged("return"):
        kind = None
        for x in _sym.conj_of(l.cond):
            m_ = _is(x, "obj['kind'] == Q_k")
            if m_ is not None and m_["Q_k"][0] == "const":
                kind = m_["Q_k"][1]
        if kind is None or l.value is None:
            continue
        keys = {t[2][1] for t in _sym.subterms(l.value) if t[0] == "idx" and t[1] == ("name", "obj") and t[2][0] == "const"}
        v = l.value
        while v[0] == "obj":
            v = v[2]
        ctor = _sym.show(v[1]) if v[0] == "call" else None
        kws = [k for k, _v in v[3]] if v[0] == "call" else []
        if kind in dkinds:
            keys |= dkinds[kind]["keys"]
        dkinds[kind] = {"keys": keys - {"kind"}, "ctor": ctor, "kws": kws, "line": getattr(l.node, "lineno", dw.node.lineno)}
    # schema waveform definitions
    skinds = {}
    for dname, d in sch.items():
        k = d.get("properties", {}).get("kind", {})
        if isinstance(k, dict) and "const" in k and dname.endswith("Waveform"):
            skinds[k["const"]] = {"def": dname, "props": set(d["properties"]) - {"kind"}, "req": set(d.get("required", [])) - {"kind"}}
    listed = {r.get("$ref", "").split("/")[-1] for r in sch.get("Waveform", {}).get("anyOf", [])}
    for kind in sorted(set(kinds) | set(dkinds) | set(skinds)):
        ok3 = kind in kinds and kind in dkinds and kind in skinds
        rep.check(ok3, "WF-TABLE", f"kind|{kind}|three-sides", "SIGNATURES, deserializer and schema all know the waveform kind",
                  f"waveform kind '{kind}': SIGNATURES={'yes' if kind in kinds else 'NO'}, deserializer={'yes' if kind in dkinds else 'NO'}, schema={'yes' if kind in skinds else 'NO'}", E.where(dw))
        if not ok3:
            continue
        name, sig = kinds[kind]
        skeys = set(sig["pos"]) | set(sig["keyword"]) | ({sig["var_pos"]} if sig["var_pos"] else set())
        where = f"{dw.module.relpath}:{dkinds[kind]['line']} ({dw.short})"
        rep.check(skeys == dkinds[kind]["keys"], "WF-TABLE", f"kind|{kind}|keys-emitted=keys-read", f"keys {sorted(skeys)}", f"SIGNATURES['{name}'] emits {sorted(skeys)} but _deserialize_waveform reads {sorted(dkinds[kind]['keys'])}", where)
        rep.check(skeys == skinds[kind]["props"] and skeys == skinds[kind]["req"], "WF-TABLE", f"kind|{kind}|keys=schema", "schema properties/required equal the emitted keys", f"SIGNATURES['{name}'] keys {sorted(skeys)} vs schema {skinds[kind]['def']} properties {sorted(skinds[kind]['props'])} required {sorted(skinds[kind]['req'])}", sch_where)
        rep.check(skinds[kind]["def"] in listed, "WF-TABLE", f"kind|{kind}|schema-listed", "listed in Waveform.anyOf", f"{skinds[kind]['def']} is not listed in Waveform.anyOf", sch_where)
        # constructor parameters: SIGNATURES name -> class[.classmethod]
        parts = name.split(".")
        cls = P.classes.get("pulser.waveforms." + parts[0])
        if cls is None:
            rep.violation("WF-TABLE", f"kind|{kind}|ctor", f"SIGNATURES key '{name}' does not name a waveform class", E.where(dw))
            continue
        fn = (P.lookup_method(cls, parts[1]) if len(parts) > 1 else P.lookup_method(cls, "__init__"))
        if not fn:
            rep.violation("WF-TABLE", f"kind|{kind}|ctor", f"constructor for '{name}' not found", E.where(dw))
            continue
        fparams = fn[0].params[1:]
        vararg = fn[0].node.args.vararg.arg if fn[0].node.args.vararg else None
        want = list(sig["pos"]) + list(sig["keyword"])
        if sig["var_pos"]:
            ok = vararg is not None
        else:
            ok = want == [p for p in fparams if p != vararg][: len(want)] and len(want) == len([p for p in fparams if p not in (vararg,) and p != (fn[0].node.args.kwarg.arg if fn[0].node.args.kwarg else None)])
            # keyword params beyond the signature must have defaults and not matter for identity (e.g. interpolator kwargs)
            if not ok and want == fparams[: len(want)]:
                extra = fparams[len(want):]
                ok = all(p in fn[0].param_defaults() or p == (fn[0].node.args.kwarg.arg if fn[0].node.args.kwarg else None) for p in extra)
                if ok:
                    rep.excepted("WF-TABLE", f"kind|{kind}|ctor-extra-params", f"constructor has extra defaulted parameters {extra} that the abstract representation does not carry (documented limitation of the abstract repr)", E.where(fn[0]))
                    ok = True
        rep.check(ok, "WF-TABLE", f"kind|{kind}|signature=ctor-params", f"SIGNATURES['{name}'] positional/keyword names are the constructor's parameters in order", f"SIGNATURES['{name}'] = {want} but {fn[0].short} takes {fparams}", E.where(fn[0]))
        # deserializer keywords exist
        rep.check(set(dkinds[kind]["kws"]) <= set(fparams) | ({vararg} if vararg else set()), "WF-TABLE", f"kind|{kind}|deser-keywords-exist", "keywords used by the deserializer are constructor parameters", f"_deserialize_waveform passes {sorted(set(dkinds[kind]['kws']) - set(fparams))} to {fn[0].short}", where)
    # abstract_repr(name, ...) call sites use names present in SIGNATURES
    for f in P.all_functions():
        if not f.module.name.startswith(("pulser.waveforms", "pulser.pulse")):
            continue
        for n in ast.walk(f.node):
            if isinstance(n, ast.Call) and (dotted(n.func) or "") == "abstract_repr" and n.args and isinstance(n.args[0], ast.Constant):
                nm = n.args[0].value
                rep.check(nm in sigs, "WF-TABLE", f"abstract_repr|{f.short}|{nm}", "name has a signature", f"abstract_repr('{nm}', ...) but SIGNATURES has no such key", E.where(f, n))
                if nm in sigs and f.cls is not None:
                    expect = f.cls.name
                    base = nm.split(".")[0]
                    rep.check(base == expect or expect in [c.name for c in P.mro(P.classes.get("pulser.waveforms." + base, f.cls))] or base in [c.name for c in P.mro(f.cls)], "WF-TABLE", f"abstract_repr|{f.short}|own-class", "a class serialises under its own signature", f"{f.short} serialises as '{nm}'", E.where(f, n))


def _wrapped_functions(E: Engine) -> list[tuple[str, str, str, ast.AST, object]]:
    """(OpSupport method, module-ish, function __name__, node, FunctionInfo) for every ParamObj(<func>, ...) in OpSupport."""
    ops = E.cls("pulser.parametrized.paramobj.OpSupport")
    out = []
    for mname, fs in ops.methods.items():
        for f in fs:
            for n in ast.walk(f.node):
                if isinstance(n, ast.Call) and (dotted(n.func) or "") == "ParamObj" and n.args:
                    d = dotted(n.args[0]) or ""
                    if "." in d:
                        mod, fn = d.rsplit(".", 1)
                        real = fn
                        if mod == "pm":
                            r = E.P.resolve_name(f.module, d)
                            if hasattr(r, "node") and hasattr(r, "name"):
                                real = r.name  # the def's __name__
                                mod = r.module.name
                            else:
                                mod = "pulser.math"
                        out.append((mname, mod, real, n, f))
    return out


def _expression_tables(E: Engine, rep: Report) -> None:
    P = E.P
    sigs = T.signatures(E)
    unary = T.dict_keys_of(E, SIG_MOD, "UNARY_OPERATORS")
    binary = T.dict_keys_of(E, SIG_MOD, "BINARY_OPERATORS")
    sch = P.schemas["sequence-schema.json"]["definitions"]
    sch_where = "pulser-core/pulser/json/abstract_repr/schemas/sequence-schema.json"
    enum_un = set(sch["ExprUnary"]["properties"]["expression"]["enum"])
    enum_bin = set(sch["ExprBinary"]["properties"]["expression"]["enum"])
    sigmod = P.module(SIG_MOD)
    desf = E.fn("pulser.json.abstract_repr.deserializer._deserialize_parameter")
    # the deserializer's renaming table: expression == X -> Y
    renames = {}
    from .. import sym as _symr
    from .symutil import S as _Sr

    for l in _Sr(E, desf).log:
        for top in (l.value, l.target, l.cond):
            for t in _symr.subterms(top) if top is not None else ():
                # X if X != "a" else "b"   (canonical form: "b" if X == "a" else X)
                if t[0] == "ifexp" and t[1][0] == "cmp" and t[1][1] == "Eq":
                    for x_, c_ in ((t[1][2], t[1][3]), (t[1][3], t[1][2])):
                        if c_[0] == "const" and isinstance(c_[1], str) and t[2][0] == "const" and isinstance(t[2][1], str) and t[3] == x_:
                            renames[c_[1]] = t[2][1]

    def emitted_expression(fname: str):
        if fname in sigs and "expression" in sigs[fname]["extra"]:
            return sigs[fname]["extra"]["expression"]
        if fname in unary or fname in binary:
            return fname
        return None

    emitted_all = set()
    for mname, mod, fname, node, f in _wrapped_functions(E):
        ex = emitted_expression(fname)
        key = f"OpSupport.{mname}|{fname}"
        if ex is None:
            rep.violation("EXPR-TABLE", key + "|serialisable", f"OpSupport.{mname} wraps {mod}.{fname}; its __name__ '{fname}' is neither a SIGNATURES key with an expression nor in UNARY_OPERATORS/BINARY_OPERATORS: ParamObj._to_abstract_repr raises AbstractReprError for expressions using it", E.where(f, node))
            continue
        rep.ok("EXPR-TABLE", key + "|serialisable", f"serialises as expression '{ex}'", E.where(f, node))
        emitted_all.add(ex)
        back = renames.get(ex, ex)
        rep.check(back in unary or back in binary, "EXPR-TABLE", key + "|deserialisable", f"'{ex}' -> '{back}' is in the deserializer's operator tables", f"expression '{ex}' is emitted but the deserializer (after renaming to '{back}') has no operator for it", E.where(desf))
        rep.check(ex in enum_un or ex in enum_bin, "EXPR-TABLE", key + "|in-schema-enum", f"'{ex}' is in the schema's expression enum", f"expression '{ex}' is emitted but is not in the schema enum (ExprUnary/ExprBinary): the document is schema-invalid", sch_where)
        arity_ok = (back in unary and ex in enum_un) or (back in binary and ex in enum_bin) or not (ex in enum_un or ex in enum_bin)
        rep.check(arity_ok, "EXPR-TABLE", key + "|arity", "unary/binary classification agrees between schema and deserializer", f"'{ex}' is unary on one side and binary on the other", sch_where)
    # index expression (VariableItem) is emitted elsewhere
    for ex in sorted(enum_un | enum_bin):
        back = renames.get(ex, ex)
        rep.check(back in unary or back in binary, "EXPR-TABLE", f"schema-enum|{ex}|deserialisable", f"schema expression '{ex}' is accepted by the deserializer", f"schema allows expression '{ex}' but the deserializer tables (after renaming to '{back}') do not contain it: a schema-valid document cannot be decoded", E.where(desf))
    for k in sorted(set(unary) | set(binary)):
        fwd = next((e for e, b in renames.items() if b == k), k)
        rep.check(fwd in enum_un or fwd in enum_bin, "EXPR-TABLE", f"deser-table|{k}|in-schema-enum", f"operator '{k}' corresponds to schema expression '{fwd}'", f"deserializer operator '{k}' (expression '{fwd}') is not in the schema enum", sch_where)


    # each operator name decodes to the function of that name, and no two names decode to the same function
    # (the writer emits the wrapped function's __name__; the reader looks that name up in these tables)
    seen_fn: dict[str, str] = {}
    for tname in ("UNARY_OPERATORS", "BINARY_OPERATORS"):
        node = sigmod.assigns.get(tname)
        if not isinstance(node, ast.Dict):
            raise AnalysisError(f"anchor: {tname} is not a dict literal")
        for k_, v_ in zip(node.keys, node.values):
            if not isinstance(k_, ast.Constant):
                continue
            fn_ = dotted(v_) or norm(v_)
            last = fn_.split(".")[-1]
            ok_name = last == k_.value or last.strip("_").startswith(k_.value + "_") or last.strip("_") == k_.value
            rep.check(ok_name, "EXPR-TABLE", f"{tname}|{k_.value}|decodes-to-function-of-that-name", f"'{k_.value}' -> {fn_}", f"{tname}['{k_.value}'] is {fn_}: an expression serialised as '{k_.value}' is rebuilt with a different function, so a decoded sequence evaluates other values than the original", f"{sigmod.relpath}:{v_.lineno}")
            rep.check(fn_ not in seen_fn, "EXPR-TABLE", f"{tname}|{k_.value}|function-not-shared", "no other operator name decodes to this function", f"'{k_.value}' and '{seen_fn.get(fn_)}' both decode to {fn_}", f"{sigmod.relpath}:{v_.lineno}")
            seen_fn.setdefault(fn_, k_.value)


def _legacy_tables(E: Engine, rep: Report) -> None:
    P = E.P
    sup = P.module("pulser.json.supported")
    ops = set(P.fold(sup, sup.assigns["SUPPORTED_OPERATORS"]))
    nps = set(P.fold(sup, sup.assigns["SUPPORTED_NUMPY"]))
    for mname, mod, fname, node, f in _wrapped_functions(E):
        if mod in ("operator", "_operator"):
            rep.check(fname in ops, "LEGACY-TABLE", f"OpSupport.{mname}|{fname}", "in SUPPORTED_OPERATORS", f"operator.{fname} (used by OpSupport.{mname}) is missing from SUPPORTED_OPERATORS: the legacy decoder rejects sequences using it", E.where_mod(sup.relpath, sup.assigns["SUPPORTED_OPERATORS"]))
        else:
            rep.check(fname in nps, "LEGACY-TABLE", f"OpSupport.{mname}|{fname}", "in SUPPORTED_NUMPY", f"{mod}.{fname} (used by OpSupport.{mname}) is missing from SUPPORTED_NUMPY: the legacy decoder rejects sequences using it", E.where_mod(sup.relpath, sup.assigns["SUPPORTED_NUMPY"]))
    # Sequence._to_dict keys <-> PulserDecoder.object_hook reads
    td = E.method(SEQ, "_to_dict")
    written = set()
    for n in ast.walk(td.node):
        if isinstance(n, ast.Subscript) and isinstance(n.ctx, ast.Store) and isinstance(n.value, ast.Name) and n.value.id == "d" and isinstance(n.slice, ast.Constant):
            written.add(n.slice.value)
    oh = E.fn("pulser.json.coders.PulserDecoder.object_hook")
    read = set()
    from .. import sym as _sym
    from .symutil import S as _S, is_ as _is

    for l in _S(E, oh, inline=False).log:
        if not any(_is(x, "'Sequence' in Q_n") is not None for x in _sym.conj_of(l.cond)):
            continue
        for t in (l.target, l.value) + tuple(l.loops):
            for x in _sym.subterms(t) if t is not None else ():
                if x[0] == "idx" and x[1] == ("name", "obj") and x[2][0] == "const" and isinstance(x[2][1], str) and not x[2][1].startswith("__"):
                    read.add(x[2][1])
    rep.check(read <= written and bool(read), "LEGACY-TABLE", "Sequence._to_dict|keys-read⊆keys-written", f"decoder reads {sorted(read)}, encoder writes {sorted(written)}", f"PulserDecoder reads {sorted(read - written)} which Sequence._to_dict does not write", E.where(oh))
    # obj_to_dict keys <-> decoder
    otd = E.fn("pulser.json.utils.obj_to_dict")
    okeys = set()
    for n in ast.walk(otd.node):
        if isinstance(n, ast.Dict):
            okeys |= {k.value for k in n.keys if isinstance(k, ast.Constant)}
        if isinstance(n, ast.Subscript) and isinstance(n.ctx, ast.Store) and isinstance(n.slice, ast.Constant):
            okeys.add(n.slice.value)
    dread = set()
    for n in ast.walk(oh.node):
        if isinstance(n, ast.Subscript) and isinstance(n.value, ast.Name) and n.value.id == "obj" and isinstance(n.slice, ast.Constant) and n.slice.value.startswith("_"):
            dread.add(n.slice.value)
    rep.check(dread <= okeys and len(dread) >= 4, "LEGACY-TABLE", "obj_to_dict|keys-read⊆keys-written", f"decoder reads {sorted(dread)}", f"decoder reads {sorted(dread - okeys)} not written by obj_to_dict", E.where(oh))
    # classes serialised by obj_to_dict(self, ...) are listed in SUPPORTED_MODULES under their (possibly overridden) module
    smods = sup.assigns["SUPPORTED_MODULES"]
    table = {}
    if isinstance(smods, ast.Dict):
        for k, v in zip(smods.keys, smods.values):
            if isinstance(k, ast.Constant):
                table[k.value] = P.fold_or_none(sup, v)
    n_cls = 0
    for c in P.classes.values():
        for f in c.methods.get("_to_dict", []):
            for n in ast.walk(f.node):
                if isinstance(n, ast.Call) and (dotted(n.func) or "") == "obj_to_dict" and n.args and norm(n.args[0]) == "self":
                    kws = {k.arg: k.value for k in n.keywords if k.arg}
                    if "_name" in kws or "_build" in kws:
                        continue
                    mod = c.module.name
                    if "_module" in kws:
                        mv = kws["_module"]
                        if isinstance(mv, ast.Constant):
                            mod = mv.value
                        elif isinstance(mv, ast.Name) and mv.id in f.param_defaults() and isinstance(f.param_defaults()[mv.id], ast.Constant):
                            mod = f.param_defaults()[mv.id].value
                        else:
                            continue
                    names = [c.name] + [s.name for s in P.subclasses(c) if "_to_dict" not in s.methods]
                    listed = table.get(mod)
                    if listed is None and mod in table:
                        continue  # computed entry (device names): not foldable
                    for nm in names:
                        # only public, concrete classes matter
                        if nm.startswith("_") or nm in ("Waveform", "BaseRegister", "Channel", "BaseDevice", "Traps", "WeightMap", "Parametrized", "BaseEOM") and nm != "BaseEOM":
                            continue
                        sc = next((s for s in [c] + P.subclasses(c) if s.name == nm), c)
                        m2 = mod if "_module" in kws else sc.module.name
                        l2 = table.get(m2)
                        if l2 is None and m2 in table:
                            continue
                        n_cls += 1
                        rep.check(l2 is not None and nm in l2, "LEGACY-TABLE", f"SUPPORTED_MODULES|{m2}.{nm}", "class serialised by the legacy encoder is accepted by the legacy decoder", f"{nm} is encoded with module '{m2}' but SUPPORTED_MODULES['{m2}'] = {l2}", E.where(f, n))
    rep.floor("LEGACY-TABLE", 10)
    # classes named in "__submodule__" by the legacy encoder are accepted by validate_serialization:
    #  (a) classes owning a classmethod wrapped by @parametrize (ParamObj._to_dict names the class),
    #  (b) concrete subclasses of a class whose _to_dict passes _submodule=self.__class__.__name__
    subm = P.fold_or_none(sup, sup.assigns["SUPPORTS_SUBMODULE"]) if "SUPPORTS_SUBMODULE" in sup.assigns else None
    if subm is None:
        raise AnalysisError("C04 LEGACY-TABLE: SUPPORTS_SUBMODULE is no longer a foldable tuple of names")
    n_sub = 0
    for c in P.classes.values():
        if not c.module.name.startswith("pulser.") or c.name.startswith("_"):
            continue
        for ms in c.methods.values():
            for f in ms:
                decos = [(dotted(d) or "").split(".")[-1] for d in f.decorators]
                if "classmethod" in decos and "parametrize" in decos:
                    n_sub += 1
                    rep.check(c.name in subm, "LEGACY-TABLE", f"SUPPORTS_SUBMODULE|{c.name}.{f.name}", "class of a parametrized classmethod is accepted as '__submodule__'",
                              f"{c.name}.{f.name} is a parametrized classmethod: a call with a variable is encoded with '__submodule__': '{c.name}', which SUPPORTS_SUBMODULE = {tuple(subm)} rejects (SerializationSupportAttributeMissing in the legacy encoder)", E.where(f))
        for f in c.methods.get("_to_dict", []):
            for n in ast.walk(f.node):
                if isinstance(n, ast.Call) and (dotted(n.func) or "") == "obj_to_dict":
                    kw = next((k.value for k in n.keywords if k.arg == "_submodule"), None)
                    if kw is not None and norm(kw) in ("self.__class__.__name__", "type(self).__name__"):
                        for s in [c] + P.subclasses(c):
                            own = s.methods.get("_to_dict", []) if s is not c else []
                            if s.name.startswith("_") or s.name.startswith("Base") or any("super()._to_dict" not in ast.unparse(o.node) for o in own):
                                continue
                            n_sub += 1
                            rep.check(s.name in subm, "LEGACY-TABLE", f"SUPPORTS_SUBMODULE|{s.name}._to_dict", "class naming itself as '__submodule__' is accepted",
                                      f"{s.name}._to_dict encodes '__submodule__': '{s.name}', which SUPPORTS_SUBMODULE = {tuple(subm)} rejects", E.where(f, n))
    if n_sub < 7:
        raise AnalysisError(f"C04 LEGACY-TABLE: only {n_sub} '__submodule__' writers found (7 confirmed by hand)")
