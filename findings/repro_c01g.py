"""C01 finding 4: DMM.validate_pulse rounds the detuning to 6 decimals and THEN
scales it by the detuning-map weights before comparing with (total_)bottom_
detuning.  The rounding error is amplified by the weights (or simply rounds
past the unrounded limit), so DMM pulses exactly at a limit are rejected --
including the DMM pulse that Sequence itself computes for an SLM mask, which
makes a perfectly valid Sequence.add() on another channel fail."""
import dataclasses
import sys
import warnings

import numpy as np

from pulser import Pulse, Register, Sequence
from pulser.channels.dmm import DMM
from pulser.devices import DigitalAnalogDevice
from pulser.waveforms import ConstantWaveform

warnings.simplefilter("ignore")
failures = []
reg = Register.from_coordinates([(i * 6.0, 0) for i in range(4)], prefix="q")


def device(**dmm_kwargs):
    dmm = DMM(clock_period=4, min_duration=16, max_duration=2**26,
              **dmm_kwargs)
    return dataclasses.replace(DigitalAnalogDevice, dmm_objects=(dmm,))


# (a) SLM mask on 3 qubits, total_bottom_detuning = -20: the library picks
# min_det = -20/3 itself, then rejects its own pulse (-6.666667 * 3 < -20)
seq = Sequence(reg, device(bottom_detuning=-20, total_bottom_detuning=-20))
seq.declare_channel("ryd", "rydberg_global")
seq.config_slm_mask(["q0", "q1", "q2"])
try:
    seq.add(Pulse.ConstantPulse(100, 10, 0, 0), "ryd")  # well inside limits
    det = float(seq._schedule["dmm_0"][-1].type.detuning[0])
    print(f"(a) add accepted, SLM DMM detuning {det}, total {3 * det}")
    if 3 * det < -20 - 1e-6:
        failures.append("(a) DMM pulse below total bottom detuning")
except ValueError as e:
    print("(a) valid pulse on 'ryd' rejected:", e)
    failures.append("(a) valid Sequence.add rejected because of SLM DMM pulse")

# (b) user DMM pulse with total detuning exactly at total_bottom_detuning
seq = Sequence(reg, device(bottom_detuning=-20, total_bottom_detuning=-20))
seq.config_detuning_map(
    reg.define_detuning_map({"q0": 1.0, "q1": 1.0, "q2": 1.0}), "dmm_0"
)
det = -20 / 3
assert 3.0 * det >= -20  # exactly -20.0: inside the limit
try:
    seq.add_dmm_detuning(ConstantWaveform(100, det), "dmm_0")
except ValueError as e:
    print("(b) rejected:", e)
    failures.append("(b) DMM pulse exactly at total_bottom_detuning rejected")
try:  # really below the limit: must stay rejected
    seq.add_dmm_detuning(ConstantWaveform(100, det - 1e-5), "dmm_0")
    failures.append("(b') DMM pulse below total_bottom_detuning accepted")
except ValueError:
    pass

# (c) per-atom limit: detuning exactly at bottom_detuning = -2*pi*2
bottom = -2 * np.pi * 2
seq = Sequence(
    reg, device(bottom_detuning=bottom, total_bottom_detuning=100 * bottom)
)
seq.config_detuning_map(reg.define_detuning_map({"q0": 1.0, "q1": 0.5}),
                        "dmm_0")
try:
    seq.add_dmm_detuning(ConstantWaveform(100, bottom), "dmm_0")
except ValueError as e:
    print("(c) rejected:", e)
    failures.append("(c) DMM pulse exactly at bottom_detuning rejected")
try:
    seq.add_dmm_detuning(ConstantWaveform(100, bottom - 1e-5), "dmm_0")
    failures.append("(c') DMM pulse below bottom_detuning accepted")
except ValueError:
    pass

if failures:
    print("FAIL:", "; ".join(failures))
    sys.exit(1)
print("PASS")
