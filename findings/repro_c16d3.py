"""C16: a pulse built from an arbitrary phase waveform reproduces that phase
at every sample through its detuning and offset -- for all waveform classes
and all positive durations, including 1.  For a 1-sample phase waveform that
is neither Constant nor Ramp, Pulse.ArbitraryPhase pads an EMPTY np.diff with
mode="edge" and crashes with an unrelated numpy ValueError."""
import sys
import warnings

import numpy as np

warnings.simplefilter("ignore")

from pulser import Pulse
from pulser.waveforms import (
    BlackmanWaveform,
    CompositeWaveform,
    ConstantWaveform,
    CustomWaveform,
    InterpolatedWaveform,
    KaiserWaveform,
    RampWaveform,
)


def phase_waveforms(d):
    yield ConstantWaveform(d, 0.7)
    yield RampWaveform(d, 0.2, 1.3)
    yield CustomWaveform(np.linspace(0.5, -2.0, d) ** 2)
    yield BlackmanWaveform(d if d != 2 else 3, 0.002 * d)
    yield KaiserWaveform(d, 0.002 * d)
    if d >= 2:
        yield InterpolatedWaveform(d, [0.3, 1.0])
        yield CompositeWaveform(
            ConstantWaveform(1, 0.4), RampWaveform(d - 1, 1.0, 2.0)
        )


problems = []
for d in (1, 2, 3, 7):
    for phase_wf in phase_waveforms(d):
        d_ = phase_wf.duration
        label = f"ArbitraryPhase(Constant({d_}, 1.0), {phase_wf!r})"
        try:
            pulse = Pulse.ArbitraryPhase(ConstantWaveform(d_, 1.0), phase_wf)
        except Exception as e:
            problems.append(f"{label} raised {type(e).__name__}: {e}")
            continue
        # phi(t) = phi_c - sum_{k<=t} delta(k)   [delta in rad/us -> rad/ns]
        rebuilt = float(pulse.phase) - np.cumsum(
            pulse.detuning.samples.as_array() * 1e-3
        )
        expected = phase_wf.samples.as_array()
        if pulse.duration != d_ or not np.allclose(
            np.exp(1j * rebuilt), np.exp(1j * expected)
        ):
            problems.append(f"{label}: phase {rebuilt} != {expected}")

if problems:
    print("FAIL")
    for p in problems:
        print("  ", p)
    sys.exit(1)
print("PASS")
