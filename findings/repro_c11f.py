"""C11: with doppler noise only, the legacy QutipEmulator.run() solves once with the single random detuning drawn at
construction and returns a pure state, although `runs` is documented (NoiseModel) as relevant for doppler and
_noisy_runs loops over fresh detunings for it; QutipBackendV2 averages over `runs`.  Same sequence + configuration,
two different answers (exit 1 when the defect is present)."""
import sys
import numpy as np
import pulser
from pulser.noise_model import NoiseModel
from pulser_simulation import QutipEmulator, SimConfig
from pulser_simulation.simresults import CoherentResults, NoisyResults

reg = pulser.Register({"q0": (0, 0)})
seq = pulser.Sequence(reg, pulser.MockDevice)
seq.declare_channel("ryd", "rydberg_global")
seq.add(pulser.Pulse.ConstantPulse(500, 2 * np.pi, 0.0, 0.0), "ryd")
nm = NoiseModel(temperature=1000.0, runs=20, samples_per_run=10)
assert nm.noise_types == ("doppler",)
np.random.seed(1)
sim = QutipEmulator.from_sequence(seq, config=SimConfig.from_noise_model(nm))
res = sim.run()
print("noise:", sim.config.noise, "-> result type:", type(res).__name__)
if isinstance(res, CoherentResults):
    print("FAIL: doppler noise was emulated with a single random detuning (runs=20 ignored)")
    sys.exit(1)
assert isinstance(res, NoisyResults)
print("PASS")
