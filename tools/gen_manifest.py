#!/usr/bin/env python3
"""Regenerates /verif/MANIFEST.json from the claims table below (keeps it schema-valid)."""
import json
import os
import subprocess

HERE = os.path.dirname(os.path.dirname(os.path.abspath(__file__)))

NETS = "; plus generic syntax-tree nets over the modules the property is anchored in (no parameter / plainly assigned local that nothing reads, no loop variable read after its loop, existential array rejections, no public accessor returning private storage, an element of it, or a module-level mutable table directly, no cached public member returning a mutable object, no array-like parameter stored as given), each with a frozen exception table"
TRUSTED = (
    "Trusted base: stdlib ast parser; pstatic's light type inference/call resolution (unresolved call sites are counted in the evidence); "
    "spec tables under /verif/tables written from the property statement. Only explicit constructs of the source are analysed: nothing of /repo is imported or run."
)

CLAIMS = {
    "C01": dict(
        technique="static analysis: must-pass-through dataflow + reaching definitions over ast CFGs (validation dominates every slot append), guard-atom extraction compared with a spec table, Optional-guard dominance rule; formulas, guards and sibling code are matched as patterns over a symbolic normal form of the functions (global value numbering over the syntax tree: temporaries and private helpers inlined, canonical sums/comparisons, path conditions) -- no code is run, no solver is used",
        text=(
            "Decides the structural necessary conditions of 'every scheduled pulse is within the limits, and a pulse inside the limits is accepted': every path from a public Sequence method to a pulse-slot "
            "append passes validate_pulse/validate_duration and schedules the validation's result; every slots.append is dominated by the blocking sequence-duration check; the rejection atoms "
            "(13 limits: strictness, abs(), any-quantifier, None-guard in the same conjunction) equal a spec written from the statement; Optional limits are never used unguarded; a finiteness rejection exists. "
            "The numeric content (clock rounding arithmetic, averages, DMM products) is not decided."
        ),
        design_ref="DESIGN.md §4 C01",
    ),
    "C12": dict(
        technique="static analysis: guard-atom extraction (provenance, tags, canonical relation, folded tolerances) compared with a spec table; Optional-guard dominance rule; culprit/decision provenance agreement",
        text=(
            "Decides that the code rejects with exactly the relations the property states (9 geometric rejection atoms incl. the two distance conditions and their OR), that every Optional device/channel "
            "parameter is used only under a non-None guard on the same access path (so any valid parameter combination can be constructed and printed), that the reported offending atoms are computed from the "
            "deciding mask, and that register validation dispatches to all checks. Floating-point behaviour exactly at the boundary and the closure of the device-aware constructors are not decided."
        ),
        design_ref="DESIGN.md §4 C12",
    ),
    "C02": dict(
        technique="static analysis: whole-program ownership scan of timeline write sites (append-only, who-may-write) + provenance (def-use) rules on slot construction; formulas, guards and sibling code are matched as patterns over a symbolic normal form of the functions (global value numbering over the syntax tree: temporaries and private helpers inlined, canonical sums/comparisons, path conditions) -- no code is run, no solver is used",
        text=(
            "Decides the structural necessary conditions of 'slots tile the time axis and never move': the slot list is append-only program-wide and written only by the scheduler/Sequence, _TimeSlot is immutable, "
            "every new slot starts at the tf of the current last slot (provenance, not its ti, no arithmetic), ends at start + a channel-validated duration, the automatic delay equals slot.ti - last.tf and precedes the pulse, "
            "all inserted delays pass adjust_duration = validate_duration(max(d, min_duration)), durations aggregate with max. Non-negativity and exact multiples as numbers are not decided."
        ),
        design_ref="DESIGN.md §4 C02",
    ),
    "C18": dict(
        technique="static analysis: derived table of timing-relevant channel fields (attribute-read closure from the scheduler through properties/methods) compared with the fields checked under strict; effect rule on the switch helpers; formulas, guards and sibling code are matched as patterns over a symbolic normal form of the functions (global value numbering over the syntax tree: temporaries and private helpers inlined, canonical sums/comparisons, path conditions) -- no code is run, no solver is used",
        text=(
            "Decides the structural necessary condition of 'strict switching returns an identical timeline or raises': every Channel/EOM field the scheduler reads outside pure rejection guards (derived on each run: "
            "mod_bandwidth, clock_period, min_duration, custom_phase_jump_time, retarget times, EOM buffer/bandwidth) is compared under strict=True (directly or via a compared property) or a whole-timeline "
            "comparison dominates the strict return; and switch_device/switch_register build the new sequence only by replaying the complete call log through the public API. "
            "Equality of samples is runtime and is not decided."
        ),
        design_ref="DESIGN.md §4 C18",
    ),
    "C19": dict(
        technique="static analysis: attribute-level taint (def-use closure over the CoordsCollection property family) with the sorting-order indexing as sanitiser; pairing and table rules; formulas, guards and sibling code are matched as patterns over a symbolic normal form of the functions (global value numbering over the syntax tree: temporaries and private helpers inlined, canonical sums/comparisons, path conditions) -- no code is run, no solver is used",
        text=(
            "Decides the structural necessary condition of 'trap numbering, equality and hash do not depend on the order coordinates were given': order-dependent attributes reach hash/eq/trap-id/abstract-repr sinks only "
            "through indexing with _calc_sorting_order(); coordinates and weights are always used in the same (canonical or raw) order; the sort is x-primary over rounded coordinates; all roundings use COORD_PRECISION; "
            "uniqueness is decided on the same rounded representation that identifies a trap; mappable registers resolve in declared order. Near-ties across the rounding boundary are numeric and not decided."
        ),
        design_ref="DESIGN.md §4 C19",
    ),
    "C03": dict(
        technique="static analysis: sibling agreement of argument provenance (estimate vs add), guard/table rules on protocol dispatch, def-use provenance of conflict delays and of the alignment delay; formulas, guards and sibling code are matched as patterns over a symbolic normal form of the functions (global value numbering over the syntax tree: temporaries and private helpers inlined, canonical sums/comparisons, path conditions) -- no code is run, no solver is used",
        text=(
            "Decides the structural necessary conditions of 'estimate equals inserted delay', 'conflicts wait for the other pulse's fall time' and 'align ends together': estimate_added_delay and _add reach the same slot constructor "
            "with identical argument provenance; the conflict scan runs iff protocol != 'no-delay', conflicts are overlap-or-wait-for-all, every use of another channel's end adds its fall time (2*rise_time for non-pulses), "
            "phase barriers bound the start; align's target is the max end (with fall time iff at_rest) and each channel is delayed by target minus its plain end. Minimality and numeric fall times are not decided."
        ),
        design_ref="DESIGN.md §4 C03",
    ),
    "C07": dict(
        technique="static analysis: def-use provenance (FLOW) and pass-through rules over the phase-reference bookkeeping; formulas, guards and sibling code are matched as patterns over a symbolic normal form of the functions (global value numbering over the syntax tree: temporaries and private helpers inlined, canonical sums/comparisons, path conditions) -- no code is run, no solver is used",
        text=(
            "Decides the structural necessary conditions of additive, always-applied phase references: stored phases pass `% 2*pi` at every write site, increments are last_phase + phi at last_used, the phase reference of the "
            "targets reaches the scheduled pulse additively, phase barriers come from last_time of the targets, last_used and post-phase-shifts are applied to the same targets and basis after the add, multi-reference targets are rejected. "
            "The emulated z-rotation is runtime physics and is not decided."
        ),
        design_ref="DESIGN.md §4 C07",
    ),
    "C08": dict(
        technique="static analysis: write-effect summary of build (template untouched, replay on fresh object), structural FLOW rules on argument building and cache invalidation pairing; formulas, guards and sibling code are matched as patterns over a symbolic normal form of the functions (global value numbering over the syntax tree: temporaries and private helpers inlined, canonical sums/comparisons, path conditions) -- no code is run, no solver is used",
        text=(
            "Decides the structural necessary conditions of 'build equals direct construction and never alters the template': build's non-fresh write summary is only Variable.value/_count, replay receivers are fresh objects, "
            "all args and kwargs (and ParamObj's own args/kwargs/cls) pass .build() when Parametrized and those built values are what is replayed, in call order; every write of Variable.value bumps _count and ParamObj's cache is keyed on all counters; "
            "mappable registers and index targeting resolve in declared order. Equality of built sequences is runtime and is not decided."
        ),
        design_ref="DESIGN.md §4 C08",
    ),
    "C10": dict(
        technique="static analysis: def-use provenance and enclosing-condition extraction for the phase-jump buffer and the retarget duration; formulas, guards and sibling code are matched as patterns over a symbolic normal form of the functions (global value numbering over the syntax tree: temporaries and private helpers inlined, canonical sums/comparisons, path conditions) -- no code is run, no solver is used",
        text=(
            "Decides that the required sources flow into the inserted delays: phase_jump_time, 2*rise_time in EOM mode, the previous pulse's fall time and the elapsed time into the phase-jump buffer (only when the phase changes and "
            "the protocol is not 'no-delay', combined by max with the conflict delay); min_retarget_interval, last target time and fixed_retarget_t into the retarget duration (through adjust_duration), after waiting for the fall time, "
            "with the same-target early return before any append; phase_jump_time = custom if not None else 2*rise_time. The inequalities themselves are numeric and not decided."
        ),
        design_ref="DESIGN.md §4 C10",
    ),
    "C15": dict(
        technique="static analysis: def-use provenance of EOM setpoints and buffers; index-agreement rule in calculate_detuning_off; formulas, guards and sibling code are matched as patterns over a symbolic normal form of the functions (global value numbering over the syntax tree: temporaries and private helpers inlined, canonical sums/comparisons, path conditions) -- no code is run, no solver is used",
        text=(
            "Decides the structural necessary conditions of 'EOM pulses use the chosen setpoint, idle at the off-detuning, are buffered': pulse amplitude/detuning come from the open block's rabi_freq/detuning_on, detuned delays and the buffer "
            "from its detuning_off, _EOMSettings slots are filled from the matching arguments, detuning_off = options[argmin|options-optimum|] with the switching beams picked by the same index over the same combos list, buffers are "
            "adjust_duration(_eom_buffer_time) after waiting for the fall time, disable closes the block at the current end. Drift-correction populations are emulator physics and not decided."
        ),
        design_ref="DESIGN.md §4 C15",
    ),
    "C04": dict(
        technique="static analysis: multi-way table agreement (abstract interpretation of serializer branches, deserializer branch keys/defaults, JSON-schema definitions, method signatures, operator tables), all extracted from source on every run; positional-index rule over the path conditions of the symbolic normal form (recorded call arguments)",
        text=(
            "Decides writer/reader/schema agreement, the structural necessary condition of the round-trip: every recordable call has a serializer branch; the 13 ops and 9 waveform kinds agree on the three "
            "sides in key sets, required/optional split and elided defaults (vs. the Sequence method signatures); positional renderings match the parameter lists; every expression an OpSupport method can "
            "produce is serialisable, in the schema enum and decodable (and in the legacy SUPPORTED_* tables); the computed detuning_off is what gets recorded. About 430 table rows are compared. "
            "Behavioural equality of the decoded sequence is a runtime property and is not decided."
        ),
        design_ref="DESIGN.md §4 C04",
    ),
    "C17": dict(
        technique="static analysis: table agreement between dataclass fields, optional-field tables, deserializer key reads and JSON schemas; schema well-formedness walk; whole-program scan for class-level shared state; formulas, guards and sibling code are matched as patterns over a symbolic normal form of the functions (global value numbering over the syntax tree: temporaries and private helpers inlined, canonical sums/comparisons, path conditions) -- no code is run, no solver is used",
        text=(
            "Decides the structural necessary conditions of the round-trip for devices, channels, EOM, noise models, observables and results: declared fields = emitted keys = schema properties, "
            "required = always emitted, every elidable field has a default, decoder tables (basis->class, observable tag->class) agree with the writers, NoiseModel parameter tables partition the fields, "
            "NoiseModel<->SimConfig name mapping is total and the unit conversion is paired; in all 7 schema files required is a subset of properties; and no method assigns a class attribute, mutates a "
            "class-level mutable or writes through a mutable default argument ('objects never share state'). Equality of decoded objects is runtime and is not decided."
        ),
        design_ref="DESIGN.md §4 C17",
    ),
    "C05": dict(
        technique="static analysis (narrow): table agreement between state-order tables, operator labels and the documented convention; structural coefficient factorisation; mode-selection guards; formulas, guards and sibling code are matched as patterns over a symbolic normal form of the functions (global value numbering over the syntax tree: temporaries and private helpers inlined, canonical sums/comparisons, path conditions) -- no code is run, no solver is used",
        text=(
            "Decides only structural necessary conditions of the Hamiltonian formula: the state order (STATES_RANK/EIGENSTATES) agrees with the documented vector convention and with the drive operator labels "
            "(sigma_ba for the drive, sigma_aa for the detuning), operators are placed at the register index, the Hamiltonian is symmetrised exactly once and Hermitian terms carry 1/2 (amp: 0.5*amp*exp(-i*phase); det: -0.5*det; "
            "vdW: 0.5*C6/R^6; XY: C3(1-3cos^2)/R^3 on the exchange product), Global/Local branches build identical coefficients, XY vs vdW selected by the interaction mode, masked pairs skipped only in XY. "
            "The matrix entries themselves (numeric equality with the formula) are NOT decided."
        ),
        design_ref="DESIGN.md §4 C05",
    ),
    "C06": dict(
        technique="static analysis (narrow): sibling-statement agreement (amp/det/phase index ranges), padding modes, mode guards, emptiness-belief contradiction (Engler-style) in the sampling functions; formulas, guards and sibling code are matched as patterns over a symbolic normal form of the functions (global value numbering over the syntax tree: temporaries and private helpers inlined, canonical sums/comparisons, path conditions) -- no code is run, no solver is used",
        text=(
            "Decides that amplitude, detuning and phase are accumulated over identical index ranges from the matching sources (schedule -> channel samples -> per-atom dict), that the DMM weight multiplies only the per-atom detuning, "
            "that duration extension pads at the end (zeros / EOM off-detuning iff the block is open / last phase), that SLM offsets apply only in XY, and that no possibly-empty slot list is indexed with a constant unguarded. "
            "The every-nanosecond equality between samples and schedule is a runtime array property and is NOT decided."
        ),
        design_ref="DESIGN.md §4 C06",
    ),
    "C11": dict(
        technique="static analysis (narrow): annotation-driven array-vs-string comparison rule; measurement-convention table agreement (code vs documented SPAM table); sibling agreement of the two detection-error samplers; formulas, guards and sibling code are matched as patterns over a symbolic normal form of the functions (global value numbering over the syntax tree: temporaries and private helpers inlined, canonical sums/comparisons, path conditions) -- no code is run, no solver is used",
        text=(
            "Decides: no value declared as 'array or mode string' is compared to a string literal in a truth context without isinstance(_, str) (otherwise re-creating a config with several evaluation times raises); the state read as 1 "
            "per basis agrees between QutipResult._weights, State.infer_one_state, EIGENSTATES and the documented table, with the ground-rydberg order reversed exactly once; both samplers flip 1s with the false-negative and 0s with the "
            "false-positive rate and the legacy names map accordingly. Normalisation, positivity, Rabi oscillations and legacy/V2 agreement are runtime numerics and are NOT decided."
        ),
        design_ref="DESIGN.md §4 C11",
    ),
    "C16": dict(
        technique="static analysis (narrow): sibling agreement of parameter forwarding across change_duration/__mul__/serialisers per waveform class; rejection atoms; zero-denominator rule under the class invariant",
        text=(
            "Decides that every waveform class forwards its defining parameters (constructor parameters mapped to stored attributes) identically in change_duration, __mul__, _to_dict and _to_abstract_repr, scaling exactly the linear "
            "parameters; base operations (copying samples, negation, division with zero rejection, equality, index range) keep their shape; non-positive durations, negative amplitudes and unequal durations are rejected; and under "
            "_duration >= 1 no (_duration - c) denominator is unguarded. Areas, maxima and interpolation values are numeric and NOT decided."
        ),
        design_ref="DESIGN.md §4 C16",
    ),
    "C20": dict(
        technique="static analysis (narrow): symbolic truth table of the observable storing condition; literal-dimension rule; sibling agreement of energy moments; result-store guards; formulas, guards and sibling code are matched as patterns over a symbolic normal form of the functions (global value numbering over the syntax tree: temporaries and private helpers inlined, canonical sums/comparisons, path conditions) -- no code is run, no solver is used",
        text=(
            "Decides: Observable.__call__ stores iff (own times and t in own) or (no own times and t in default) -- all 6 rows of the truth table; the stochastic branch of the V2 backend sizes its accumulator from the emulator's "
            "dimension (no literal 2x2); both branches call observables uniformly; Results rejects repeated times and requires ascending times; the variance is the second-moment expression minus the squared mean. "
            "The numeric values of observables are NOT decided."
        ),
        design_ref="DESIGN.md §4 C20",
    ),
    "C09": dict(
        technique="static analysis: interprocedural write-effect and escaping-raise summaries (ast CFG + call graph with decorator composition), validate-before-mutate ordering rule, read-only effect rule",
        text=(
            "Decides the structural necessary condition of 'a failing call leaves the sequence unchanged' and 'read-only operations never change it': in every function reachable from the public "
            "Sequence API no event that can let an explicit raise escape is reachable after a write to sequence state (68 ordering pairs today: each frozen with a reason as infeasible, or listed as a "
            "reproduced known finding), the call record is appended after success with nothing raising afterwards, and 27 read-only entry points have an empty state-write summary. "
            "It does not decide implicit exceptions of library calls nor the equality of rebuilt/deserialised timelines (runtime quantities)."
        ),
        design_ref="DESIGN.md §4 C09",
    ),
    "C13": dict(
        technique="static analysis: interprocedural must-pass-through (typestate guard) dataflow over ast CFGs; instances derived from write-effect summaries; formulas, guards and sibling code are matched as patterns over a symbolic normal form of the functions (global value numbering over the syntax tree: temporaries and private helpers inlined, canonical sums/comparisons, path conditions) -- no code is run, no solver is used",
        text=(
            "Decides that the guards implementing the documented typestate are in place on every path: each public Sequence method whose write summary touches the timeline passes the "
            "measured rejection before its first timeline write (instances are derived from the effect analysis, so a new timeline-writing method is an instance automatically); "
            "add/target/target_index pass _validate_channel(block_eom_mode=True), EOM controls pass the is_in_eom_mode rejections with the right polarity; inspection calls pass the "
            "parametrized rejection; the declare-once / XY-exclusivity / target-before-pulse rejection atoms exist. It does not explore call sequences: which histories are accepted is a "
            "runtime question; only the presence and dominance of the guards is decided."
        ),
        design_ref="DESIGN.md §4 C13",
    ),
}

NOT_YET = {
}

NOT_APPLICABLE = {
    "C14": "Output modulation: linearity, area preservation, -3 dB point, tail bound and 'modulated sampling succeeds whenever plain sampling does' quantify over floating-point arrays and array shapes at run time; no clause has a structural necessary condition that is not a frozen copy of the formula (DESIGN.md §5).",
}

ALL = [f"C{n:02d}" for n in range(1, 21)]


def main() -> None:
    checks = []
    for pid in ALL:
        if pid not in CLAIMS:
            continue
        c = CLAIMS[pid]
        checks.append(
            {
                "property_id": pid,
                "quick_cmd": f"python3-vt check.py {pid} --tier quick",
                "thorough_cmd": f"python3-vt check.py {pid} --tier thorough",
                "evidence_file": f"/verif/evidence/{pid}.json",
                "replay_cmd_template": "python3-vt check.py --replay {path}",
                "engine": "pstatic",
                "level_claimed": {"category": "other", "text": c["text"], "design_ref": c["design_ref"]},
                "level_note": TRUSTED + " " + c.get("note", ""),
                "technique": c["technique"] + NETS,
            }
        )
    na = []
    for pid in ALL:
        if pid in CLAIMS:
            continue
        if pid in NOT_APPLICABLE:
            na.append({"property_id": pid, "reason": NOT_APPLICABLE[pid]})
        else:
            na.append({"property_id": pid, "reason": NOT_YET.get(pid, "no static check registered yet for this property (work in progress; see DESIGN.md §4 for the planned structural clauses)")})
    baseline = json.load(open("/root/.vp/BASELINE.json"))["cmd"] if os.path.exists("/root/.vp/BASELINE.json") else ""
    fixes = subprocess.run(["git", "-C", "/repo", "log", "--format=%h %s", "--grep=^fix:"], capture_output=True, text=True).stdout.strip().splitlines()
    man = {
        "version": 1,
        "setup_cmd": "python3-vt check.py --selfcheck-fast",
        "hooks": {
            "guard": "PULSER_VERIF",
            "enable": "none needed: the checks read /repo's source (stdlib ast); no hook or instrumentation was added to pasqal-io/Pulser",
            "baseline_off_cmd": baseline,
            "source_commits": [],
            "add_only": True,
        },
        "engines": [
            {
                "name": "pstatic",
                "path": "/verif/pstatic",
                "serves_properties": sorted(CLAIMS),
                "kind_free_text": "repository-specific static analyser on stdlib ast: program model, declared-type inference, call graph with decorator/property modelling, statement CFG with ordered events, write-effect/raise summaries, guard-atom and table extractors",
            }
        ],
        "checks": checks,
        "not_applicable": na,
        "notes": "Static analysis only. fix: commits in /repo (genuine defects repaired): " + "; ".join(fixes) + ". Known (unrepaired) findings: /verif/known_findings.json.",
    }
    with open(os.path.join(HERE, "MANIFEST.json"), "w") as f:
        json.dump(man, f, indent=1)
    print(f"MANIFEST: {len(checks)} checks, {len(na)} not_applicable")


if __name__ == "__main__":
    main()
