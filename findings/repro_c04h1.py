"""C04 finding 1: a parametrized InterpolatedWaveform whose `interpolator` is
given positionally is serialised to the abstract representation as if it used
the default PchipInterpolator (the extra positional argument is silently
dropped), so the deserialised sequence builds a different pulse."""
import sys
import warnings

import numpy as np

from pulser import Pulse, Register, Sequence
from pulser.devices import MockDevice
from pulser.exceptions.serialization import AbstractReprError
from pulser.sampler import sample
from pulser.waveforms import InterpolatedWaveform

warnings.simplefilter("ignore")

VALUES = [0.0, 1.0, 0.2, 0.0]
TIMES = [0.0, 0.3, 0.6, 1.0]


def make_seq(*interp_args):
    reg = Register.square(2, 5, prefix="q")
    seq = Sequence(reg, MockDevice)
    seq.declare_channel("ch", "rydberg_global")
    dur = seq.declare_variable("dur", dtype=int)
    wf = InterpolatedWaveform(dur, VALUES, TIMES, *interp_args)
    seq.add(Pulse.ConstantDetuning(wf, 0.0, 0.0), "ch")
    return seq


def amp(seq):
    return sample(seq).channel_samples["ch"].amp.as_array()


ok = True

# 1) interpolator="interp1d", given positionally. The non-parametrized
# equivalent refuses to be exported (AbstractReprError). The parametrized one
# must either do the same or round-trip faithfully.
seq = make_seq("interp1d")
try:
    abstract = seq.to_abstract_repr()
except AbstractReprError as e:
    print("interp1d (positional): export refused with AbstractReprError ->", e)
else:
    seq2 = Sequence.from_abstract_repr(abstract)
    a1 = amp(seq.build(dur=100))
    a2 = amp(seq2.build(dur=100))
    same = a1.shape == a2.shape and np.allclose(a1, a2)
    print(
        "interp1d (positional): export accepted; max |amp difference| after "
        f"round trip = {np.max(np.abs(a1 - a2)):.4f}"
    )
    if not same:
        print(
            "  -> the 'interp1d' interpolator was silently replaced by "
            "'PchipInterpolator'"
        )
        ok = False

# 2) the default interpolator spelled out explicitly must keep working
for args, kwargs in ((("PchipInterpolator",), {}),):
    seq = make_seq(*args)
    try:
        seq2 = Sequence.from_abstract_repr(seq.to_abstract_repr())
        a1 = amp(seq.build(dur=100))
        a2 = amp(seq2.build(dur=100))
        if not np.allclose(a1, a2):
            print("PchipInterpolator (positional): round trip differs")
            ok = False
        else:
            print("PchipInterpolator (positional): round trip OK")
    except Exception as e:  # noqa
        print("PchipInterpolator (positional): unexpected", repr(e))
        ok = False

print("PASS" if ok else "FAIL")
sys.exit(0 if ok else 1)
