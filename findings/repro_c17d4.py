"""C17 / no shared state: a RegisterLayout (and a DetuningMap) keeps an alias
of the caller's coordinate array and only reads it lazily.

Traps.__init__() validates a converted copy of 'trap_coordinates' but stores
the caller's object itself in self._coords; every derived quantity
(_coords_arr, sorted coords, hash, trap IDs) is a cached_property computed on
first use.  Building a second layout from the same (shifted) array therefore
changes the first one, and the uniqueness validation done at construction is
void.  Register / Register3D, the sibling CoordsCollection, freeze their
coordinates at construction.
"""
import sys

import numpy as np

from pulser import Register
from pulser.register.register_layout import RegisterLayout
from pulser.register.weight_maps import DetuningMap

failures = []
base = [[0.0, 0.0], [0.0, 5.0], [5.0, 0.0]]

# 1) Two layouts built one after the other from one work array
coords = np.array(base)
layout_a = RegisterLayout(coords, slug="A")
coords += 10.0  # prepare the coordinates of the second layout
layout_b = RegisterLayout(coords, slug="B")
if layout_a == layout_b:
    failures.append("layout A became equal to layout B (built later)")
if not np.array_equal(layout_a.coords, np.array(base)):
    failures.append(
        f"layout A coords changed to {layout_a.coords.tolist()} after its "
        "construction"
    )
decoded = RegisterLayout.from_abstract_repr(layout_a.to_abstract_repr())
if decoded != RegisterLayout(base):
    failures.append("layout A does not serialise the traps it was built with")

# 2) The validation made by the constructor is bypassed
coords = np.array(base)
layout_c = RegisterLayout(coords)
coords[:] = 1.0  # all traps on the same spot: the constructor rejects this
try:
    RegisterLayout.from_abstract_repr(layout_c.to_abstract_repr())
    if layout_c.number_of_traps != 3 or len(
        np.unique(layout_c.coords, axis=0)
    ) != 3:
        failures.append("layout C now holds repeated traps")
except Exception as e:  # decode of its own serialisation fails
    failures.append(
        f"layout C no longer round-trips: {type(e).__name__}: {e.__cause__}"
    )

# 3) Same for detuning maps (same base class)
coords = np.array(base)
dmap = DetuningMap(coords, [0.1, 0.2, 0.3])
coords -= 3.0
if not np.array_equal(dmap.sorted_coords, np.array(base)):
    failures.append(
        f"DetuningMap coords changed to {dmap.sorted_coords.tolist()}"
    )

# control: the sibling class is immune
c0, c1 = np.array([0.0, 0.0]), np.array([5.0, 0.0])
reg = Register({"a": c0, "b": c1})
c1 += 3.0
if not np.array_equal(reg.qubits["b"].as_array(), [5.0, 0.0]):
    failures.append("control: Register changed")

if failures:
    print("FAIL")
    for f in failures:
        print("  -", f)
    sys.exit(1)
print("PASS")
