"""C12 -- a device accepts exactly the registers and layouts that fit its geometry."""
from __future__ import annotations

import ast

from .. import none_rule
from ..absval import abstractor
from ..engine import Engine
from ..guardspec import check_rows
from ..model import AnalysisError, dotted, norm
from ..report import Report, load_table

DEV = "pulser.devices._device_datacls.BaseDevice"

EXPLANATION = (
    "GUARD: the geometric rejection atoms of validate_register / validate_layout / validate_layout_filling / _validate_atom_number / "
    "_validate_atom_distance(invalid_dists) / _validate_radial_distance are extracted (operand provenance, wrapper tags, canonical relation, folded numeric tolerances) and compared with a spec "
    "written from the property statement (strict > so that a register exactly at a limit is accepted; tolerance of the distance test negative and tiny; coincident atoms rejected). "
    "NONE: every use of an Optional device/channel parameter in an ordering comparison, arithmetic, float() or numeric format spec -- including the specification text built by "
    "the device (`_specs`, `_channel_lines`) -- is dominated by an `is not None` guard on that same access path (`cast()` is not a guard), so devices with undefined virtual limits can be built and printed. "
    "SIB: the list of offending atoms in RadiusError/DistanceError is computed from the same mask/helper that decides the rejection. DISPATCH: validate_register reaches the coordinate checks, "
    "layout checks and the filling check. NOT decided: floating point exactly at the boundary; that the device-aware constructors always produce accepted registers (numeric). GUARD/SIB/DISPATCH (added): the device self-consistency rejections of __post_init__ (max_layout_traps < min_layout_traps; int(filling*max_traps) < max_atom_num) have the stated strictness; the offenders reported by RadiusError enumerate every index of the deciding mask; a register is stored in a sequence only after device.validate_register(<that register>)."
    ' Round 4 (added): CLOSURE -- candidate sites of generate_trap_coordinates are kept iff dist > min_trap_dist (strict, so a placed site leaves the region even for a zero minimum distance); DISPATCH -- validate_register validates the atoms on a path that does not depend on register.layout; GUARD -- the radial distance is compared as computed (no rounding).'
    ' Round 5 (added): the capacity of a layout is not a bare truncated float product; the radial check has the tolerance of the coordinate precision (on the difference); max_connectivity validates its result with the device; offenders keep their own IDs.'
    ' Round 6 (added after the fifth independent round of breaking changes): the capacity correction admits a filling met exactly: one more qubit under (q + 1) / n_traps <= filling (non-strict), one less only under q / n_traps > filling (strict).'
    ' Round 7 (added after the sixth, smaller round of breaking changes): the radial check takes the norm of the coordinates themselves (distance from the origin: no shift by a mean or another reference point).'
)
ASSUMPTIONS = ["guards matched structurally; Optional-ness from declared annotations"]

OPT_CLASSES = [DEV, "pulser.channels.base_channel.Channel", "pulser.channels.eom.BaseEOM"]
NONE_EXCEPTIONS = {
    "Hamiltonian._construct_hamiltonian.make_xy_term|interaction_coeff_xy": "make_xy_term runs only in XY mode, i.e. with a Microwave channel declared, and BaseDevice.__post_init__ requires interaction_coeff_xy to be a float when a Microwave channel exists",
}


def _strip(roots) -> set:
    out = set()
    for r in roots:
        while r.startswith(("idx<-", "arg<-", "cond<-")):
            r = r.split("<-", 1)[1]
        out.add(r)
    return out


def run(E: Engine, rep: Report, tier: str) -> dict:
    P = E.P
    tab = load_table("guards_c12.json")
    check_rows(E, rep, "GUARD", tab["rows"])
    check_rows(E, rep, "GUARD", tab["assign_rows"], source="assign")
    # the two distance conditions are OR-ed
    inv = E.fn(DEV + "._validate_atom_distance.invalid_dists")
    ret = [n for n in ast.walk(inv.node) if isinstance(n, ast.Return) and n.value is not None]
    ok = False
    for r in ret:
        for c in ast.walk(r.value):
            if isinstance(c, ast.Call) and (dotted(c.func) or "").split(".")[-1] in ("logical_or", "bitwise_or") and len(c.args) == 2:
                ok = True
            if isinstance(c, ast.BinOp) and isinstance(c.op, ast.BitOr):
                ok = True
    rep.check(ok, "GUARD", "BaseDevice._validate_atom_distance.invalid_dists|either-condition-rejects", "too-close OR coincident rejects", "the two distance conditions are no longer combined with a logical OR", E.where(inv))
    rep.floor("GUARD", 10)
    # round 5 (independent audit): the number of qubits a layout may hold is decided on the filling FRACTION, not on the
    # bare truncated float product int(n_traps * max_layout_filling) -- 50 * 0.58 is 28.999999999999996
    from .. import sym as _sym
    from .symutil import S as _Sg5, is_ as _isg5, mentions as _mg5, sh as _shg5

    n_cap = 0
    for fq_ in (DEV + ".validate_layout_filling", DEV + ".__post_init__"):
        f5 = E.fn(fq_)
        for l in _Sg5(E, f5).logged("raise"):
            for x in _sym.conj_of(l.cond):
                if x[0] != "cmp" or x[1] not in ("Lt", "Gt", "LtE", "GtE"):
                    continue
                for side in (x[2], x[3]):
                    if not (_mg5(side, "max_layout_filling") and any(t[0] == "call" and t[1] == ("name", "int") for t in _sym.subterms(side))):
                        continue
                    n_cap += 1
                    bare = _isg5(side, "int(Q_a * Q_b)") is not None
                    rep.check(not bare, "GUARD", f"{f5.short}|layout-capacity-not-a-truncated-float-product", "the capacity is corrected against the filling fractions (not just int(n_traps * max_layout_filling))",
                              f"{f5.short} takes the layout's capacity as `{_shg5(side, 80)}`: products such as 50 * 0.58 = 28.999999999999996 or 90 * 0.7 = 62.99999999999999 truncate to one qubit less than the filling allows, so a register exactly at the maximum filling (and the automatic layout of a valid register) is refused, and some valid device parameter combinations cannot be constructed", E.where(f5, l.node))
    # ... and a filling met EXACTLY fits ("at most max_layout_filling"): the correction step adds a qubit when
    #     (q + 1) / n_traps <= filling and removes one only when q / n_traps > filling
    mlq = DEV + "._max_layout_qubits"
    if mlq in E.P.functions:
        from .symutil import branches as _brg5

        fm = E.fn(mlq)
        rm = _Sg5(E, fm).ret
        for conds, leaf in _brg5(rm) if rm is not None else []:
            kind = "inc" if _isg5(leaf, "Q_b + 1") is not None else "dec" if _isg5(leaf, "Q_b + -1") is not None else None
            if kind is None:
                continue
            fcmp = [c for c in conds if (c[0] == "cmp" or (c[0] == "not" and c[1][0] == "cmp")) and _mg5(c, "max_layout_filling")]
            if kind == "inc":
                bad = [c for c in fcmp if c[0] == "cmp" and c[1] in ("Lt", "Gt")]
                rep.check(not bad, "GUARD", "BaseDevice._max_layout_qubits|exact-filling-fits|increment", "one more qubit is allowed when (q + 1) / n_traps <= max_layout_filling",
                          f"the capacity is raised only under the strict test `{_shg5(bad[0], 100) if bad else ''}`: when (q + 1) / n_traps EQUALS the maximum filling (29 of 50 traps at 0.58) the qubit still fits -- a register exactly at the maximum filling is refused and some valid device parameters cannot be constructed", E.where(fm))
            else:
                bad = [c for c in fcmp if c[0] == "not"]
                rep.check(not bad, "GUARD", "BaseDevice._max_layout_qubits|exact-filling-fits|decrement", "a qubit is removed only when q / n_traps > max_layout_filling",
                          f"the capacity is lowered under the non-strict test `{_shg5(bad[0], 100) if bad else ''}`: a filling met exactly fits", E.where(fm))
    # the radial check allows for the precision coordinates are kept with: layouts (and the registers defined from them,
    # e.g. by with_automatic_layout) hold coordinates rounded to COORD_PRECISION decimals, which moves a point at the
    # maximum radius outward by up to ~0.7e-6 -- an exact `norm > R` makes the device reject its own automatic layout
    vrd = E.fn(DEV + "._validate_radial_distance") if (DEV + "._validate_radial_distance") in E.P.functions else E.fn(DEV + "._validate_coords")
    tol = False
    for l in _Sg5(E, vrd).log:
        for v_ in (l.value, l.cond):
            for t in _sym.subterms(v_) if v_ is not None else ():
                if t[0] == "cmp" and t[1] in ("Gt", "Lt", "GtE", "LtE") and _mg5(t, "max_radial_distance") and _mg5(t, "COORD_PRECISION"):
                    tol = True
    rep.check(tol, "GUARD", "BaseDevice._validate_radial_distance|tolerance-of-the-coordinate-precision", "`norm - max_radial_distance > 10 ** (-COORD_PRECISION)`", "the radial distance is compared with max_radial_distance exactly, while layouts hold coordinates rounded to COORD_PRECISION decimals: an atom at the maximum radius lands up to 0.7e-6 um outside once it sits on a layout, so the register with_automatic_layout(device) returns for a valid register is rejected by that same device (the distance check already allows 1e-6)", E.where(vrd))
    # the radial distance is the distance FROM THE ORIGIN (the centre of the device's field of view): the norm is taken
    # of the coordinates as given -- not of coordinates shifted by their mean / first point / any other reference
    norms = [t for l in _Sg5(E, vrd).log for v_ in (l.value, l.cond) if v_ is not None for t in _sym.subterms(v_) if t[0] == "call" and t[1][0] == "attr" and t[1][2] == "norm" and t[2]]
    if not norms:
        rep.excepted("GUARD", "BaseDevice._validate_radial_distance|distance-from-the-origin", "no norm(...) call recognised in the radial check: not decided", E.where(vrd))
    for t in norms[:1]:
        shifted = [u for u in _sym.subterms(t[2][0]) if u[0] in ("add", "sub") or (u[0] == "bin" and u[1] in ("Sub", "Add")) or (u[0] == "call" and u[1][0] == "attr" and u[1][2] in ("mean", "average", "median"))]
        rep.check(not shifted, "GUARD", "BaseDevice._validate_radial_distance|distance-from-the-origin", "norm of the coordinates themselves", f"the radial check takes the norm of `{_shg5(t[2][0], 100)}`: the coordinates are shifted before the distance is taken, so an off-centre register is measured from its own barycentre -- atoms beyond max_radial_distance are accepted (a single atom anywhere) and lopsided valid registers are refused", E.where(vrd))
    if n_cap < 2:
        raise AnalysisError(f"anchor: the layout-capacity comparisons (validate_layout_filling, __post_init__) were found {n_cap} time(s), expected 2")

    # ------------------------------------------------------------- NONE
    fns = [f for f in P.all_functions() if f.module.name.startswith(("pulser.devices", "pulser.register", "pulser_simulation.hamiltonian"))]
    st = none_rule.check(E, rep, "NONE", OPT_CLASSES, fns, NONE_EXCEPTIONS)
    rep.floor("NONE", 8)

    # -------------------------------------------------------------- SIB
    for fname, kw in (("_validate_radial_distance", "invalid"), ("_validate_atom_distance", "invalid")):
        f = E.fn(f"{DEV}.{fname}")
        ab = abstractor(E.flow(f))
        raises = [n for n in ast.walk(f.node) if isinstance(n, ast.Raise) and isinstance(n.exc, ast.Call)]
        if not raises:
            raise AnalysisError(f"anchor: {fname} no longer raises")
        for r in raises:
            arg = next((k.value for k in r.exc.keywords if k.arg == kw), None)
            dnf = ab.enclosing_conditions(r)
            test_roots = set()
            for conj in dnf:
                for lit in conj:
                    if lit.atom is not None:
                        test_roots |= _strip(lit.atom.lhs.roots) | _strip(lit.atom.rhs.roots)
                    elif lit.truth is not None:
                        test_roots |= _strip(lit.truth.roots)
            test_roots = {x for x in test_roots if not x.startswith(("const:", "num:")) and x != "coords"}
            arg_roots = _strip(ab.av(arg).roots) if arg is not None else set()
            decisive = {x for x in test_roots if x.startswith(("call:", "self.")) or "vstack" in x or "pdist" in x}
            ok = arg is not None and bool(decisive) and decisive <= arg_roots
            rep.check(ok, "SIB", f"BaseDevice.{fname}|culprits-from-deciding-mask", f"`{kw}=` derives from the same mask/helper as the decision ({sorted(decisive)})", f"the offending list `{norm(arg) if arg is not None else '?'}` is not computed from what decides the rejection: decision uses {sorted(decisive)}, list uses {sorted(arg_roots)}", E.where(f, r))
    # the offenders reported by RadiusError are *all* the violating atoms: the comprehension ranges over every index
    # of the deciding mask (np.where(m)[0] / np.nonzero(m)[0] / np.flatnonzero(m)), not over its first row
    from .. import sym as _sym
    from .symutil import S as _S, is_ as _is, sh as _sh, unobj as _unobj

    frd = E.fn(f"{DEV}._validate_radial_distance")
    for l in _S(E, frd).logged("raise"):
        exc = l.value[1] if l.value is not None and l.value[0] == "raise" else None
        inv = dict(exc[3]).get("invalid") if exc is not None and exc[0] == "call" else None
        inv = _unobj(inv) if inv is not None else None
        ok = False
        m_ = None
        if inv is not None and inv[0] == "comp" and len(inv[3]) == 1:
            it = inv[3][0][0]
            for pat_ in ("np.where(Q_m)[0]", "np.nonzero(Q_m)[0]", "np.flatnonzero(Q_m)", "np.argwhere(Q_m)[:, 0]", "np.argwhere(Q_m).flatten()", "np.argwhere(Q_m).ravel()"):
                m_ = m_ or _is(it, pat_)
            decided = any(_is(x, "np.any(Q_m)", m_) is not None for x in _sym.conj_of(l.cond)) if m_ else False
            ok = m_ is not None and decided
            if not ok:
                # the same enumeration written as a filter: [id for id, bad in zip(ids, <mask>) if bad]
                mz = _is(it, "zip(Q_ids, Q_m)")
                el = ("elem", it, 0)
                if mz is not None and inv[3][0][1] == ("item", el, 1) and inv[2] == ("item", el, 0):
                    ok = any(_is(x, "np.any(Q_m)", {"Q_m": mz["Q_m"]}) is not None for x in _sym.conj_of(l.cond))
        rep.check(ok, "SIB", "BaseDevice._validate_radial_distance|all-offenders-reported", "invalid = [ids[i] for i in <all indices of the deciding mask>]", f"the offending atoms are taken from `{_sh(inv[3][0][0], 80) if inv is not None and inv[0] == 'comp' else _sh(inv, 80)}`: this must enumerate every index where the deciding mask holds (np.where(mask)[0]); e.g. np.argwhere(mask)[0] is only the first offender", E.where(frd, l.node))
    rep.floor("SIB", 3)

    # --------------------------------------------------------- DISPATCH
    vr = E.fn(DEV + ".validate_register")
    vc = E.fn(DEV + "._validate_coords")
    def reach(f0, depth=3):
        """Callees of f0, followed through the private helpers it calls (an extracted helper is part of f0)."""
        out, todo, seen = set(), [(f0, 0)], set()
        while todo:
            g, d = todo.pop()
            if g.qualname in seen:
                continue
            seen.add(g.qualname)
            for _n, _i, e in E.flow(g).all_events():
                for c, _m in e.callees:
                    h = c.innermost()
                    out.add(h.short)
                    if d < depth and h.name.startswith("_") and not h.name.startswith("__") and h.cls is not None and g.cls is not None and h.cls in E.P.mro(g.cls) + E.P.subclasses(g.cls) + [g.cls]:
                        todo.append((h, d + 1))
        return out

    callees = reach(vr)
    for need in ("BaseDevice._validate_coords", "BaseDevice.validate_layout", "BaseDevice.validate_layout_filling"):
        rep.check(need in callees, "DISPATCH", f"validate_register|calls-{need.split('.')[-1]}", "reached from validate_register", f"validate_register no longer calls {need}", E.where(vr))
    callees = reach(vc)
    for need in ("BaseDevice._validate_atom_number", "BaseDevice._validate_atom_distance", "BaseDevice._validate_radial_distance"):
        if (DEV + "." + need.split(".")[-1]) not in E.P.functions:
            # the private helper was inlined: its rejection atom is then required of _validate_coords itself (GUARD rows, fallback anchor)
            rep.ok("DISPATCH", f"_validate_coords|calls-{need.split('.')[-1]}", "helper inlined into _validate_coords; its guard row is decided there", E.where(vc))
            continue
        rep.check(need in callees, "DISPATCH", f"_validate_coords|calls-{need.split('.')[-1]}", "reached from _validate_coords", f"_validate_coords no longer calls {need}", E.where(vc))
    # the distance check is unconditional; the atom-number check applies to atoms only
    fl = E.flow(vc)
    ab = abstractor(fl)
    for node, _i, e in fl.all_events():
        if e.kind == "call" and any(c.innermost().short == "BaseDevice._validate_atom_distance" for c, _m in e.callees):
            dnf = ab.enclosing_conditions(e.node)
            rep.check(dnf == [[]], "DISPATCH", "_validate_coords|distance-check-unconditional", "every coordinate set is checked for minimum distance", f"the distance check became conditional: {[' AND '.join(l.show() for l in c) for c in dnf]}", E.where(vc, e.node))
    # the atoms of every register are validated (number, distance, radius), whether or not it comes from a layout:
    # the trap checks imply distance and radius but not the maximum number of atoms
    from .symutil import arg as _argd, mentions as _ment

    atom_calls = [l for l in _S(E, vr).calls("_validate_coords") if (k := _argd(l, 1, "kind")) is None or k == ("const", "atoms")]
    if not atom_calls:
        atom_calls = [l for l in _S(E, vr).log if l.kind == "call" and l.fn != vr.name and l.value[1][0] == "attr" and l.value[1][2] == "_validate_atom_number"]
    free = [l for l in atom_calls if not any(_ment(x, "layout", "_layout") for x in _sym.conj_of(l.cond))]
    rep.check(bool(free), "DISPATCH", "validate_register|atoms-validated-with-or-without-layout", "the atom coordinates are validated on a path that does not depend on register.layout",
              f"validate_register validates the atoms only under {[_sh(l.cond, 80) for l in atom_calls]}: for the other registers the maximum number of atoms is never checked (the layout checks bound the traps and the filling, not the atom count), so a register the device must refuse is accepted", E.where(vr, atom_calls[0].node if atom_calls else None))
    # Sequence.__init__ validates the register / layout
    init = E.method("pulser.sequence.sequence.Sequence", "__init__")
    callees = reach(init)
    for need in ("BaseDevice.validate_register", "BaseDevice.validate_layout", "BaseDevice.validate_layout_filling"):
        rep.check(need in callees, "DISPATCH", f"Sequence.__init__|calls-{need.split('.')[-1]}", "sequence creation validates the register against the device", f"Sequence.__init__ no longer calls {need}", E.where(init))
    # a register is installed in a sequence only after the device validated it (build() of a mappable register)
    SEQQ = "pulser.sequence.sequence.Sequence"
    n_inst = 0
    for mname, fs in E.cls(SEQQ).methods.items():
        for g in fs:
            if g.kind == "overload" or mname == "__init__" or "_register" not in norm(g.node):
                continue
            Sg = _S(E, g, inline=False)
            for l in Sg.logged("store"):
                if l.target is None or l.target[0] != "attr" or l.target[2] != "_register":
                    continue
                n_inst += 1
                val = [c for c in Sg.log[: Sg.log.index(l)] if c.kind == "call" and c.target is not None and c.target[0] == "attr" and c.target[2] == "validate_register" and c.value[2] and c.value[2][0] == l.value and set(_sym.conj_of(c.cond)) <= set(_sym.conj_of(l.cond))]
                rep.check(bool(val), "DISPATCH", f"{g.short}|register-installed-after-validate_register", "the register stored in the sequence was passed to device.validate_register first", f"{g.short} stores `{_sh(l.value, 60)}` as the sequence's register without a preceding device.validate_register(<that register>): a register the device refuses (too many atoms, too close, outside the radius) can be installed", E.where(g, l.node))
    if n_inst < 1:
        rep.error("no register installation outside Sequence.__init__ found (expected Sequence._set_register)")
    rep.floor("DISPATCH", 10)

    # ---------------------------------------------------------- CLOSURE
    # device-aware layout generation: enough traps for the maximum filling (n <= int(traps * filling) needs traps >= ceil(n / filling))
    gen = E.fn("pulser.register._layout_gen.generate_trap_coordinates")
    Sg_ = _S(E, gen)
    MT = "max(np.ceil(Q_n / max_layout_filling).astype(int), min_traps)"
    from .symutil import has as _has, mentions as _mentions

    iters = [it for l in Sg_.log for it in l.loops if it[0] == "call" and it[1] == ("name", "range")]
    it0 = iters[0] if iters else None
    m_ = _has(it0, MT) if it0 is not None else None
    ok = m_ is not None and _has(m_["Q_n"], "len(Q_seeds)") is not None or (m_ is not None and _mentions(m_["Q_n"], "atom_coords"))
    rep.check(bool(ok), "CLOSURE", "generate_trap_coordinates|min_traps>=ceil(n/max_filling)", "the layout gets at least ceil(n_atoms / max_layout_filling) traps", f"the automatic layout no longer guarantees ceil(n_atoms / max_layout_filling) traps (number of added traps: {_sh(it0, 200)}): the generated register can exceed the device's maximum filling and be rejected by that same device", E.where(gen))
    rep.check(it0 is not None and _has(it0, "max(Q_opt, " + MT + ")") is not None, "CLOSURE", "generate_trap_coordinates|target>=min_traps", "target_traps = max(optimal, min_traps)", "the target number of traps can fall below the minimum", E.where(gen))
    short = any(l.kind == "raise" and any(_is(x, "len(Q_t) < " + MT) is not None for x in _sym.conj_of(l.cond)) for l in Sg_.log)
    rep.check(short, "CLOSURE", "generate_trap_coordinates|fails-if-too-few-traps", "raises when fewer than min_traps sites were found", "generate_trap_coordinates can return fewer traps than the minimum", E.where(gen))
    # a placed trap leaves the candidate region: its distance to itself is 0, so the keep-test `dist > min_trap_dist`
    # must be strict for a device whose minimum distance is 0 (otherwise the same site is selected again -> duplicate traps)
    n_keep = 0

    def _keep_tests(t, pos=True):
        nonlocal n_keep
        if not isinstance(t, tuple) or not t:
            return
        if t[0] == "not" or (t[0] == "bin" and t[1] == "Invert"):
            _keep_tests(t[1] if t[0] == "not" else t[2], not pos)
            return
        if t[0] == "cmp" and len(t) == 4:
            d, m, op = t[2], t[3], t[1]
            if _mentions(d, "min_trap_dist") and _mentions(m, "cdist"):
                d, m, op = m, d, {"Lt": "Gt", "LtE": "GtE", "Gt": "Lt", "GtE": "LtE"}.get(op, op)
            if _mentions(d, "cdist") and m == ("name", "min_trap_dist") and op in ("Gt", "GtE", "Lt", "LtE"):
                if not pos:
                    op = {"Gt": "LtE", "GtE": "Lt", "Lt": "GtE", "LtE": "Gt"}[op]
                n_keep += 1
                rep.check(op in ("Gt", "LtE"), "CLOSURE", f"generate_trap_coordinates|keep-test-strict|{n_keep}", "candidate sites are kept iff dist > min_trap_dist (strict)",
                          f"candidate sites are tested with `{_sh(t, 100)}`: a site at distance exactly min_trap_dist is kept, so with min_trap_dist == 0 (a valid device) the site just selected (distance 0 to itself) stays a candidate, is selected again, and the generated layout has duplicate traps", E.where(gen))
        for x in t:
            if isinstance(x, tuple):
                _keep_tests(x, pos)

    # only maximal terms: the region mask at the loop and at the final use
    for l in Sg_.log:
        if l.kind in ("aug", "assign", "store") and l.value is not None:
            _keep_tests(l.value)
    if n_keep == 0:
        reg = [l for l in Sg_.log if l.kind == "call" and _mentions(l.value, "min_trap_dist")]
        for l in reg:
            _keep_tests(l.value)
    if n_keep == 0:
        raise AnalysisError("anchor: generate_trap_coordinates no longer compares site distances with min_trap_dist")
    wal = E.fn("pulser.register.register.Register.with_automatic_layout")
    from .symutil import arg as _arg12

    gcalls = _S(E, wal).calls("generate_trap_coordinates")
    if not gcalls:
        raise AnalysisError("anchor: Register.with_automatic_layout no longer calls generate_trap_coordinates")
    # generator parameter <- the device limit it must carry (a crossed pair, e.g. min_traps=device.max_layout_traps, breaks the guarantee)
    wiring = {"max_layout_filling": "max_layout_filling", "min_trap_dist": "min_atom_distance", "max_radial_dist": "max_radial_distance", "min_traps": "min_layout_traps", "max_traps": "max_layout_traps"}
    for par, need in wiring.items():
        ok = all((a_ := _arg12(l, -1, par)) is not None and _sym.contains(a_, _sym.Pattern(f"device.{need}").term) and not any(_sym.contains(a_, _sym.Pattern(f"device.{o}").term) for o in wiring.values() if o != need) for l in gcalls)
        rep.check(ok, "CLOSURE", f"Register.with_automatic_layout|uses-device.{need}", f"generate_trap_coordinates({par}=...) carries device.{need}", f"with_automatic_layout no longer hands device.{need} to the generator's `{par}`: {[_sh(_arg12(l, -1, par), 60) if _arg12(l, -1, par) is not None else 'absent' for l in gcalls]}", E.where(wal))
    # the other device-aware constructor: what max_connectivity returns has been handed to device.validate_register (the
    # atom number and the spacing are checked by hand, the radius is not)
    mc_f = E.fn("pulser.register.register.Register.max_connectivity")
    Smc = _S(E, mc_f)
    rets_ = [l for l in Smc.logged("return") if l.fn == mc_f.short and l.value is not None]
    vcalls = [l for l in Smc.log if l.kind == "call" and l.value[1][0] == "attr" and l.value[1][2] == "validate_register" and l.value[2]]
    from .symutil import unobj as _unmc

    ok_mc = bool(rets_) and all(any(_unmc(v.value[2][0]) == _unmc(r_.value) for v in vcalls) for r_ in rets_)
    rep.check(ok_mc, "CLOSURE", "Register.max_connectivity|result-validated-by-the-device", "device.validate_register(<the returned register>)", "max_connectivity returns a register it never validated against the device: it checks the number of atoms and the spacing but not the maximum radial distance, so e.g. 80 atoms at 9 um on AnalogDevice (41.24 um of 38) are returned and then rejected by that device", E.where(mc_f))
    # offenders are reported under the IDs they have in the register (not their str()): with int IDs '2' is not an ID
    # of the register, and with mixed IDs it names another atom
    vco = E.fn(DEV + "._validate_coords")
    from .symutil import arg as _arg_ids

    sub_calls = [l for l in _S(E, vco, inline=False).log if l.kind == "call" and l.value[1][0] == "attr" and l.value[1][2] in ("_validate_atom_distance", "_validate_radial_distance") and _arg_ids(l, 0, "ids") is not None]
    if not sub_calls:
        raise AnalysisError("anchor: _validate_coords no longer hands ids to the distance / radius checks")
    strd = [l for l in sub_calls if any(t[0] == "call" and t[1] == ("name", "str") for t in _sym.subterms(_arg_ids(l, 0, "ids")))]
    rep.check(not strd, "SIB", "_validate_coords|offenders-keep-their-ids", "the ids handed to the checks are the mapping's keys themselves", "_validate_coords stringifies the ids before the checks fill RadiusError.invalid / DistanceError.invalid: an int ID 2 is reported as '2' (not an ID of the register) and with Register({'1': ..., 1: ...}) the report names the valid atom", E.where(vco))
    rep.floor("CLOSURE", 8)
    return {"functions_analysed": len(fns), "none_rule": st}
