#!/usr/bin/env python3
"""Freeze, for every triaged C09 ordering pair, the raises through which it can fail today.

Writes tables/c09_pair_raises.json from the evidence of the last C09 run.  Run it ONLY after a deliberate
triage (every pair on the tree is listed as infeasible or as a known finding): the check compares later
trees against this reference and reports a raise that was not possible when the pair was triaged.
"""
import json
import os

VERIF = os.path.dirname(os.path.dirname(os.path.abspath(__file__)))
ev = json.load(open(os.path.join(VERIF, "evidence", "C09.json")))
now = ev["coverage"]["pair_raises_now"]
out = {"_doc": "reference raises (function:exception) per triaged ORDER pair, frozen from the tree at the time of triage; see tools/gen_c09_raises.py", "pairs": now}
json.dump(out, open(os.path.join(VERIF, "tables", "c09_pair_raises.json"), "w"), indent=1, sort_keys=True)
print(len(now), "pairs frozen")
