"""Tiny positive examples analysed on every run (DESIGN 8): a rule whose expected
violation count on the real tree is zero must still fire on its canary."""
from __future__ import annotations

from .report import Report

REGISTRY: dict = {}


def canary(prop: str):
    def deco(fn):
        REGISTRY.setdefault(prop, []).append(fn)
        return fn

    return deco


def run_for(prop: str, rep: Report) -> None:
    for fn in REGISTRY.get(prop, []):
        msg = fn()
        if msg:
            rep.error(f"canary {fn.__name__} did not behave: {msg}")
