"""C03 finding 4: estimate_added_delay() cannot predict the delay inserted by
add_eom_pulse(..., correct_phase_drift=True).

In EOM mode with detuning_off != 0, correcting the phase drift changes the
phase of the pulse that is scheduled, which triggers the phase-jump buffer.
estimate_added_delay() drops the phase-drift parameters ("phase_drift_params
does not impact delay between pulses"), so it predicts 0 ns while the add
inserts 172 ns.
"""
import inspect
import sys
import warnings

import numpy as np

from pulser import Pulse, Register, Sequence
from pulser.channels import Rydberg
from pulser.channels.eom import RydbergBeam, RydbergEOM
from pulser.devices import VirtualDevice

warnings.simplefilter("ignore")

device = VirtualDevice(
    name="ModDevice",
    dimensions=2,
    rydberg_level=70,
    channel_objects=(
        Rydberg.Global(
            1000,
            200,
            clock_period=1,
            min_duration=1,
            mod_bandwidth=4.0,
            eom_config=RydbergEOM(
                mod_bandwidth=30.0,
                limiting_beam=RydbergBeam.RED,
                max_limiting_amp=50 * 2 * np.pi,
                intermediate_detuning=800 * 2 * np.pi,
                controlled_beams=(RydbergBeam.BLUE,),
            ),
        ),
    ),
)

has_kwarg = "correct_phase_drift" in inspect.signature(
    Sequence.estimate_added_delay
).parameters

failed = False
for correct_phase_drift in (False, True):
    seq = Sequence(Register.square(2, spacing=6, prefix="q"), device)
    seq.declare_channel("a", "rydberg_global")
    seq.enable_eom_mode("a", 1.0, 0.0, optimal_detuning_off=0.0)
    block = seq._schedule["a"].eom_blocks[-1]
    assert float(block.detuning_off) != 0.0
    seq.add_eom_pulse("a", 100, 0.0)
    seq.delay(100, "a")
    pulse = Pulse.ConstantPulse(100, block.rabi_freq, block.detuning_on, 0.0)
    kwargs = (
        dict(correct_phase_drift=correct_phase_drift) if has_kwarg else {}
    )
    estimate = seq.estimate_added_delay(pulse, "a", "min-delay", **kwargs)
    t0 = seq.get_duration("a")
    seq.add_eom_pulse(
        "a",
        100,
        0.0,
        protocol="min-delay",
        correct_phase_drift=correct_phase_drift,
    )
    actual = seq._schedule["a"][-1].ti - t0
    ok = estimate == actual
    print(
        f"correct_phase_drift={correct_phase_drift}: estimated delay "
        f"{estimate} ns, inserted delay {actual} ns -> "
        f"{'ok' if ok else 'MISMATCH'}"
    )
    failed |= not ok

print("FAIL" if failed else "PASS")
sys.exit(1 if failed else 0)
