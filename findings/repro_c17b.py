"""C17: a VirtualDevice without DMM channels did not round-trip through its abstract representation.

BaseDevice._to_abstract_repr wrote "dmm_objects" only `if dmm_list:`; the decoder, finding no such key, falls back to
the dataclass default of the concrete class -- () for Device, but (DMM(),) for VirtualDevice.  A virtual device built
with dmm_objects=() was therefore decoded with one default DMM channel: not equal to the original, and with a DMM
the original does not have.
Found by rule TABLE `elided-only-when-equal-to-default` (pstatic/rules/c17.py), written after an independent agent's
remark.  Exits 1 when the defect is present.
"""
import sys

from pulser.channels import Rydberg
from pulser.devices import VirtualDevice
from pulser.json.abstract_repr.deserializer import deserialize_device

dev = VirtualDevice(
    name="no_dmm", dimensions=2, rydberg_level=60, channel_objects=(Rydberg.Global(None, None),), dmm_objects=(), supports_slm_mask=False
)
back = deserialize_device(dev.to_abstract_repr())
if back != dev or back.dmm_objects != ():
    print(f"DEFECT PRESENT: decoded device has dmm_objects of length {len(back.dmm_objects)} (original: 0); equal: {back == dev}")
    sys.exit(1)
print("ok: a virtual device without DMM channels round-trips")
