"""C05/C11: SequenceSamples.eigenbasis hands out the module-level EIGENSTATES list itself for a sequence that
addresses no basis; Hamiltonian._get_eigenbasis appends "x" to it when leakage is on, so one emulation with leakage
changes the state space of every later emulation in the process (exit 1 when the defect is present)."""
import sys
import numpy as np
import pulser
from pulser.channels.base_channel import EIGENSTATES
from pulser.noise_model import NoiseModel
from pulser.sampler import sampler
from pulser_simulation import QutipEmulator, SimConfig

reg = pulser.Register({"q0": (0, 0), "q1": (0, 6)})
seq = pulser.Sequence(reg, pulser.AnalogDevice)
seq.declare_channel("ryd", "rydberg_global")
seq.delay(100, "ryd")

before = list(EIGENSTATES["ground-rydberg"])
plain = QutipEmulator.from_sequence(seq)
dim_before = plain._hamiltonian.dim
leaky = QutipEmulator.from_sequence(
    seq,
    config=SimConfig.from_noise_model(
        NoiseModel(with_leakage=True, eff_noise_rates=(0.1,), eff_noise_opers=(np.diag([0.0, 0.0, 1.0]),))
    ),
)
after = list(EIGENSTATES["ground-rydberg"])
plain2 = QutipEmulator.from_sequence(seq)
dim_after = plain2._hamiltonian.dim
print("EIGENSTATES before:", before, "after:", after)
print("dimension of the same noiseless emulation before / after the leakage run:", dim_before, dim_after)
if before != after or dim_before != dim_after:
    print("FAIL: a leakage emulation of a sequence without pulses changed the global state table")
    sys.exit(1)
print("PASS")
