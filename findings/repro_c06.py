"""C06: XY sequence with an SLM mask and a second, empty global channel cannot be converted.
cd /tmp && PYTHONPATH=/repo/pulser-core:/repo/pulser-simulation /venv/bin/python -W ignore /verif/findings/repro_c06.py"""
from pulser import Pulse, Register, Sequence
from pulser.devices import MockDevice
from pulser.sampler import sample

reg = Register.from_coordinates([(0, 0), (6, 0)], prefix="q")
seq = Sequence(reg, MockDevice)
seq.declare_channel("a", "mw_global")
seq.declare_channel("b", "mw_global")
seq.config_slm_mask(["q0"])
seq.add(Pulse.ConstantPulse(100, 1.0, 0.0, 0.0), "a")
try:
    d = sample(seq).to_nested_dict()
    print("empty_xy_channel_with_slm_mask: holds")
except IndexError as e:
    print("empty_xy_channel_with_slm_mask: VIOLATED ( IndexError:", e, ")")
