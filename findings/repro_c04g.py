"""C04 (legacy encoder): a parametrized object created with keyword arguments only, e.g.
ConstantWaveform(duration=var, value=1.0), cannot be encoded by the legacy JSON encoder: ParamObj._to_dict looks at
args[0] to recognise parametrized classmethods without checking that there is a positional argument (IndexError),
while ParamObj._to_abstract_repr guards the same test with `self.args and ...`.  Exit 1 when the defect is present."""
import json
import sys
from pulser import Pulse, Register, Sequence
from pulser.devices import MockDevice
from pulser.json.coders import PulserDecoder, PulserEncoder
from pulser.waveforms import ConstantWaveform

reg = Register.square(2, spacing=6, prefix="q")
seq = Sequence(reg, MockDevice)
seq.declare_channel("ryd", "rydberg_global")
d = seq.declare_variable("d", dtype=int)
wf = ConstantWaveform(duration=d, value=1.0)
seq.add(Pulse.ConstantDetuning(wf, 0.0, 0.0), "ryd")
try:
    s = json.dumps(seq, cls=PulserEncoder)
except Exception as e:  # noqa: BLE001
    print("FAIL: legacy encoding raised", type(e).__name__, e)
    sys.exit(1)
back = json.loads(s, cls=PulserDecoder)
b1, b2 = seq.build(d=100), back.build(d=100)
same = b1._schedule["ryd"].slots[-1].type == b2._schedule["ryd"].slots[-1].type
print("legacy round trip builds the same pulse:", same)
sys.exit(0 if same else 1)
