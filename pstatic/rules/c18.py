"""C18 -- switching device or register preserves the program."""
from __future__ import annotations

import ast

from ..engine import CHS, SCHED, SEQ, Engine
from ..flow import flow_of
from ..guards import always_raises
from ..model import AnalysisError, FunctionInfo, dotted, norm
from ..report import Report
from .common import own_nodes

EXPLANATION = (
    "TABLE/FLOW: T_timing = the set of Channel/EOM dataclass fields whose value can influence the timeline, *derived* on every run: every attribute read on a Channel-typed expression reachable from the "
    "scheduler module (through properties such as rise_time/phase_jump_time/_eom_buffer_time, Channel methods, Pulse.fall_time, Waveform.modulation_buffers), minus fields read only inside rejection guards "
    "(limits can only make the replay raise, which the property allows). Rule: every field of T_timing is compared under strict=True in check_channels_match (directly, or through a compared property that reads it), "
    "or a whole-timeline comparison over all declared channels dominates the strict return; EOM fields must be covered by the EOM config comparison / the sample comparison of EOM channels. "
    "OWN: switch_device and switch_register build the new sequence only by replaying the recorded calls on a fresh Sequence (no direct write to schedule regions). "
    "NOT decided: equality of the resulting samples (runtime)."
)
ASSUMPTIONS = ["attribute reads are attributed to Channel fields through declared types; reflection (getattr with a computed name) in the strict comparison is resolved from the literal list it iterates"]

CH = "pulser.channels.base_channel.Channel"
EOMC = "pulser.channels.eom.BaseEOM"


def _is_limit_context(parents: dict, node: ast.AST) -> bool:
    """Read occurs only to decide a rejection (`if ...: raise`) or a None test."""
    p = parents.get(id(node))
    child = node
    while p is not None:
        if isinstance(p, ast.Compare):
            ops = [type(o).__name__ for o in p.ops]
            if all(o in ("Is", "IsNot") for o in ops):
                return True
        if isinstance(p, ast.If) and p.test is child or (isinstance(p, ast.If) and _within(p.test, node)):
            return always_raises(p.body)
        if isinstance(p, ast.Raise):
            return True  # used to build the error message
        if isinstance(p, (ast.stmt,)):
            return False
        child = p
        p = parents.get(id(p))
    return False


def _within(root: ast.AST, node: ast.AST) -> bool:
    return any(x is node for x in ast.walk(root))


def timing_fields(E: Engine) -> tuple[dict, list]:
    """field -> [where read], derived by a worklist from the scheduler module."""
    P = E.P
    ch = P.cls(CH)
    eom = P.cls(EOMC)
    ch_classes = {c.qualname for c in [ch] + P.subclasses(ch)}
    eom_classes = {c.qualname for c in [eom] + P.subclasses(eom)}
    fields_ch = {n for c in [ch] + P.subclasses(ch) for n in {f.name for _k, f in P.dataclass_fields(c)}}
    fields_eom = {n for c in [eom] + P.subclasses(eom) for n in {f.name for _k, f in P.dataclass_fields(c)}}
    start = [f for f in P.all_functions() if f.module.name == "pulser.sequence._schedule" and f.kind != "overload"]
    # sampling helpers are not part of scheduling
    start = [f for f in start if f.name not in ("get_samples",)]
    work = list(start)
    seen = set()
    out: dict[str, list] = {}
    visited = []
    while work:
        f = work.pop()
        if f.qualname in seen:
            continue
        seen.add(f.qualname)
        visited.append(f.short)
        fl = flow_of(E.R, f)
        ctx = fl.ctx
        parents: dict[int, ast.AST] = {}
        for n in ast.walk(f.node):
            for c in ast.iter_child_nodes(n):
                parents[id(c)] = n
        for n in ast.walk(f.node):
            if isinstance(n, ast.Attribute) and isinstance(n.ctx, ast.Load):
                bt = E.R.type_of(n.value, ctx)
                quals = {a[1] for a in bt if a[0] == "inst"}
                is_ch = bool(quals & ch_classes)
                is_eom = bool(quals & eom_classes)
                if not (is_ch or is_eom):
                    continue
                flds = fields_ch if is_ch else fields_eom
                prefix = "" if is_ch else "eom_config."
                if n.attr in flds:
                    if n.attr == "eom_config":
                        continue
                    if _is_limit_context(parents, n):
                        continue
                    out.setdefault(prefix + n.attr, []).append(f"{f.short}:{n.lineno}")
                else:
                    for q in sorted(quals & (ch_classes | eom_classes)):
                        for g in P.lookup_method_with_overrides(P.classes[q], n.attr):
                            if g.qualname not in seen and g.name not in ("validate_pulse", "__post_init__", "__str__", "__repr__", "_to_dict", "_to_abstract_repr", "modulate", "apply_modulation"):
                                work.append(g)
            if isinstance(n, ast.Call):
                # a Channel passed as an argument (Pulse.fall_time(channel_obj, ...))
                passes = False
                for a in list(n.args) + [k.value for k in n.keywords]:
                    t = E.R.type_of(a, ctx)
                    if {x[1] for x in t if x[0] == "inst"} & ch_classes:
                        passes = True
                if passes:
                    cs, _st = E.R.callees(n, ctx)
                    for c, _m in cs:
                        g = c.innermost()
                        if g.qualname not in seen and g.module.name.startswith(("pulser.pulse", "pulser.waveforms", "pulser.channels")) and g.name not in ("validate_pulse", "modulate", "apply_modulation"):
                            work.append(g)
    return out, visited


def _fields_read_by(E: Engine, cls_qual: str, attr: str, _seen: set | None = None) -> set:
    """Fields read (transitively) by a property/method ``attr`` of the class; the attr itself if it is a field."""
    P = E.P
    c = P.cls(cls_qual)
    _seen = _seen or set()
    if attr in _seen:
        return set()
    _seen.add(attr)
    if P.lookup_field(c, attr):
        return {attr}
    out = set()
    for g in P.lookup_method(c, attr):
        sn = g.params[0] if g.params else "self"
        for n in ast.walk(g.node):
            if isinstance(n, ast.Attribute) and isinstance(n.value, ast.Name) and n.value.id == sn:
                out |= _fields_read_by(E, cls_qual, n.attr, _seen)
            if isinstance(n, ast.Attribute) and isinstance(n.value, ast.Attribute) and norm(n.value) == f"{sn}.eom_config":
                out.add("eom_config." + n.attr)
            if isinstance(n, ast.Attribute) and isinstance(n.value, ast.Call) and "eom_config" in norm(n.value):
                out.add("eom_config." + n.attr)
    return out


def SEQ_METHODS(E: Engine) -> set:
    return set(E.P.cls(SEQ).methods)


def run(E: Engine, rep: Report, tier: str) -> dict:
    P = E.P
    timing, visited = timing_fields(E)
    sw = E.fn("pulser.sequence.helpers._switch_device.switch_device")
    ccm = sw.nested.get("check_channels_match")
    bsm = sw.nested.get("build_sequence_from_matching")
    if ccm is None or bsm is None:
        raise AnalysisError("anchor: check_channels_match / build_sequence_from_matching not found")
    # ------------------------------------------ fields compared under strict
    compared: set[str] = set()
    lists = {}
    for n in ast.walk(ccm.node):
        if isinstance(n, ast.Assign) and isinstance(n.targets[0], ast.Name) and isinstance(n.value, ast.List):
            lists[n.targets[0].id] = [e.value for e in n.value.elts if isinstance(e, ast.Constant)]
        if isinstance(n, ast.Call) and isinstance(n.func, ast.Attribute) and n.func.attr == "append" and isinstance(n.func.value, ast.Name) and n.func.value.id in lists and n.args and isinstance(n.args[0], ast.Constant):
            lists[n.func.value.id].append(n.args[0].value)
    # a conditionally compared parameter must be compared whenever it matters on EITHER device:
    # the condition has to be symmetric in the old and the new channel object
    from ..absval import abstractor as _abs

    abm = _abs(E.flow(ccm))
    for n in ast.walk(ccm.node):
        if isinstance(n, ast.Call) and isinstance(n.func, ast.Attribute) and n.func.attr == "append" and isinstance(n.func.value, ast.Name) and n.func.value.id in lists and n.args and isinstance(n.args[0], ast.Constant):
            # innermost `if` whose body holds this append
            holder = None
            for cand in ast.walk(ccm.node):
                if isinstance(cand, ast.If) and any(x is n for b in cand.body for x in ast.walk(b)):
                    if holder is None or any(x is cand for x in ast.walk(holder)):
                        holder = cand
            args_seen = set()
            if holder is not None:
                for c in ast.walk(holder.test):
                    if isinstance(c, ast.Call):
                        for a in c.args:
                            if isinstance(a, ast.Name) and a.id.endswith("_ch_obj"):
                                args_seen.add(a.id)
                    if isinstance(c, ast.Attribute) and isinstance(c.value, ast.Name) and c.value.id.endswith("_ch_obj"):
                        args_seen.add(c.value.id)
            cond_on_channel = bool(args_seen)
            if cond_on_channel:
                rep.check({"old_ch_obj", "new_ch_obj"} <= args_seen, "TABLE", f"strict-compare|{n.args[0].value}|condition-symmetric", f"'{n.args[0].value}' is compared whenever the condition holds for the old OR the new channel",
                          f"'{n.args[0].value}' is only compared under a condition on {sorted(args_seen)}: when the condition holds for the other device only, the parameter differs unnoticed and the timeline changes", E.where(ccm, n))
    loop_lists = set()
    for n in ast.walk(ccm.node):
        if isinstance(n, ast.For) and isinstance(n.iter, ast.Name) and n.iter.id in lists:
            # for p in L: if getattr(new, p) != getattr(old, p): return <strict error>
            src = norm(n)
            if "getattr" in src and "!=" in src:
                loop_lists.add(n.iter.id)
    for L in loop_lists:
        compared |= set(lists[L])
    # direct comparisons  new_ch_obj.X != old_ch_obj.X  (incl. eom_config.mod_bandwidth)
    eom_whole = False
    for n in ast.walk(ccm.node):
        if isinstance(n, ast.Compare) and len(n.ops) == 1 and isinstance(n.ops[0], (ast.NotEq, ast.Eq)):
            l, r = norm(n.left), norm(n.comparators[0])
            for side in (l, r):
                if "eom_config" in side and side.endswith(".mod_bandwidth"):
                    compared.add("eom_config.mod_bandwidth")
            if "new_eom_config" in (l, r) and "old_eom_config" in (l, r):
                eom_whole = True
            # old_ch_obj.X == new_ch_obj.X  (type / basis / addressing match)
            for a, b in ((n.left, n.comparators[0]), (n.comparators[0], n.left)):
                if isinstance(a, ast.Attribute) and isinstance(b, ast.Attribute) and a.attr == b.attr and norm(a.value) == "old_ch_obj" and norm(b.value) == "new_ch_obj":
                    compared.add(a.attr)
    covered = set()
    for a in compared:
        if a.startswith("eom_config."):
            covered.add(a)
        else:
            covered |= _fields_read_by(E, CH, a)
    # ------------------------------------ whole-timeline comparison (strict)
    timeline_cmp = False
    eom_sample_cmp = False
    for n in ast.walk(bsm.node):
        if isinstance(n, ast.If) and norm(n.test) == "strict":
            for loop in ast.walk(n):
                if isinstance(loop, ast.For):
                    it = norm(loop.iter)
                    body_src = norm(loop)
                    raises = any(isinstance(x, ast.Raise) for x in ast.walk(loop))
                    if raises and ("seq._schedule" in it or "seq.declared_channels" in it) and ".slots" in body_src and ("!=" in body_src or "==" in body_src):
                        timeline_cmp = True
                    if raises and "active_eom_channels" in it and "get_samples" in body_src and all(q in body_src for q in (".amp", ".det", ".phase")):
                        eom_sample_cmp = True
    # the strict block must precede the return of the new sequence
    # ---------------------------------------------------------- verdicts
    where = E.where(ccm)
    for fld in sorted(timing):
        sites = timing[fld][:4]
        if fld.startswith("eom_config."):
            ok = eom_sample_cmp or eom_whole and fld in covered or fld in covered
            rep.check(ok and (eom_whole or eom_sample_cmp), "TABLE", f"timing-field|{fld}|covered-by-strict", f"read at {sites}; covered by the EOM configuration / EOM sample comparison",
                      f"EOM field {fld} influences the timeline (read at {sites}) but strict switching neither compares the EOM configurations nor the samples of EOM channels", where)
            continue
        ok = fld in covered or timeline_cmp
        rep.check(ok, "TABLE", f"timing-field|{fld}|covered-by-strict", f"read at {sites}; compared under strict" + (" (whole-timeline comparison)" if timeline_cmp and fld not in covered else ""),
                  f"channel field '{fld}' influences the timeline (read by the scheduler at {sites}) but strict=True neither compares it in check_channels_match (compared: {sorted(compared)}) nor compares the whole timeline of every channel: "
                  "switch_device(strict=True) can return a sequence with a different timeline", where)
    rep.floor("TABLE", 6)
    # expected members (sanity of the derivation itself)
    for must in ("mod_bandwidth", "clock_period", "min_duration"):
        if must not in timing:
            rep.error(f"T_timing derivation lost '{must}' (visited {len(visited)} functions): the derivation is broken")

    # the EOM checks cover every channel that was *ever* put in EOM mode (from the call log), not only those still in it
    aec = None
    for n in ast.walk(sw.node):
        if isinstance(n, ast.Assign) and isinstance(n.targets[0], ast.Name) and n.targets[0].id == "active_eom_channels":
            aec = n
    if aec is None:
        raise AnalysisError("anchor: active_eom_channels not found in switch_device")
    va = _abs(E.flow(sw)).av(aec.value)
    from .common import strip_prefixes as _sp

    roots = _sp(va.roots)
    ok = any(r.startswith("seq._calls") for r in roots) and any(r.startswith("seq._to_build_calls") for r in roots) and "enable_eom_mode" in norm(aec.value)
    rep.check(ok, "TABLE", "switch_device|eom-channels-from-call-log", "EOM channels = channels of every recorded enable_eom_mode call (regular and to-build)", f"the list of EOM channels no longer derives from all recorded enable_eom_mode calls ({va.show()[:160]}): a channel whose EOM block is already closed would escape the EOM configuration and sample comparison", E.where(sw, aec))
    # --------------------------------------------------------------- OWN
    E.prepare_summaries()
    for f, label in ((sw, "switch_device"), (E.method(SEQ, "switch_register"), "Sequence.switch_register")):
        c = E.R.effective(f)
        w, _r = E.S.of(c)
        sw_w = sorted({(x.owner.split(".")[-1], x.field, x.origin) for x in E.state_writes(w) if x.root != "fresh" and not (x.field == "_variables")})
        direct = []
        for g in [f] + list(f.nested.values()):
            fl = E.flow(g)
            for _n, _i, e in fl.all_events():
                if e.kind == "write" and any(E.is_state_region(o) for o, _f in e.places) and not all(fld in ("_variables",) for _o, fld in e.places):
                    direct.append(e.text)
        rep.check(not direct, "OWN", f"{label}|no-direct-schedule-write", "the new sequence is built only through the public API (replay of recorded calls); only `_variables` is copied", f"{label} writes sequence state directly: {direct}", E.where(f))
        # the replay uses every recorded call
        src = norm(f.node)
        rep.check("_calls[1:] + " in src.replace("seq.", "self.").replace("self._calls[1:] + self._to_build_calls", "_calls[1:] + X") or "._calls[1:] + " in src, "OWN", f"{label}|replays-all-calls", "iterates over _calls[1:] + _to_build_calls", f"{label} no longer replays the whole call log", E.where(f))
        has_replay = any(e.kind == "reflective" for g in [f] + list(f.nested.values()) for _n, _i, e in E.flow(g).all_events())
        rep.check(has_replay, "OWN", f"{label}|uses-getattr-replay", "calls getattr(new_seq, call.name)(*args, **kwargs)", f"{label} no longer replays calls through the public methods", E.where(f))
    rep.floor("OWN", 6)

    # -------------------------------------------------------------- ARGS
    # The replay rewrites recorded calls: positional indexes into them must be safe (pstatic/callargs.py)
    from .. import callargs

    scopes = [g for top in (sw, E.method(SEQ, "switch_register")) for g in [top] + list(top.nested.values())]
    extra = callargs.check(E, rep, scopes, "ARGS")
    rep.floor("ARGS", 4)
    return {"timing_fields": {k: v[:3] for k, v in sorted(timing.items())}, "compared_under_strict": sorted(compared), "fields_covered": sorted(covered), "whole_timeline_comparison": timeline_cmp, "eom_sample_comparison": eom_sample_cmp, "functions_analysed": len(visited), **extra}
