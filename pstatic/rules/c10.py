"""C10 -- phase-jump time and retarget intervals are honoured."""
from __future__ import annotations

import ast

from ..absval import abstractor
from ..engine import CHS, SCHED, SEQ, Engine
from ..model import AnalysisError, dotted, norm
from ..report import Report
from .common import av, calls_to, own_nodes, returns

EXPLANATION = (
    "FLOW: in make_next_pulse_slot the inserted delay's provenance contains the channel's phase_jump_time, 2*rise_time*in_eom_mode (combined by max), the last pulse's fall_time, minus the time already "
    "elapsed since that pulse (t0 - last_pulse_slot.tf); the buffer is combined by max with the conflict delay, is computed only under protocol != 'no-delay' and only when the phases differ "
    "(last_pulse.phase != corrected phase); detuned delays are skipped when looking for the last pulse. In add_target: wait_for_fall precedes reading the last slot; the same-target early return precedes any "
    "append; the retarget duration has provenance {min_retarget_interval, last_target(), fixed_retarget_t} combined by clip/max and passes adjust_duration when non-zero. GUARD: Channel.phase_jump_time = "
    "custom_phase_jump_time if it is not None else 2*rise_time; rise_time derives from mod_bandwidth. NOT decided: the inequalities themselves (numeric)."
)
ASSUMPTIONS = ["def-use provenance inside one function"]

CH = "pulser.channels.base_channel.Channel"


def run(E: Engine, rep: Report, tier: str) -> dict:
    mn = E.method(SCHED, "make_next_pulse_slot")
    ab = abstractor(E.flow(mn))
    # phase_jump_buffer assignment (the non-zero one)
    buf = None
    for n in own_nodes(mn):
        if isinstance(n, ast.Assign) and isinstance(n.targets[0], ast.Name) and n.targets[0].id == "phase_jump_buffer" and not isinstance(n.value, ast.Constant):
            buf = n
    if buf is None:
        raise AnalysisError("anchor: phase_jump_buffer computation not found in make_next_pulse_slot")
    v = ab.av(buf.value)
    where = E.where(mn, buf)
    rep.check(any(r.endswith(".phase_jump_time") for r in v.roots), "FLOW", "phase_jump_buffer|phase_jump_time", "phase-jump time is part of the buffer", "the buffer between pulses of different phase no longer includes the channel's phase_jump_time", where)
    rep.check(any(r.endswith(".rise_time") for r in v.roots) and any("in_eom_mode()" in r for r in v.roots) and "Mult" in v.tags and "const:2" in v.roots and "max" in v.tags, "FLOW", "phase_jump_buffer|2*rise_time-in-eom", "max(phase_jump_time, 2*rise_time*in_eom_mode)", "in EOM mode the buffer no longer enforces at least 2*rise_time", where)
    rep.check(any(r.endswith(".fall_time()") for r in v.roots) and "Add" in v.tags, "FLOW", "phase_jump_buffer|plus-fall_time", "the last pulse's fall time is added", "the buffer no longer adds the last pulse's fall time", where)
    rep.check("Sub" in v.tags and any(r.endswith("last_pulse_slot().tf") for r in v.roots) and "self.tf" in v.roots, "FLOW", "phase_jump_buffer|minus-elapsed", "minus the time already elapsed since the last pulse (t0 - last_pulse_slot.tf)", "the time already elapsed since the last pulse is no longer subtracted from the buffer", where)
    # the elapsed time is measured from the channel's current end t0 (= last.tf), not from a later, already delayed, time
    if isinstance(buf.value, ast.BinOp) and isinstance(buf.value.op, ast.Sub):
        el = ab.av(buf.value.right)
        from .common import strip_prefixes as _sp

        er = _sp(el.roots)
        polluted = sorted(r for r in er if "phase_barrier_ts" in r or "_find_add_delay" in r or r in ("protocol",)) + (["max"] if "max" in el.tags else [])
        rep.check(not polluted and "self.tf" in er and any(r.endswith("last_pulse_slot().tf") for r in er), "FLOW", "phase_jump_buffer|elapsed-from-channel-end", "elapsed = t0 - last_pulse_slot.tf with t0 the channel's current end",
                  f"the elapsed time subtracted from the buffer is not measured from the channel's current end: it also depends on {polluted} -- time the pulse still has to wait for other reasons would be deducted from the phase-jump buffer", where)
    # structure: (max(...) + fall) - (t0 - last_pulse_slot.tf)
    top = buf.value
    ok = isinstance(top, ast.BinOp) and isinstance(top.op, ast.Sub) and isinstance(top.left, ast.BinOp) and isinstance(top.left.op, ast.Add)
    rep.check(ok, "FLOW", "phase_jump_buffer|shape", "(max(jump, 2*rise*eom) + fall_time) - elapsed", f"the buffer expression changed shape: {norm(top)[:120]}", where)
    # conditions
    dnf = ab.enclosing_conditions(buf)
    lits = [l for c in dnf for l in c]
    has_nodelay = any(l.atom is not None and l.atom.rel == "NotEq" and "protocol" in l.atom.lhs.roots and "const:'no-delay'" in l.atom.rhs.roots for l in lits)
    has_phase = any(l.atom is not None and l.atom.rel == "NotEq" and any(r.endswith(".phase") for r in l.atom.lhs.roots) for l in lits)
    rep.check(has_nodelay, "FLOW", "phase_jump_buffer|only-if-not-no-delay", "computed under protocol != 'no-delay'", "the phase-jump buffer is no longer restricted to protocols other than 'no-delay' (or the guard disappeared)", where)
    rep.check(has_phase, "FLOW", "phase_jump_buffer|only-if-phase-differs", "computed only when the phase changes", "the phase-jump buffer is no longer conditioned on a phase change", where)
    # delay_duration = max(current_max_t - t0, phase_jump_buffer)
    ok = False
    for n in own_nodes(mn):
        if isinstance(n, ast.Assign) and isinstance(n.targets[0], ast.Name) and n.targets[0].id == "delay_duration" and isinstance(n.value, ast.Call) and (dotted(n.value.func) or "") == "max":
            args = [norm(a) for a in n.value.args]
            ok = "phase_jump_buffer" in args and any("current_max_t" in a and "t0" in a for a in args)
    rep.check(ok, "FLOW", "make_next_pulse_slot|delay=max(conflict,buffer)", "delay = max(conflict delay, phase-jump buffer)", "the inserted delay is no longer the max of the conflict delay and the phase-jump buffer", E.where(mn))
    # last pulse lookup ignores detuned delays
    lps = E.method(CHS, "last_pulse_slot")
    cs = calls_to(E, mn, lps)
    ok = bool(cs) and all(any(k.arg == "ignore_detuned_delay" and isinstance(k.value, ast.Constant) and k.value.value is True for k in e.node.keywords) for _n, e in cs)
    rep.check(ok, "FLOW", "make_next_pulse_slot|last-pulse-ignores-detuned-delays", "last_pulse_slot(ignore_detuned_delay=True)", "detuned delays are no longer skipped when looking for the last pulse", E.where(mn))
    # --------------------------------------------------------- add_target
    at = E.method(SCHED, "add_target")
    fl = E.flow(at)
    wf = E.method(SCHED, "wait_for_fall")
    order = [(node.id, i, e) for node, i, e in fl.all_events()]
    i_wait = next((k for k, (_a, _b, e) in enumerate(order) if e.kind == "call" and any(c.innermost() is wf for c, _m in e.callees)), None)
    i_last = next((k for k, (_a, _b, e) in enumerate(order) if e.kind == "call" and e.text.endswith("[-1]")), None)
    i_app = next((k for k, (_a, _b, e) in enumerate(order) if e.kind == "write" and e.op == "call:append"), None)
    rep.check(i_wait is not None and i_last is not None and i_wait < i_last, "FLOW", "add_target|wait_for_fall-before-reading-last", "the previous pulse ramps down before the retarget starts", "add_target reads the last slot before waiting for the fall time: the retarget could start while the pulse is still ramping down", E.where(at))
    # same-target early return before any append
    ret_ok = False
    for n in own_nodes(at):
        if isinstance(n, ast.If) and isinstance(n.test, ast.Compare) and "targets" in norm(n.test.left) and isinstance(n.test.ops[0], ast.Eq) and "qubits_set" in norm(n.test.comparators[0]) and isinstance(n.body[0], ast.Return):
            app_lines = [e.node.lineno for _a, _b, e in order if e.kind == "write" and e.op == "call:append"]
            ret_ok = all(n.lineno < l for l in app_lines)
    rep.check(ret_ok, "FLOW", "add_target|same-target-returns-before-append", "retargeting to the same atoms inserts nothing", "the same-target early return is gone or no longer precedes the append", E.where(at))
    aba = abstractor(fl)
    for n in own_nodes(at):
        if isinstance(n, ast.Call) and (dotted(n.func) or "") == "_TimeSlot" and len(n.args) >= 3:
            v = aba.av(n.args[2])
            rep.check(any(r.endswith(".min_retarget_interval") for r in v.roots) and any(r.endswith(".last_target()") for r in v.roots) and "clip" in v.tags, "FLOW", "add_target|interval-since-last-target", "delta = clip(min_retarget_interval - (ti - last_target()), 0, ...)", "the retarget duration no longer accounts for the minimum retarget interval since the last target", E.where(at, n))
            rep.check(any(r.endswith(".fixed_retarget_t") for r in v.roots) and "max" in v.tags, "FLOW", "add_target|at-least-fixed_retarget_t", "delta = max(delta, fixed_retarget_t)", "the retarget no longer lasts at least fixed_retarget_t", E.where(at, n))
            rep.check(any(r.endswith(".adjust_duration()") for r in v.roots), "FLOW", "add_target|adjusted", "non-zero retarget passes adjust_duration", "the retarget duration no longer passes adjust_duration", E.where(at, n))
    ok = False
    for n in own_nodes(at):
        if isinstance(n, ast.Assign) and norm(n.targets[0]) == "elapsed":
            ok = norm(n.value).replace(" ", "") in ("ti-self[channel].last_target()",)
    rep.check(ok, "FLOW", "add_target|elapsed=ti-last_target", "elapsed measured from the end of the previous target instruction", "elapsed is no longer ti - last_target()", E.where(at))
    rep.floor("FLOW", 14)
    # the look-back of the at-rest duration covers the longest possible ramp-down (2*rise_time), like the conflict scan does
    _lookback(E, rep)
    # -------------------------------------------------------------- GUARD
    pj = [f for f in E.cls(CH).methods["phase_jump_time"] if f.kind == "property"][0]
    ok = False
    for r in returns(pj):
        for n in ast.walk(r.value):
            if isinstance(n, ast.IfExp):
                t = norm(n.test).replace(" ", "")
                if t == "self.custom_phase_jump_timeisNone":
                    ok = "rise_time" in norm(n.body) and "2" in norm(n.body) and norm(n.orelse) == "self.custom_phase_jump_time"
                elif t == "self.custom_phase_jump_timeisnotNone":
                    ok = "rise_time" in norm(n.orelse) and norm(n.body) == "self.custom_phase_jump_time"
    rep.check(ok, "GUARD", "Channel.phase_jump_time|custom-else-2*rise_time", "custom_phase_jump_time if defined (0 included) else 2*rise_time", "phase_jump_time is no longer `custom if custom is not None else 2*rise_time` (a custom value of 0 must be honoured)", E.where(pj))
    rt = [f for f in E.cls(CH).methods["rise_time"] if f.kind == "property"][0]
    vs = [av(E, rt, r.value) for r in returns(rt)]
    rep.check(any("self.mod_bandwidth" in v.roots and "Div" in v.tags for v in vs), "GUARD", "Channel.rise_time|from-mod_bandwidth", "rise time = MODBW_TO_TR / mod_bandwidth", "rise_time no longer derives from mod_bandwidth", E.where(rt))
    rep.floor("GUARD", 4)
    return {}


def _lookback(E: Engine, rep: Report) -> None:
    from .common import linear_factor

    gd = E.method(CHS, "get_duration")
    fad = E.method(SCHED, "_find_add_delay")
    facs = {}
    for f, label in ((gd, "get_duration"), (fad, "_find_add_delay")):
        for n in ast.walk(f.node):
            if isinstance(n, ast.Compare):
                for side in [n.left] + list(n.comparators):
                    for sub in ast.walk(side):
                        if isinstance(sub, ast.BinOp) and isinstance(sub.op, ast.Mult) and "rise_time" in norm(sub):
                            k, rest = linear_factor(sub)
                            if len(rest) == 1 and rest[0].endswith("rise_time"):
                                facs.setdefault(label, set()).add(k)
                        elif isinstance(sub, ast.Attribute) and sub.attr == "rise_time" and not any(isinstance(p, ast.BinOp) and isinstance(p.op, ast.Mult) and any(x is sub for x in ast.walk(p)) for p in ast.walk(side)):
                            facs.setdefault(label, set()).add(1)
    rep.check(facs.get("get_duration") == {2}, "GUARD", "_ChannelSchedule.get_duration|lookback=2*rise_time", "the backwards scan for a pending fall time stops only after 2*rise_time of idle time (the longest possible fall time)",
              f"the at-rest look-back threshold is {sorted(facs.get('get_duration', []))} x rise_time: a pulse whose fall time (up to 2*rise_time) is still pending would be missed behind short delays", E.where(gd))
    rep.check(facs.get("_find_add_delay") == {2}, "GUARD", "_Schedule._find_add_delay|lookback=2*rise_time", "the conflict scan looks 2*rise_time behind non-pulse slots",
              f"the conflict scan threshold is {sorted(facs.get('_find_add_delay', []))} x rise_time", E.where(fad))
