"""C07 -- phase references (virtual-Z) are additive and applied to every pulse."""
from __future__ import annotations

import ast

from ..absval import abstractor
from ..engine import SCHED, SEQ, Engine
from ..model import AnalysisError, dotted, norm
from ..report import Report
from .common import arg_of, av, calls_to, one_call, own_nodes, returns

EXPLANATION = (
    "FLOW/PASS over the phase-reference bookkeeping: _PhaseTracker._format is `phi % (2*pi)` and is applied at every write of the phase list (constructor and __setitem__); increment_phase writes "
    "last_phase + phi at last_used; in Sequence._add the phase reference is read from last_phase of the targets and reaches the scheduled pulse additively (pulse.phase + phase_ref in "
    "_validate_and_adjust_pulse, whose result is the scheduled pulse); the phase barriers are read from last_time of the targets and handed to the scheduler; after the pulse is added, update_last_used(new slot end) "
    "runs for each target and _phase_shift(post_phase_shift [- drift], *targets, basis=basis) is applied to the same targets and basis; _phase_shift increments every target id; multi-target pulses/targets with "
    "different references are rejected; Pulse.__init__ reduces phase and post_phase_shift modulo 2*pi. NOT decided: the emulated z-rotation (runtime physics)."
)
ASSUMPTIONS = ["def-use provenance inside one function plus one call level"]

BR = "pulser.sequence._basis_ref"


def _is_two_pi(e: ast.AST) -> bool:
    s = norm(e).replace(" ", "")
    return s in ("2*np.pi", "np.pi*2", "2*numpy.pi", "2*math.pi", "2*pi", "(2*np.pi)")


def run(E: Engine, rep: Report, tier: str) -> dict:
    pt = E.cls(BR + "._PhaseTracker")
    qr = E.cls(BR + "._QubitRef")
    fmt = E.method(BR + "._PhaseTracker", "_format")
    # ------------------------------------------------------------ _format
    ok = False
    for r in returns(fmt):
        v = r.value
        if isinstance(v, ast.BinOp) and isinstance(v.op, ast.Mod) and _is_two_pi(v.right) and norm(v.left) == fmt.params[1]:
            ok = True
    rep.check(ok, "FLOW", "_PhaseTracker._format|mod-2pi", "phase stored modulo 2*pi", "_PhaseTracker._format is no longer `phi % (2*pi)`", E.where(fmt))
    # every write of _phases stores a formatted value
    n_w = 0
    for mname in ("__init__", "__setitem__"):
        f = E.method(BR + "._PhaseTracker", mname)
        for n in own_nodes(f):
            val = None
            if isinstance(n, (ast.Assign, ast.AnnAssign)):
                t = n.targets[0] if isinstance(n, ast.Assign) else n.target
                if "_phases" in norm(t):
                    val = n.value.elts[0] if isinstance(n.value, ast.List) and n.value.elts else n.value
            if isinstance(n, ast.Call) and isinstance(n.func, ast.Attribute) and n.func.attr in ("insert", "append") and "_phases" in norm(n.func.value):
                val = n.args[-1]
            if val is None:
                continue
            n_w += 1
            v = av(E, f, val)
            rep.check(any(r.endswith("_format()") for r in v.roots), "FLOW", f"_PhaseTracker.{mname}|stores-formatted|{n_w}", "stored phase passed through _format", f"`{norm(n)[:70]}` stores a phase that did not pass _format (mod 2*pi)", E.where(f, n))
    if n_w < 3:
        rep.error(f"only {n_w} writes of _PhaseTracker._phases found (expected 3)")
    # times and phases are inserted at the same index
    si = E.method(BR + "._PhaseTracker", "__setitem__")
    ins = [n for n in own_nodes(si) if isinstance(n, ast.Call) and isinstance(n.func, ast.Attribute) and n.func.attr == "insert"]
    rep.check(len(ins) == 2 and norm(ins[0].args[0]) == norm(ins[1].args[0]), "FLOW", "_PhaseTracker.__setitem__|paired-insert", "times and phases inserted at the same index", "times and phases are no longer inserted at the same index", E.where(si))
    # increment_phase
    inc = E.method(BR + "._QubitRef", "increment_phase")
    ok = False
    for n in own_nodes(inc):
        if isinstance(n, ast.Assign) and isinstance(n.targets[0], ast.Subscript):
            t = n.targets[0]
            v = av(E, inc, n.value)
            ok = norm(t.value) == "self.phase" and norm(t.slice) == "self.last_used" and "Add" in v.tags and "self.phase.last_phase" in v.roots and "phi" in v.roots and not ({"Sub", "Mult"} & v.tags)
    rep.check(ok, "FLOW", "_QubitRef.increment_phase|additive-at-last-used", "phase[last_used] = last_phase + phi", "increment_phase is no longer `self.phase[self.last_used] = self.phase.last_phase + phi`", E.where(inc))
    ulu = E.method(BR + "._QubitRef", "update_last_used")
    src = norm(ulu.node)
    rep.check("max(self.last_used, new_t)" in src or "max(new_t, self.last_used)" in src, "FLOW", "_QubitRef.update_last_used|monotone", "last_used = max(last_used, new_t)", "update_last_used is no longer monotone (max)", E.where(ulu))
    lp = [f for f in pt.methods.get("last_phase", [])][0]
    lt = [f for f in pt.methods.get("last_time", [])][0]
    rep.check(norm(returns(lp)[0].value) == "self._phases[-1]" and norm(returns(lt)[0].value) == "self._times[-1]", "FLOW", "_PhaseTracker|last-entries", "last_phase/last_time read the last entries", "last_phase/last_time no longer read the last entry", E.where(lp))

    # ------------------------------------------------------ Sequence._add
    add = E.method(SEQ, "_add")
    vadj = E.method(SEQ, "_validate_and_adjust_pulse")
    ap = E.method(SCHED, "add_pulse")
    ps = E.method(SEQ, "_phase_shift")
    c_v = [e.node for _n, e in calls_to(E, add, vadj) if len(e.node.args) >= 3 or any(k.arg == "phase_ref" for k in e.node.keywords)]
    if not c_v:
        rep.violation("FLOW", "Sequence._add|phase_ref-passed", "_add no longer passes a phase reference to _validate_and_adjust_pulse", E.where(add))
    else:
        pr = arg_of(c_v[0], vadj, "phase_ref")
        v = av(E, add, pr)
        rep.check(any(r.endswith(".phase.last_phase.pop()") or r.endswith(".phase.last_phase") for r in v.roots) and any("_last().targets" in r for r in v.roots), "FLOW", "Sequence._add|phase_ref-from-targets-last_phase", "phase_ref = last_phase of the targets of the channel's last slot", f"phase_ref provenance changed: {v.show()[:200]}", E.where(add, c_v[0]))
    # inside _validate_and_adjust_pulse: returned pulse phase = pulse.phase + phase_ref
    ok = False
    for r in returns(vadj):
        if isinstance(r.value, ast.Call) and len(r.value.args) >= 3:
            v = av(E, vadj, r.value.args[2])
            ok = "Add" in v.tags and "pulse.phase" in v.roots and "phase_ref" in v.roots and "Sub" not in v.tags
    rep.check(ok, "FLOW", "_validate_and_adjust_pulse|phase=pulse.phase+phase_ref", "scheduled phase = programmed phase + reference", "the returned pulse's phase is no longer pulse.phase + phase_ref", E.where(vadj))
    c_ap = one_call(E, add, ap)
    pb = arg_of(c_ap, ap, "phase_barrier_ts")
    v = av(E, add, pb)
    rep.check(any(r.endswith(".phase.last_time") for r in v.roots) and any("_last().targets" in r for r in v.roots), "FLOW", "Sequence._add|barriers-from-targets-last_time", "phase barriers = last_time of the targets", f"phase barriers provenance changed: {v.show()[:200]}", E.where(add, c_ap))
    # same basis for ref and barriers and the post shift
    bases = set()
    for n in own_nodes(add):
        if isinstance(n, ast.Subscript) and norm(n.value) == "self._basis_ref":
            bases.add(norm(n.slice))
    rep.check(bases == {"basis"}, "FLOW", "Sequence._add|single-basis", "all phase bookkeeping indexes _basis_ref[basis] of the channel", f"_add indexes _basis_ref with {sorted(bases)}", E.where(add))
    # update_last_used(new slot tf) for qubit in last.targets, after add_pulse
    ok = False
    for n in own_nodes(add):
        if isinstance(n, ast.For) and norm(n.iter) == "last.targets":
            for s in ast.walk(n):
                if isinstance(s, ast.Call) and isinstance(s.func, ast.Attribute) and s.func.attr == "update_last_used":
                    v = av(E, add, s.args[0])
                    ok = any(r.endswith("_last().tf") for r in v.roots) and n.lineno > c_ap.lineno
    rep.check(ok, "FLOW", "Sequence._add|update_last_used(new-slot-end)", "each target's last_used is advanced to the new pulse's end", "last_used is no longer advanced to the end of the newly added pulse for each target", E.where(add))
    c_ps = calls_to(E, add, ps)
    ok = False
    for _n, e in c_ps:
        c = e.node
        v = av(E, add, c.args[0])
        tg = [a for a in c.args[1:] if isinstance(a, ast.Starred)]
        bs = next((k.value for k in c.keywords if k.arg == "basis"), None)
        ok = "pulse.post_phase_shift" in v.roots and len(tg) == 1 and norm(tg[0].value) == "last.targets" and bs is not None and norm(bs) == "basis"
    rep.check(ok, "FLOW", "Sequence._add|post_phase_shift-applied-to-targets", "_phase_shift(post_phase_shift [- drift], *last.targets, basis=basis)", "the post-phase-shift is no longer applied to the pulse's targets in the channel's basis", E.where(add))
    # _phase_shift increments every id
    ok = False
    for n in own_nodes(ps):
        if isinstance(n, ast.For) and norm(n.iter) == "target_ids":
            ok = any(isinstance(s, ast.Call) and isinstance(s.func, ast.Attribute) and s.func.attr == "increment_phase" and norm(s.args[0]) == "phi" for s in ast.walk(n))
    rep.check(ok, "FLOW", "Sequence._phase_shift|increments-every-target", "for qubit in target_ids: increment_phase(phi)", "_phase_shift no longer increments the phase of every target", E.where(ps))
    # multi-target guard
    for f, var in ((add, "ph_refs"), (E.method(SEQ, "_target"), "phase_refs")):
        ok = any(isinstance(n, ast.If) and norm(n.test).replace(" ", "") == f"len({var})!=1" and any(isinstance(x, ast.Raise) for x in n.body) for n in ast.walk(f.node))
        rep.check(ok, "GUARD", f"{f.short}|single-phase-reference", "targets with different phase references are rejected", f"{f.short} no longer rejects targets with different phase references", E.where(f))
    # Pulse.__init__ modulo
    pin = E.fn("pulser.pulse.Pulse.__init__")
    mods = [n for n in own_nodes(pin) if isinstance(n, ast.BinOp) and isinstance(n.op, ast.Mod) and _is_two_pi(n.right)]
    rep.check(len(mods) >= 2, "FLOW", "Pulse.__init__|phase-mod-2pi", "phase and post_phase_shift reduced modulo 2*pi", f"only {len(mods)} modulo-2*pi reductions in Pulse.__init__ (phase and post_phase_shift need one each)", E.where(pin))
    # the per-basis reference table is initialised once: every `_basis_ref[b] = {...}` is guarded by `b not in self._basis_ref`
    from ..absval import abstractor as _abs

    n_init = 0
    for f in E.cls(SEQ).methods.values():
        for g in f:
            abf = None
            for n in own_nodes(g):
                if isinstance(n, ast.Assign) and isinstance(n.targets[0], ast.Subscript) and norm(n.targets[0].value) == "self._basis_ref":
                    n_init += 1
                    abf = abf or _abs(E.flow(g))
                    key = norm(n.targets[0].slice)
                    dnf = abf.enclosing_conditions(n)
                    ok = all(any(l.atom is not None and l.atom.rel == "NotIn" and "self._basis_ref" in l.atom.rhs.roots and norm(n.targets[0].slice) in l.text for l in c) for c in dnf) and dnf != [[]]
                    rep.check(ok, "GUARD", f"{g.short}|basis-ref-initialised-once|{key}", "phase references of a basis are created only if the basis has none yet", f"`{norm(n)[:70]}` in {g.short} is not guarded by `{key} not in self._basis_ref`: declaring another channel on the same basis would reset every accumulated phase reference and barrier", E.where(g, n))
    if n_init < 2:
        rep.error(f"only {n_init} initialisations of _basis_ref found (expected 2)")
    # EOM drift bookkeeping: the drift window starts where the buffer starts --
    # after the fall time iff enable_eom waits for it (include_fall_time == not _skip_wait_for_fall)
    en = E.method(SCHED, "enable_eom")
    for mname in ("enable_eom_mode", "modify_eom_setpoint"):
        m = E.method(SEQ, mname)
        c_en = one_call(E, m, en)
        skip = next((k.value for k in c_en.keywords if k.arg == "_skip_wait_for_fall"), None)
        skips = isinstance(skip, ast.Constant) and skip.value is True
        flag = None
        for n in own_nodes(m):
            if isinstance(n, ast.Call) and (dotted(n.func) or "") == "_PhaseDriftParams":
                ti = next((k.value for k in n.keywords if k.arg == "ti"), None)
                if isinstance(ti, ast.Call) and isinstance(ti.func, ast.Attribute) and ti.func.attr == "get_duration":
                    kw = next((k.value for k in ti.keywords if k.arg == "include_fall_time"), None)
                    flag = bool(isinstance(kw, ast.Constant) and kw.value is True)
        rep.check(flag is not None and flag == (not skips), "FLOW", f"Sequence.{mname}|drift-window-starts-with-buffer", f"drift start uses include_fall_time={not skips} because enable_eom is called with _skip_wait_for_fall={skips}",
                  f"in {mname} the phase-drift window starts at get_duration(include_fall_time={flag}) while the buffer is added with _skip_wait_for_fall={skips}: the drift accumulated between the two instants is not corrected", E.where(m))
    rep.floor("FLOW", 16)
    rep.floor("GUARD", 4)
    return {"phase_writes": n_w}
