"""C02 - the pending fall time of a channel is dropped when a short pulse
is appended right behind a pulse that is still ramping down."""
import sys
import warnings

from pulser import Pulse, Register, Sequence
from pulser.devices import AnalogDevice

warnings.simplefilter("ignore")

reg = Register.square(2, spacing=6, prefix="q")
seq = Sequence(reg, AnalogDevice)
seq.declare_channel("ryd", "rydberg_global")
ch_obj = seq.declared_channels["ryd"]

long_pulse = Pulse.ConstantPulse(1000, 2.0, 0.0, 0.0)
seq.add(long_pulse, "ryd")
# End of the output of the long pulse (its fall time is 2 * rise_time)
long_pulse_rest = 1000 + long_pulse.fall_time(ch_obj)
before = seq.get_duration("ryd", include_fall_time=True)

# 16 ns of zero amplitude, glued to the long pulse
seq.add(Pulse.ConstantPulse(16, 0.0, 0.0, 0.0), "ryd", protocol="no-delay")
after = seq.get_duration("ryd", include_fall_time=True)

# What relies on it: a delay "at rest" must start once the channel is at rest
seq.delay(16, "ryd", at_rest=True)
at_rest_delay_start = seq._schedule["ryd"][-1].ti

print("long pulse ends at 1000, its output is at rest at", long_pulse_rest)
print("duration with fall time after the long pulse :", before)
print("duration with fall time 16 ns of zeros later  :", after)
print("delay(at_rest=True) was started at            :", at_rest_delay_start)

ok = (
    before == long_pulse_rest
    and after >= long_pulse_rest
    and at_rest_delay_start >= long_pulse_rest
)
print("PASS" if ok else "FAIL")
sys.exit(0 if ok else 1)
