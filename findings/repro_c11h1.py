"""State-preparation errors (SPAM, eta > 0, no other stochastic noise).

One isolated atom, resonant constant pi-pulse, eta = 0.2: a badly prepared atom
(probability eta) stays in |g>, a well prepared one ends in |r>, so the final
P(r) must be about 1 - eta = 0.8 (legacy: sampled; V2: averaged density matrix).
On the unchanged tree every atom of every run is marked as badly prepared and
P(r) is exactly 0 in both emulators.
"""
import sys

import numpy as np

from pulser import Pulse, Register, Sequence
from pulser.backend import StateResult
from pulser.devices import MockDevice
from pulser.noise_model import NoiseModel
from pulser_simulation import (
    QutipBackendV2,
    QutipConfig,
    QutipEmulator,
    SimConfig,
)

np.random.seed(1234)
eta = 0.2
reg = Register.from_coordinates([(0, 0)], prefix="q")
seq = Sequence(reg, MockDevice)
seq.declare_channel("ryd", "rydberg_global")
seq.add(Pulse.ConstantPulse(100, np.pi / 0.1, 0, 0), "ryd")  # pi-pulse

nm = NoiseModel(state_prep_error=eta, runs=400, samples_per_run=5)

sim = QutipEmulator.from_sequence(seq, config=SimConfig.from_noise_model(nm))
p_r_legacy = sim.run()[-1].sampling_dist.get("1", 0.0)

res = QutipBackendV2(
    seq, config=QutipConfig(observables=[StateResult()], noise_model=nm)
).run()
rho = res.get_result("state", 1.0).to_qobj()
p_r_v2 = float(rho.diag()[0].real)  # eigenstates ("r", "g")

print(f"expected P(r) ~ {1 - eta}; legacy: {p_r_legacy:.3f}; V2: {p_r_v2:.3f}")
ok = abs(p_r_legacy - (1 - eta)) < 0.1 and abs(p_r_v2 - (1 - eta)) < 0.1
print("PASS" if ok else "FAIL")
sys.exit(0 if ok else 1)
