"""Helpers for rules written over the symbolic normal form (pstatic/sym.py)."""
from __future__ import annotations

from functools import lru_cache
from typing import Any, Iterable, Optional

from .. import sym
from ..engine import Engine
from ..model import FunctionInfo
from ..sym import Logged, Pattern, Sym, Term, find, find_all, match, show  # noqa: F401


def S(E: Engine, f: FunctionInfo, inline: bool = True) -> Sym:
    return sym.sym_of(E.P, f, inline)


@lru_cache(maxsize=None)
def pat(src: str) -> Pattern:
    return Pattern(src)


def has(term: Any, src: str, binds: Optional[dict] = None) -> Optional[dict]:
    """Bindings of the first subterm of ``term`` matching the pattern ``src`` (or None)."""
    return find(term, pat(src), binds)


def all_of(term: Any, src: str) -> list[dict]:
    return find_all(term, pat(src))


def is_(term: Any, src: str, binds: Optional[dict] = None) -> Optional[dict]:
    """The whole term matches the pattern."""
    return match(pat(src).term, term, binds)


def arg(l: Logged, index: int, name: str = "") -> Optional[Term]:
    """Positional argument ``index`` (or keyword ``name``) of a logged call."""
    assert l.kind == "call" and l.value is not None
    args, kws = l.value[2], l.value[3]
    if name:
        for k, v in kws:
            if k == name:
                return v
    if 0 <= index < len(args):
        return args[index]
    return None


def lits(l: Logged) -> tuple:
    return sym.conj_of(l.cond)


def any_lit(l: Logged, src: str) -> Optional[dict]:
    """Some literal of the path condition contains the pattern."""
    for x in lits(l):
        r = has(x, src)
        if r is not None:
            return r
    return None


def mentions(term: Any, *attr_names: str) -> bool:
    """Some ('attr', _, name) / ('name', name) with one of the given names occurs in the term."""
    for s in sym.subterms(term):
        if (s[0] == "attr" and s[2] in attr_names) or (s[0] == "name" and s[1] in attr_names):
            return True
    return False


def calls_in(term: Any, name: str) -> list[Term]:
    """Call subterms whose function is (an attribute named) ``name``."""
    out = []
    for s in sym.subterms(term):
        if s[0] == "call" and ((s[1][0] == "name" and s[1][1] == name) or (s[1][0] == "attr" and s[1][2] == name)):
            out.append(s)
    return out


def sh(t: Any, n: int = 160) -> str:
    x = show(t)
    return x if len(x) <= n else x[: n - 3] + "..."


def unobj(t: Any) -> Any:
    """The value a mutated local was created with (identity wrapper removed)."""
    while isinstance(t, tuple) and t and t[0] == "obj":
        t = t[2]
    return t


def elem_of(t: Any, it: Any) -> bool:
    """t is the loop / comprehension variable ranging over ``it`` (at any nesting depth)."""
    return isinstance(t, tuple) and len(t) == 3 and t[0] == "elem" and t[1] == it


def dnf(t: Any, cap: int = 64) -> list:
    """Disjunctive normal form of a condition term: list of conjunctions (tuples of literals)."""
    if t == sym.TRUE:
        return [()]
    if t[0] == "or":
        out: list = []
        for x in t[1:]:
            out += dnf(x, cap)
        return out[:cap]
    if t[0] == "and":
        out = [()]
        for x in t[1:]:
            out = [a + b for a in out for b in dnf(x, cap)][:cap]
        return out
    return [(t,)]


def branches(t: Any, conds: tuple = ()):
    """(conditions, leaf) for every alternative of a nested conditional term."""
    if isinstance(t, tuple) and t and t[0] == "ifexp":
        yield from branches(t[2], conds + (t[1],))
        yield from branches(t[3], conds + (sym.mk_not(t[1]),))
    else:
        yield conds, t


def simplify_under(t: Any, conds: tuple) -> Any:
    """Resolve the conditionals of ``t`` whose condition (or its negation) is among ``conds``."""
    cs = set(conds)

    def fn(x):
        if x and x[0] == "ifexp":
            if x[1] in cs:
                return simplify_under(x[2], conds)
            if sym.mk_not(x[1]) in cs:
                return simplify_under(x[3], conds)
        return None

    return sym.subst(t, fn)
