"""C13 finding 3: in a parametrized XY sequence config_slm_mask() makes the
DMM a declared channel, and DMM operations are then accepted next to the
Microwave channel.

In XY mode the SLM mask is not implemented by a DMM: a regular XY sequence
never lists the DMM in declared_channels and refuses every call on it.
"""
import sys
import warnings

from pulser import Register, Sequence
from pulser.channels.dmm import DMM
from pulser.devices import MockDevice
from pulser.waveforms import ConstantWaveform

warnings.simplefilter("ignore")
reg = Register.from_coordinates([(0, 0), (0, 6)], prefix="q")
problems = []


def make(parametrized):
    seq = Sequence(reg, MockDevice)
    seq.declare_channel("mw", "mw_global")  # Microwave channel -> XY mode
    t = seq.declare_variable("t", dtype=int)
    seq.delay(t if parametrized else 100, "mw")
    seq.config_slm_mask(["q0"], "dmm_0")
    assert seq.is_parametrized() == parametrized
    return seq


for parametrized in (False, True):
    seq = make(parametrized)
    tag = f"[parametrized={parametrized}]"
    dmms = [
        name for name, ch in seq.declared_channels.items()
        if isinstance(ch, DMM)
    ]
    if dmms:
        problems.append(
            f"{tag} declared_channels of the XY sequence contains DMM(s) "
            f"{dmms} next to the Microwave channel"
        )
    calls = {
        "add_dmm_detuning": lambda s: s.add_dmm_detuning(
            ConstantWaveform(100, -1.0), "dmm_0"
        ),
        "delay": lambda s: s.delay(100, "dmm_0"),
        "is_in_eom_mode": lambda s: s.is_in_eom_mode("dmm_0"),
    }
    for name, call in calls.items():
        seq = make(parametrized)
        try:
            call(seq)
        except ValueError:
            continue
        problems.append(
            f"{tag} {name}(..., 'dmm_0') accepted in XY mode "
            f"(stored calls: {[c.name for c in seq._to_build_calls]})"
        )

if problems:
    print("FAIL")
    for p in problems:
        print(" -", p)
    sys.exit(1)
print("PASS")
