"""C06 -- sampling renders the schedule exactly (narrow)."""
from __future__ import annotations

import ast

from ..absval import abstractor
from ..engine import CHS, Engine
from ..model import AnalysisError, dotted, norm
from ..report import Report
from .. import sym
from .common import own_nodes
from .symutil import S, all_of, any_lit, arg, elem_of, has, is_, mentions, sh, unobj

EXPLANATION = (
    "SIB: amplitude, detuning and phase are written over identical index ranges: in _ChannelSchedule.get_samples amp and det are accumulated over the same slot slice from the pulse's amplitude resp. detuning samples; "
    "in SequenceSamples.to_nested_dict each group of three accumulating statements (amp/det/phase) is identical after substituting the quantity, the single allowed difference being the detuning-map weight factor on "
    "det in the per-atom branch; extend_duration pads all arrays by (0, extension): amp with zeros, det with the EOM off-detuning iff the last EOM block is still open (else 0), phase with its edge value. "
    "GUARD: the SLM-mask start offset is applied only in XY mode; the per-atom mask shift only for masked targets in XY; the weight map is the detuning map's only for DMM samples (1.0 otherwise). "
    "CONTRA: inside the sampling functions a sequence-valued access path that some branch treats as possibly empty is never indexed with a constant without a dominating non-empty guard. "
    "NOT decided: the every-nanosecond equality of samples and schedule (runtime arrays). SIB/GUARD (added): the per-atom window is [s.ti (or max(s.ti, mask end) for a masked atom in XY) : s.tf] of the slot being rendered; extend_duration pads with the off-detuning of the very block whose tf it tested; the SLM mask window returned by find_slm_mask_times is replaced only by a pulse that starts earlier. Round 3 (added): amp/det/phase of a channel are added (+=), never assigned, into the nested dict (several channels per basis/atom); INPLACE: no in-place operator on a set/list/dict that is merely an alias of a field (rendering is read-only)."
    " Round 5 (added): every phase statement of to_nested_dict adds `cs.phase` masked by the channel's own non-zero pulse slots; the per-target branch adds the detuning of an open EOM block after the last slot; nothing handed to ChannelSamples is a mutable container of the schedule itself."
    ' Round 6 (added after the fifth independent round of breaking changes): the samples handed out own their data also one level down (a shallow copy of a list of mutable objects is not a copy); the EOM tail after the last slot runs over slots[-1].targets, the slot whose tf starts the tail.'
    ' Round 7 (added after the sixth, smaller round of breaking changes): the phase mask of a slot is decided on the amplitude window of that slot (mask[s.ti:s.tf] = any(amp[s.ti:s.tf] != 0)).'
)
ASSUMPTIONS = ["accumulating statements are read off the symbolic normal form (pstatic/sym.py): temporaries, loop-variable names and conditional forms do not matter", "arrays created by identical expressions are told apart by their creation order and by the role under which they are returned"]

SS = "pulser.sampler.samples.SequenceSamples"
CS = "pulser.sampler.samples.ChannelSamples"
QUANT = {"_AMP": "amp", "_DET": "det", "_PHASE": "phase"}


QNAMES = ("amp", "det", "phase")


def _quantity(k) -> str:
    """'amp' / 'det' / 'phase' from the key term of d[...][KEY] (the constants _AMP/_DET/_PHASE fold to their strings)."""
    if k[0] == "const" and k[1] in QNAMES:
        return k[1]
    if k[0] == "name" and k[1].lstrip("_").lower() in QNAMES:
        return k[1].lstrip("_").lower()
    return ""


def _split_acc(l):
    """d[...][Q][IDX] += SRC.q[SIDX] (* factor) -> (prefix, Q, IDX, SRC, attr, SIDX, factor or None)"""
    t = l.target
    if t is None or t[0] != "idx" or t[1][0] != "idx":
        return None
    q = _quantity(t[1][2])
    if not q:
        return None
    v = l.value
    factor = None
    if v[0] == "mul" and len(v) == 3:
        a, b = v[1], v[2]
        src = a if (a[0] == "idx" and a[1][0] == "attr" and a[1][2] in QNAMES) else b
        factor = b if src is a else a
        v = src
    mask = None
    if v[0] == "idx" and unobj(v[1])[0] == "mul":
        # (cs.phase * <mask>)[IDX]: the channel's array restricted by a mask before it is added
        fs = list(unobj(v[1])[1:])
        srcs = [f for f in fs if f[0] == "attr" and f[2] in QNAMES]
        if len(srcs) == 1:
            rest = [f for f in fs if f is not srcs[0]]
            mask = rest[0] if len(rest) == 1 else ("mul",) + tuple(rest)
            v = ("idx", srcs[0], v[2])
    if v[0] == "idx" and unobj(v[1])[0] == "call" and unobj(v[1])[1][0] in ("attr", "name") and len(unobj(v[1])[2]) == 1 and not unobj(v[1])[3]:
        # <private helper>(cs)[IDX]: the restriction was extracted into a helper that is not a plain expression (it has a
        # loop); the helper is examined by the rule that needs it
        c_ = unobj(v[1])
        hname = c_[1][2] if c_[1][0] == "attr" else c_[1][1]
        if hname.startswith("_") and q == "phase":
            return t[1][1], q, t[2], c_[2][0], "phase", v[2], factor, ("helper", hname)
    if not (v[0] == "idx" and v[1][0] == "attr"):
        return None
    return t[1][1], q, t[2], v[1][1], v[1][2], v[2], factor, mask


def run(E: Engine, rep: Report, tier: str) -> dict:
    tnd = E.method(SS, "to_nested_dict")
    St = S(E, tnd)
    # ---------------------------------------------------------------- SIB
    accs = [(l, _split_acc(l)) for l in St.logged("aug", "store") if l.fn == tnd.short and (l.op == "Add" or l.kind == "store") and l.value is not None]
    accs = [(l, p) for l, p in accs if p is not None]
    # several channels can address one basis / one atom: their samples add up (an assignment keeps the last channel only)
    for l, p in accs:
        if l.kind == "store":
            rep.violation("SIB", f"to_nested_dict|{p[1]}|accumulated-not-assigned", f"`{sh(l.target, 80)} = ...` assigns the {p[1]} samples of a channel instead of adding them (`+=`): with two channels on the same basis (or atom) only the last one declared survives", E.where(tnd, l.node))
    groups: dict = {}
    for l, p in accs:
        groups.setdefault((p[0], l.cond, l.loops), []).append((l, p))
    glist = list(groups.values())
    for gi, g in enumerate(glist):
        qs = sorted(p[1] for _l, p in g)
        if qs == ["det"] and any(mentions(x, "eom_blocks") for x in sym.conj_of(g[0][0].cond)):
            continue  # the EOM tail (decided below)
        where = E.where(tnd, g[0][0].node)
        key = f"to_nested_dict|group{gi}|{'local' if len(g[0][0].loops) >= 3 else 'masked-head' if len(g[0][0].loops) == 2 else 'global'}"
        same_tidx = len({p[2] for _l, p in g}) == 1
        same_src = len({p[3] for _l, p in g}) == 1
        matches = all(p[1] == p[4] for _l, p in g)
        idx_agree = all(p[2] == p[5] for _l, p in g)
        factors = {p[1]: p[6] for _l, p in g}
        fac_ok = factors.get("amp") is None and factors.get("phase") is None
        detail = f"quantities {qs}, index {[sh(p[2], 60) for _l, p in g]}, sources {[sh(p[3], 30) + '.' + p[4] for _l, p in g]}, factors { {k: sh(v, 40) for k, v in factors.items() if v is not None} }"
        rep.check(qs == sorted(QNAMES) and same_tidx and same_src and matches and idx_agree and fac_ok, "SIB", key, "amp/det/phase accumulated over the same range from the matching source", f"the amp/det/phase statements of this group disagree: {detail}", where)
    if len(glist) < 3:
        rep.error(f"only {len(glist)} amp/det/phase groups found in to_nested_dict (expected 3)")
    # a channel's phase enters a view only over its own pulses: its phase array holds the last pulse's phase while the
    # channel idles (and is edge-padded), so adding it whole gives a pulse of ANOTHER channel on the same basis the sum
    # of both phases.  Every phase statement adds `cs.phase * <mask>` with a mask filled, slot by slot, from cs.amp.
    mask_fills = [l for l in St.logged("store") if l.target is not None and l.target[0] == "idx" and l.target[1][0] == "obj" and mentions(l.value, "amp") and mentions(l.target[2], "ti", "tf")]
    # ... decided slot by slot: the window of the amplitude that is tested is the window of the mask that is filled
    #     (`amp[: s.tf]` asks "did the channel play anything so far", which lets a later silent pulse add its held phase)
    for f_ in mask_fills:
        win = [t[2] for t in sym.subterms(f_.value) if t[0] == "idx" and t[2][0] == "slice"]
        if win:
            rep.check(f_.target[2] in win, "SIB", "to_nested_dict|phase-mask-tests-the-slot's-own-window", "mask[s.ti:s.tf] = any(amp[s.ti:s.tf] != 0)", f"the phase mask of the slot `{sh(f_.target[2], 40)}` is decided on the amplitude window `{sh(win[0], 40)}`: a zero-amplitude pulse that follows a real one (holding a phase reference) then counts as playing, and its phase is added to the pulses of the other channels of the basis", E.where(tnd, f_.node))
    n_ph = 0
    for l, p in accs:
        if p[1] != "phase":
            continue
        n_ph += 1
        m_ = p[7]
        if m_ is not None and m_[0] == "helper":
            # the helper returns <its argument>.phase * <mask>, the mask being filled slot by slot from <its argument>.amp
            hf = next((g for g in E.P.all_functions() if g.name == m_[1] and g.module is tnd.module), None)
            ok_m = False
            if hf is not None and hf.params:
                par = ("name", [x for x in hf.params if x not in ("self", "cls")][0])
                Sh = S(E, hf)
                r_h = unobj(Sh.ret) if Sh.ret is not None else None
                fills_h = [f_ for f_ in Sh.logged("store") if f_.target is not None and f_.target[0] == "idx" and f_.target[1][0] == "obj" and mentions(f_.value, "amp") and mentions(f_.target[2], "ti", "tf") and sym.contains(f_.value, par)]
                ok_m = r_h is not None and r_h[0] == "mul" and any(f == ("attr", par, "phase") for f in r_h[1:]) and any(sym.contains(r_h, f_.target[1]) for f_ in fills_h)
        else:
            ok_m = m_ is not None and any(sym.contains(m_, f_.target[1]) and sym.contains(f_.value, p[3]) for f_ in mask_fills)
        rep.check(ok_m, "SIB", f"to_nested_dict|phase-only-over-own-pulses|{n_ph}", "the phase added is cs.phase masked by the channel's own non-zero pulse slots",
                  f"`{sh(l.target, 60)} += {sh(l.value, 80)}` adds the channel's whole phase array: while the channel idles the array still holds its last pulse's phase, so with two channels on one basis a pulse of the other channel is given the sum of both phases (X(pi/2) then Y(pi/2) on two channels is not the same as on one)", E.where(tnd, l.node))
    if n_ph < 3:
        rep.error(f"only {n_ph} phase accumulations found in to_nested_dict (expected 3)")
    # samples are a snapshot: nothing handed to the ChannelSamples constructor is a mutable container the schedule goes on
    # editing (a bare `self.<attr>` of the schedule) -- later calls on the sequence would change samples taken earlier
    gs = E.method("pulser.sequence._schedule._ChannelSchedule", "get_samples")
    ctor = [l for l in S(E, gs).calls("ChannelSamples") if l.fn == gs.short]
    if not ctor:
        raise AnalysisError("anchor: _ChannelSchedule.get_samples no longer builds ChannelSamples")
    cls_sched = E.cls("pulser.sequence._schedule._ChannelSchedule")
    def _mutable_field(nm):
        for st_ in cls_sched.node.body:
            if isinstance(st_, ast.AnnAssign) and isinstance(st_.target, ast.Name) and st_.target.id == nm:
                a_ = ast.unparse(st_.annotation)
                return a_.split("[")[0].split(".")[-1] in ("list", "List", "dict", "Dict", "set", "Set")
        for n_ in ast.walk(cls_sched.node):
            if isinstance(n_, ast.AnnAssign) and isinstance(n_.target, ast.Attribute) and isinstance(n_.target.value, ast.Name) and n_.target.value.id == "self" and n_.target.attr == nm:
                a_ = ast.unparse(n_.annotation)
                return a_.split("[")[0].split(".")[-1] in ("list", "List", "dict", "Dict", "set", "Set")
            if isinstance(n_, ast.Assign) and any(isinstance(t_, ast.Attribute) and isinstance(t_.value, ast.Name) and t_.value.id == "self" and t_.attr == nm for t_ in n_.targets) and isinstance(n_.value, (ast.List, ast.Dict, ast.Set, ast.ListComp, ast.DictComp)):
                return True
        return False
    def _elem_class_mutable(nm):
        """The list attribute holds instances of a program class that can be edited in place (not frozen / NamedTuple)."""
        for n_ in ast.walk(cls_sched.node):
            ann = None
            if isinstance(n_, ast.AnnAssign) and isinstance(n_.target, ast.Attribute) and getattr(n_.target.value, "id", None) == "self" and n_.target.attr == nm:
                ann = ast.unparse(n_.annotation)
            elif isinstance(n_, ast.AnnAssign) and isinstance(n_.target, ast.Name) and n_.target.id == nm:
                ann = ast.unparse(n_.annotation)
            if ann and "[" in ann:
                el = ann.split("[", 1)[1].rstrip("]").split(".")[-1]
                c_ = next((k for k in E.P.classes.values() if k.name == el), None)
                if c_ is None:
                    return False
                decos = " ".join(ast.unparse(d) for d in c_.node.decorator_list)
                bases = " ".join(ast.unparse(b) for b in c_.node.bases)
                return "frozen=True" not in decos and "NamedTuple" not in bases and "Enum" not in bases
        return False

    def _shallow_copy_of(a_):
        """list(self.X) / self.X.copy() / self.X[:] / [b for b in self.X] -> X"""
        a_ = unobj(a_)
        if a_[0] == "call" and a_[1] in (("name", "list"), ("name", "tuple")) and len(a_[2]) == 1 and a_[2][0][0] == "attr" and a_[2][0][1] == ("name", "self"):
            return a_[2][0][2]
        if a_[0] == "call" and a_[1][0] == "attr" and a_[1][2] == "copy" and a_[1][1][0] == "attr" and a_[1][1][1] == ("name", "self") and not a_[2]:
            return a_[1][1][2]
        if a_[0] == "idx" and a_[1][0] == "attr" and a_[1][1] == ("name", "self") and a_[2][0] == "slice":
            return a_[1][2]
        if a_[0] == "comp" and len(a_[3]) == 1 and a_[3][0][0][0] == "attr" and a_[3][0][0][1] == ("name", "self") and a_[2] == ("elem", a_[3][0][0], 0):
            return a_[3][0][0][2]
        return None

    for l in ctor:
        for i_, a_ in enumerate(list(l.value[2]) + [v for _k, v in l.value[3]]):
            sc_ = _shallow_copy_of(a_)
            if sc_ is not None and _mutable_field(sc_) and _elem_class_mutable(sc_):
                rep.violation("SIB", f"_ChannelSchedule.get_samples|samples-own-their-data|{sc_}", f"ChannelSamples is given a shallow copy of `self.{sc_}`: the list is new but its elements are the schedule's own mutable objects, so disabling / modifying the EOM mode on the sequence afterwards edits the blocks of samples taken earlier (their padding in extend_duration changes)", E.where(gs, l.node))
                continue
            if a_[0] == "attr" and a_[1] == ("name", "self") and _mutable_field(a_[2]):
                rep.violation("SIB", f"_ChannelSchedule.get_samples|samples-own-their-data|{a_[2]}", f"ChannelSamples is given `self.{a_[2]}`, the schedule's own mutable container: calls made on the sequence afterwards (disable/enable_eom_mode, modify_eom_setpoint) change the samples taken before them (their EOM blocks and the padding of extend_duration)", E.where(gs, l.node))
            else:
                rep.ok("SIB", f"_ChannelSchedule.get_samples|samples-own-their-data|arg{i_}", "not a mutable container of the schedule itself", E.where(gs, l.node))
    # a channel left in EOM mode keeps its last targets at detuning_off after its last slot: the per-target branch, which
    # otherwise copies inside slots only, adds cs.det over the tail under `eom_blocks[-1].tf is None` (the Global branch
    # copies the whole array)
    tails = [g for g in glist if sorted(p[1] for _l, p in g) == ["det"] and any(mentions(x, "eom_blocks") for x in sym.conj_of(g[0][0].cond))]
    ok_t = False
    for g in tails:
        l, p = g[0]
        open_block = any(x[0] == "cmp" and x[1] == "Is" and sym.NONE in (x[2], x[3]) and mentions(x, "eom_blocks") and mentions(x, "tf") for x in sym.conj_of(l.cond))
        starts_at_last_slot = mentions(p[2], "slots") and mentions(p[2], "tf") and p[2] == p[5]
        ok_t = ok_t or (open_block and starts_at_last_slot and p[3] == accs[0][1][3] and p[6] is None)
        # ... for the targets of the slot the tail starts at (the LAST one: the channel may have been retargeted)
        def _slot_idx(t_, attr_):
            return {x[1][2] for x in sym.subterms(t_) if x[0] == "attr" and x[2] == attr_ and x[1][0] == "idx" and mentions(x[1][1], "slots")}

        if l.loops:
            k_tg, k_tf = _slot_idx(l.loops[-1], "targets"), _slot_idx(p[2], "tf")
            if k_tg and k_tf:
                rep.check(k_tg == k_tf == {("const", -1)}, "SIB", "to_nested_dict|eom-tail-on-the-last-slot's-targets", "the tail starts at slots[-1].tf and runs over slots[-1].targets",
                          f"the off-detuning kept after the last slot starts at slots[{', '.join(sh(k) for k in sorted(k_tf))}].tf but is given to slots[{', '.join(sh(k) for k in sorted(k_tg))}].targets: after a retarget the idle detuning_off lands on the atoms targeted first instead of the current ones", E.where(tnd, l.node))
    rep.check(ok_t, "SIB", "to_nested_dict|per-target-view-keeps-eom-off-detuning-after-last-slot", "under `eom_blocks[-1].tf is None`, cs.det from the last slot's end is added for the last targets",
              "the per-target branch of to_nested_dict copies samples inside pulse slots only: the detuning_off padding that follows the last slot of a channel still in EOM mode (kept by the Global branch) never reaches the per-qubit view, so a Local EOM channel -- or any emulation that forces all_local -- sees zero detuning there", E.where(tnd))
    # the weight factor appears exactly in the per-atom branch, on the detuning, indexed by that atom
    w_groups = [g for g in glist if any(p[6] is not None for _l, p in g)]
    ok = len(w_groups) == 1
    wterm = None
    if ok:
        g = w_groups[0]
        fac = next(p[6] for _l, p in g if p[1] == "det")
        atom = g[0][1][0][2] if g[0][1][0][0] == "idx" else None  # d[_LOCAL][basis][t] -> t
        ok = fac is not None and fac[0] == "idx" and fac[2] == atom and atom is not None and atom[0] == "elem"
        wterm = unobj(fac[1]) if fac is not None and fac[0] == "idx" else None
    rep.check(ok, "SIB", "to_nested_dict|weight-on-det-only", "DMM weight multiplies the detuning of the targeted atom only", "the detuning-map weight is applied to something else than the per-atom detuning (or is looked up for another atom)", E.where(tnd))
    # per-target window stays inside the slot: [max(s.ti, mask end) if masked in XY else s.ti : s.tf]
    n_win = 0
    for g in glist:
        l0, p0 = g[0]
        if len(l0.loops) < 3:
            continue
        n_win += 1
        idx = p0[2]
        slot_it = l0.loops[-2]
        atom = p0[0][2] if p0[0][0] == "idx" else None
        m = is_(idx, "slice(max(Q_s.ti, self._slm_mask.end) if (Q_b == 'XY' and Q_t in self._slm_mask.targets) else Q_s.ti, Q_s.tf)")
        ok = m is not None and elem_of(m["Q_s"], slot_it) and m["Q_t"] == atom and mentions(m["Q_b"], "basis")
        rep.check(ok, "SIB", "to_nested_dict|window-within-slot|times", "per-atom window = [s.ti (or max(s.ti, mask end) for a masked atom in XY) : s.tf] of the slot being rendered", f"to_nested_dict: the per-atom window is {sh(idx, 220)} -- it must start at the slot's own start (raised to the SLM mask end only for masked atoms in XY) and end at the slot's end, else samples of other slots are attributed to the atom", E.where(tnd, l0.node))
        rep.check(ok, "GUARD", "to_nested_dict|mask-shift-only-masked-xy", "per-atom start shifted only for masked targets in XY", "the per-atom SLM shift condition changed", E.where(tnd, l0.node))
    # get_samples
    gs = E.method(CHS, "get_samples")
    Sg = S(E, gs)
    rets = [l for l in Sg.calls("ChannelSamples") if l.fn == gs.short]
    if not rets:
        raise AnalysisError("anchor: get_samples no longer builds ChannelSamples")
    role = {q: arg(rets[-1], i, q) for i, q in enumerate(QNAMES)}
    wr = {}
    for l in Sg.log:
        if l.fn == gs.short and l.kind in ("aug", "store") and l.target is not None and l.target[0] == "idx":
            for q, o in role.items():
                if l.target[1] == o:
                    wr.setdefault(q, []).append(l)
    okq = all(len(wr.get(q, [])) == 1 for q in QNAMES) and len({id(x) for x in role.values()}) == 3 and len(set(role.values())) == 3
    slot_ok = False
    if okq:
        la, ld, lp = wr["amp"][0], wr["det"][0], wr["phase"][0]
        ma = is_(la.target[2], "slice(Q_s.ti, Q_s.tf)")
        slot_ok = la.kind == "aug" and ld.kind == "aug" and la.op == "Add" and ld.op == "Add" and ma is not None and la.target[2] == ld.target[2] and is_(la.value, "Q_s.type.amplitude.samples", ma) is not None and is_(ld.value, "Q_s.type.detuning.samples", ma) is not None and ma["Q_s"][0] in ("elem", "item")
    rep.check(okq and slot_ok, "SIB", "get_samples|amp-det-same-slot-slice", "amp[s.ti:s.tf] += amplitude samples; det[s.ti:s.tf] += detuning samples", f"get_samples no longer accumulates the pulse's amplitude and detuning samples over the slot's own [ti:tf]: { {q: [(sh(l.target[2], 50), sh(l.value, 60)) for l in ls] for q, ls in wr.items()} }", E.where(gs))
    ok = okq and wr["phase"][0].kind == "store" and is_(wr["phase"][0].target[2], "slice(Q_t, None)") is not None and okq and slot_ok and wr["phase"][0].value == ("attr", ("attr", is_(wr["amp"][0].target[2], "slice(Q_s.ti, Q_s.tf)")["Q_s"], "type"), "phase")
    rep.check(bool(ok), "SIB", "get_samples|phase-from-t_start-on", "phase[t_start:] = pulse.phase", "the phase samples are no longer overwritten from t_start on with the pulse's phase", E.where(gs))
    only_pulses = False
    if okq and slot_ok:
        it = wr["amp"][0].loops[-1]
        comps = [t for t in sym.subterms(it) if t[0] == "comp"]
        only_pulses = any(is_(c[3][0][1], "isinstance(Q_s.type, Pulse)") is not None and c[3][0][0] == ("attr", ("name", "self"), "slots") for c in comps if len(c[3]) == 1)
    rep.check(only_pulses, "SIB", "get_samples|only-pulse-slots", "only slots holding a Pulse contribute samples", "get_samples no longer filters the pulse slots", E.where(gs))
    # extend_duration
    ed = E.method(CS, "extend_duration")
    Se = S(E, ed)
    rp = [l for l in Se.calls("replace") if l.fn == ed.short]
    if not rp:
        raise AnalysisError("anchor: extend_duration no longer returns replace(self, ...)")
    new = {k: v for k, v in rp[-1].value[3]}
    pads = {q: new.get(q) for q in QNAMES}
    ext = None
    ok = True
    for q, t in pads.items():
        m = has(t, "Q_pm.pad(self.%s, (0, Q_ext), QS_kw)" % q) if False else None
        c = t if t is not None and t[0] == "call" and t[1][0] == "attr" and t[1][2] == "pad" else None
        if c is None or len(c[2]) < 2 or c[2][0] != ("attr", ("name", "self"), q) or c[2][1][0] != "tuple" or len(c[2][1]) != 3 or c[2][1][1] != ("const", 0):
            ok = False
            continue
        ext = ext or c[2][1][2]
        ok = ok and c[2][1][2] == ext
    ok = ok and ext is not None and is_(ext, "new_duration - self.duration") is not None
    rep.check(ok, "SIB", "extend_duration|pad-at-the-end-only", "amp, det and phase padded by (0, new_duration - duration)", f"extend_duration pads { {q: sh(t, 80) for q, t in pads.items()} }", E.where(ed))
    kw = lambda t: dict(t[3]) if t is not None and t[0] == "call" else {}  # noqa: E731
    rep.check(pads["amp"] is not None and not kw(pads["amp"]), "SIB", "extend_duration|amp-zeros", "amplitude padded with zeros", f"amplitude padding changed: {sh(pads['amp'], 100)}", E.where(ed))
    fd = kw(pads["det"]).get("constant_values")
    rep.check(fd is not None and kw(pads["det"]).get("mode", ("const", "constant")) == ("const", "constant"), "SIB", "extend_duration|det-final_detuning", "detuning padded with a constant (the final detuning)", f"detuning padding changed: {sh(pads['det'], 120)}", E.where(ed))
    pm_ = kw(pads["phase"]).get("mode")
    rep.check(pm_ is not None and has(pm_, "'edge'") is not None and is_(pm_, "'edge' if self.phase.size > 0 else 'constant'") is not None, "SIB", "extend_duration|phase-edge", "phase padded with its last value", f"phase padding changed: {sh(pads['phase'], 120)}", E.where(ed))
    m = is_(fd, "float(self.eom_blocks[Q_i].detuning_off) if (self.eom_blocks and self.eom_blocks[Q_j].tf is None) else 0.0") if fd is not None else None
    rep.check(m is not None and m["Q_j"] == ("const", -1), "SIB", "extend_duration|off-detuning-iff-eom-open", "pads with detuning_off iff the last EOM block is still open (tf is None), else 0", f"the condition for padding with the EOM off-detuning changed: {sh(fd, 160)}", E.where(ed))
    rep.check(m is not None and m["Q_i"] == m["Q_j"], "SIB", "extend_duration|pads-with-the-block-found-open", "detuning_off read from the block whose tf is tested", f"extend_duration tests block [{sh(m['Q_j']) if m else '?'}].tf is None but pads with the off-detuning of block [{sh(m['Q_i']) if m else '?'}]: with several EOM blocks of different off-detunings the padding is that of another block", E.where(ed))
    rep.floor("SIB", 14)

    # -------------------------------------------------------------- GUARD
    gg = [g for g in glist if len(g[0][0].loops) == 1]
    ok = bool(gg)
    for g in gg:
        m = is_(g[0][1][2], "slice(self._slm_mask.end if Q_b == 'XY' else 0, None)")
        ok = ok and m is not None and mentions(m["Q_b"], "basis")
    rep.check(ok, "GUARD", "to_nested_dict|slm-offset-only-in-xy", "start_t = slm_mask.end if in_xy else 0", "the SLM mask offset of global channels is no longer restricted to XY mode", E.where(tnd))
    m = is_(wterm, "defaultdict(int, Q_m.get_qubit_weight_map(Q_q)) if isinstance(Q_smp, DMMSamples) else defaultdict(Q_l)") if wterm is not None else None
    rep.check(m is not None and m["Q_l"] == ("lambda", 0, ("const", 1.0)) and mentions(m["Q_m"], "detuning_map"), "GUARD", "to_nested_dict|weights-only-for-dmm", "detuning-map weights for DMM samples, 1.0 otherwise", f"the weight map selection changed: {sh(wterm, 200)}", E.where(tnd))
    rep.check(m is not None and m["Q_smp"][0] in ("elem", "item"), "GUARD", "to_nested_dict|is_dmm-by-type", "is_dmm = isinstance(samples, DMMSamples)", "the DMM branch is no longer decided by the type of the channel's samples", E.where(tnd))
    # the SLM mask window is the first pulse of the global channel that starts the earliest
    fm = E.method("pulser.sequence._schedule._Schedule", "find_slm_mask_times")
    Sf = S(E, fm)
    returned = {t[1] for t in sym.subterms(Sf.ret) if t[0] == "loop"}
    upd = [l for l in Sf.logged("assign") if l.fn == fm.short and l.loops and l.target is not None and l.target[1] in returned]
    ok = bool(upd)
    for l in upd:
        m = is_(unobj(l.value), "[Q_s.ti, Q_s.tf]")
        lits_ = sym.conj_of(l.cond)
        first = any(x[0] == "not" and x[1][0] == "carried" for x in lits_)
        earlier = m is not None and any(is_(x, "Q_s.ti < Q_m[0]", {"Q_s": m["Q_s"]}) is not None and is_(x, "Q_s.ti < Q_m[0]", {"Q_s": m["Q_s"]})["Q_m"][0] == "carried" for x in lits_)
        ok = ok and m is not None and m["Q_s"][0] == "elem" and (first or earlier) and any(is_(x, "isinstance(Q_s.type, Pulse)", {"Q_s": m["Q_s"]}) is not None for x in lits_)
    rep.check(ok, "GUARD", "find_slm_mask_times|window=earliest-starting-global-pulse", "the mask window [ti, tf] is replaced only by a pulse that starts earlier than the current window", "the SLM mask window is no longer the first pulse of the earliest-starting global channel (a later-starting pulse can take over the window, so masked atoms are unprotected during part of the first pulse)", E.where(fm))
    rep.floor("GUARD", 5)

    # ------------------------------------------------------------- CONTRA
    n_idx = 0
    P = E.P
    for f in (tnd, gs, ed, E.method(CS, "modulate")):
        ab = abstractor(E.flow(f))
        maybe_empty: dict[str, str] = {}
        for n in own_nodes(f):
            if isinstance(n, (ast.If, ast.IfExp, ast.While)):
                for conj in ab.literals(n.test):
                    for lit in conj:
                        if lit.truth is not None and lit.atom is None and lit.text.endswith(("slots", "eom_blocks", "samples_list", "targets")) and lit.text.replace(".", "").replace("_", "").isalnum():
                            maybe_empty[lit.text] = norm(n.test)
        for n in own_nodes(f):
            if isinstance(n, ast.Subscript) and isinstance(n.ctx, ast.Load) and (isinstance(n.slice, ast.Constant) or (isinstance(n.slice, ast.UnaryOp) and isinstance(n.slice.operand, ast.Constant))):
                path = norm(n.value)
                if path in maybe_empty:
                    n_idx += 1
                    dnf = ab.enclosing_conditions(n)
                    guarded = all(any(l.truth is not None and l.atom is None and l.positive and l.text == path for l in c) for c in dnf)
                    rep.check(guarded, "CONTRA", f"{f.short}|{norm(n)}", "constant index under a non-empty guard", f"`{norm(n)}` is indexed with a constant although the same function treats `{path}` as possibly empty (`{maybe_empty[path]}`): a channel without such entries raises IndexError here", E.where(f, n))
    rep.floor("CONTRA", 2)
    # SequenceSamples.extend_duration keeps one ChannelSamples per channel: the new samples_list is a comprehension over
    # the old one without a filter (channels and samples_list are paired by position everywhere)
    sed_ = E.method(SS, "extend_duration")
    r_ed = S(E, sed_).ret
    comps_ = [t for t in sym.subterms(r_ed) if t[0] == "comp" and len(t[3]) == 1 and mentions(t[3][0][0], "samples_list")] if r_ed is not None else []
    ok_ed = bool(comps_) and all(t[3][0][1] == sym.TRUE for t in comps_)
    rep.check(ok_ed, "SIB", "SequenceSamples.extend_duration|one-sample-per-channel", "every entry of samples_list is extended (no entry dropped)", f"SequenceSamples.extend_duration filters samples_list ({[sh(t[3][0][1], 60) for t in comps_]}): the list then has fewer entries than `channels`, and channel names are paired with the wrong samples", E.where(sed_))
    # a channel is empty iff every amplitude and detuning sample is zero (not: iff they sum to zero)
    ie = [f for f in E.cls(CS).methods.get("is_empty", []) if f.kind != "overload"]
    if not ie:
        raise AnalysisError("anchor: ChannelSamples.is_empty not found")
    r_ie = unobj(S(E, ie[0]).ret)
    forms = ("np.count_nonzero(Q_a) + np.count_nonzero(Q_d) == 0", "not np.any(Q_a) and not np.any(Q_d)", "not (np.any(Q_a) or np.any(Q_d))", "np.all(Q_a == 0) and np.all(Q_d == 0)")
    ok_ie = any(is_(r_ie, f_) is not None for f_ in forms)
    rep.check(ok_ie, "GUARD", "ChannelSamples.is_empty|all-samples-zero", "empty iff no amplitude and no detuning sample is non-zero", f"ChannelSamples.is_empty is `{sh(r_ie, 120)}`: it must say that every sample is zero (a detuning of +d then -d sums to zero but is not empty: the channel's basis would be dropped from the emulated Hamiltonian)", E.where(ie[0]))
    # ------------------------------------------------------------ INPLACE
    # rendering is read-only: `x = <object>.<field>; x -= y` (or |=, +=, &=) on a set/list/dict edits the object the
    # field belongs to -- here the slots of the samples, whose target sets are shared with the schedule
    n_aug = 0
    for f in [g for g in P.all_functions() if g.module.name in ("pulser.sampler.samples", "pulser.sampler.sampler") and g.kind != "overload"]:
        fl_ = E.flow(f)
        defs = fl_.ctx.local_defs()
        for n in own_nodes(f):
            if not (isinstance(n, ast.AugAssign) and isinstance(n.target, ast.Name)):
                continue
            tt = E.R.type_of(n.target, fl_.ctx)
            if not any(a[0] in ("list", "set", "dict") for a in tt):
                continue
            n_aug += 1
            aliases = [v for kind, v in defs.get(n.target.id, []) if kind == "assign" and isinstance(v, (ast.Attribute, ast.Subscript))]
            is_param = fl_.ctx.is_param(n.target.id)
            rep.check(not aliases and not is_param, "INPLACE", f"{f.short}|{n.target.id}|{type(n.op).__name__}", "the augmented container was built in this function",
                      f"`{norm(n)}` in {f.short}: `{n.target.id}` is bound to `{norm(aliases[0]) if aliases else 'a parameter'}` -- an in-place operator on a set/list/dict edits that object itself (the slot's target set is shared with the sequence's schedule), so rendering the samples changes what later renderings and the sequence see", E.where(f, n))
    rep.note("inplace_augmented_containers", n_aug) if hasattr(rep, "note") else None
    return {"groups": len(glist), "constant_indexings_of_maybe_empty": n_idx}
