"""C15 - a beam listed twice in 'controlled_beams' unlocks an off-detuning
that the EOM configuration does not allow.

`RydbergEOM._switching_beams_combos` adds the "both beams switched off" option
when `len(controlled_beams) > 1`, and nothing stops the same beam from being
given twice. With controlled_beams=(RED, RED) only the red beam has an EOM,
yet the sequence can choose the off-detuning obtained by switching off the
blue beam as well.
"""
import sys

import numpy as np

from pulser import Register, Sequence
from pulser.channels import Rydberg
from pulser.channels.eom import RydbergBeam, RydbergEOM
from pulser.devices import VirtualDevice
from pulser.sampler import sample

EOM_KWARGS = dict(
    mod_bandwidth=30.0,
    limiting_beam=RydbergBeam.RED,
    max_limiting_amp=50 * 2 * np.pi,
    intermediate_detuning=800 * 2 * np.pi,
)
AMP_ON, DET_ON, OPTIMUM = 20.0, 0.0, -100.0

# What is allowed when the red beam is the only one with an EOM
only_red = RydbergEOM(controlled_beams=(RydbergBeam.RED,), **EOM_KWARGS)
allowed = only_red.detuning_off_options(AMP_ON, DET_ON).as_array()
print("off-detunings allowed with an EOM on the red beam only:", allowed)

try:
    twice_red = RydbergEOM(
        controlled_beams=(RydbergBeam.RED, RydbergBeam.RED), **EOM_KWARGS
    )
except ValueError as e:
    print("controlled_beams=(RED, RED) is rejected:", e)
    print("PASS")
    sys.exit(0)

device = VirtualDevice(
    name="Dev",
    dimensions=2,
    rydberg_level=70,
    channel_objects=(
        Rydberg.Global(1000, 200, mod_bandwidth=4.0, eom_config=twice_red),
    ),
)
seq = Sequence(Register({"q0": (0, 0), "q1": (50, 0)}), device)
seq.declare_channel("ch", "rydberg_global")
seq.enable_eom_mode("ch", AMP_ON, DET_ON, optimal_detuning_off=OPTIMUM)
seq.add_eom_pulse("ch", 100, 0.0)
seq.delay(100, "ch")
seq.add_eom_pulse("ch", 100, 0.0)
block = seq._schedule["ch"].eom_blocks[0]
between = float(sample(seq).channel_samples["ch"].det[150])
print("controlled_beams=(RED, RED): detuning between the pulses:", between)
print("   beams switched off between the pulses:", block.switching_beams)
if not np.any(np.isclose(between, allowed)) or (
    RydbergBeam.BLUE in block.switching_beams
):
    print("FAIL")
    sys.exit(1)
print("PASS")
