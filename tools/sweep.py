#!/usr/bin/env python3
"""Both-ways sweep of the checker over the stored patches (run with python3-vt).

* /verif/seeded/<name>/patch.diff  -- breaking changes written by independent agents: the check of the
  variant's own property (meta.json "property") must report it;
* /verif/benign/<name>/patch.diff  -- behaviour-preserving refactorings written by independent agents:
  no check may report anything.

usage: sweep.py [--seeded] [--benign] [--only NAME_SUBSTR] [--jobs N] [--props C01,C02]
Exit 0 when every expectation holds, 1 otherwise.  Patches that no longer apply are listed as stale.
"""
from __future__ import annotations

import json
import os
import sys
from concurrent.futures import ThreadPoolExecutor

sys.path.insert(0, os.path.dirname(os.path.dirname(os.path.abspath(__file__))))
from tools.eval_patch import evaluate  # noqa: E402

VERIF = os.path.dirname(os.path.dirname(os.path.abspath(__file__)))


def main() -> int:
    av = sys.argv[1:]
    do_s = "--seeded" in av or "--benign" not in av
    do_b = "--benign" in av or "--seeded" not in av
    only = av[av.index("--only") + 1] if "--only" in av else ""
    jobs = int(av[av.index("--jobs") + 1]) if "--jobs" in av else 4
    man = json.load(open(os.path.join(VERIF, "MANIFEST.json")))
    props = [c["property_id"] for c in man["checks"]]
    if "--props" in av:
        props = av[av.index("--props") + 1].split(",")
    work = []
    if do_s:
        for n in sorted(os.listdir(os.path.join(VERIF, "seeded"))):
            if only in n and os.path.exists(os.path.join(VERIF, "seeded", n, "patch.diff")):
                meta = json.load(open(os.path.join(VERIF, "seeded", n, "meta.json")))
                work.append(("seeded", n, os.path.join(VERIF, "seeded", n, "patch.diff"), (meta.get("property"), sorted(meta.get("reported_by", {})))))
    if do_b and os.path.isdir(os.path.join(VERIF, "benign")):
        for n in sorted(os.listdir(os.path.join(VERIF, "benign"))):
            if only in n and os.path.exists(os.path.join(VERIF, "benign", n, "patch.diff")):
                work.append(("benign", n, os.path.join(VERIF, "benign", n, "patch.diff"), None))
    bad = 0
    with ThreadPoolExecutor(max_workers=jobs) as ex:
        for (kind, name, _p, prop), r in zip(work, ex.map(lambda w: evaluate(w[2], props), work)):
            if "error" in r:
                print(f"STALE  {kind:6} {name}: {r['error']}")
                continue
            rb = r["reported_by"]
            broken = {k: v for k, v in rb.items() if v["rc"] not in (0, 1)}
            if kind == "seeded":
                prop, expected = prop
                # the variant's own property, or -- when another property's check is the one that sees it -- that one
                cands = [q for q in [prop] + list(expected) if q in props]
                ok = any(q in rb and rb[q]["rc"] == 1 for q in cands) if cands else True
                prop = next((q for q in cands if q in rb and rb[q]["rc"] == 1), prop)
                others = sorted(k for k in rb if k != prop)
                print(f"{'ok    ' if ok and not broken else 'MISSED' if not ok else 'BROKEN'} seeded {name}: {prop} -> {[l.split('instance=')[-1][:70] for l in rb.get(prop, {}).get('lines', [])][:2]}" + (f" (also {others})" if others else ""))
                bad += 0 if ok and not broken else 1
            else:
                ok = not rb
                print(f"{'ok    ' if ok else 'ALARM '} benign {name}" + ("" if ok else ": " + "; ".join(f"{k} rc={v['rc']} {[l[:90] for l in v['lines'][:3]]}" for k, v in rb.items())))
                bad += 0 if ok else 1
    print(f"sweep: {len(work)} patches, {bad} unexpected")
    return 1 if bad else 0


if __name__ == "__main__":
    sys.exit(main())
