"""C05: after an SLM mask ended, the XY interaction of the masked atom stayed off for one more sample.

Hamiltonian._construct_hamiltonian built the on/off coefficient of the interaction as np.ones(self._duration - 1),
one entry shorter than the sampling grid np.arange(self._duration); _adapt_to_sampling_rate maps arrays onto the grid by
proportional indices, so the coefficient was read one sample late: at t = <mask end> the global drive already acts on
the previously masked atom, but its exchange coupling is still zero.
Found by rule GUARD `coefficient-array-has-grid-length` (pstatic/rules/c05.py), written after an independent agent's
remark.  Exits 1 when the defect is present.
"""
import sys
import warnings

import numpy as np
from pulser import Pulse, Register, Sequence
from pulser.devices import MockDevice
from pulser_simulation import QutipEmulator

warnings.filterwarnings("ignore")
bad = []
for first in (100, 52, 17):
    seq = Sequence(Register({"q0": (0, 0), "q1": (6, 0)}), MockDevice)
    seq.declare_channel("mw", "mw_global")
    seq.config_slm_mask(["q0"])
    seq.add(Pulse.ConstantPulse(first, 1.0, 0.0, 0.0), "mw")  # the mask lasts as long as this pulse
    seq.add(Pulse.ConstantPulse(100, 2.0, 0.0, 0.0), "mw")
    em = QutipEmulator.from_sequence(seq)
    for t in (first - 1, first, first + 1):
        h = em.get_hamiltonian(t).full()
        exchange_on = abs(h[1, 2]) > 1e-9  # <ud|H|du>
        masked = t < first
        if exchange_on == masked:
            bad.append(f"mask ends at {first}: at t={t} exchange coupling is {'on' if exchange_on else 'off'}")
if bad:
    print("DEFECT PRESENT:", "; ".join(bad))
    sys.exit(1)
print("ok: the exchange coupling of the masked atom is off exactly while the mask is on")
