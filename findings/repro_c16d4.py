"""C16: a custom waveform takes the documented values (the samples it was
given) at every time step, and a pulse has non-negative amplitude.
CustomWaveform.__init__ stores `np.asarray(samples, dtype=float)`, which for a
float ndarray IS the caller's array (no copy).  Re-using or editing that buffer
afterwards silently rewrites the "immutable" waveform: its samples, its
integral, its hash (it is used as an lru_cache key) and even the amplitude of
an already validated, frozen Pulse.  A list or an int array is copied, so the
behaviour also depends on the container type of the same values."""
import sys

import numpy as np

from pulser import Pulse
from pulser.waveforms import CustomWaveform

problems = []

values = [1.0, 2.0, 3.0, 2.0]
buf = np.array(values)
wf = CustomWaveform(buf)
wf_from_list = CustomWaveform(values)
pulse = Pulse.ConstantDetuning(wf, 0.0, 0.0)  # validated: amplitude >= 0
h0 = hash(wf)

# The caller recycles its buffer for something else
buf[:] = [-5.0, 0.0, 0.0, 0.0]

got = wf.samples.as_array()
if not np.array_equal(got, values):
    problems.append(f"CustomWaveform({values}).samples is now {got}")
if wf != wf_from_list:
    problems.append("no longer equal to the waveform built from the same list")
if hash(wf) != h0:
    problems.append("hash(wf) changed during the object's lifetime")
amp = pulse.amplitude.samples.as_array()
if np.any(amp < 0):
    problems.append(f"validated Pulse now has amplitude samples {amp}")

# Sibling containers of the same values are (rightly) unaffected
for make in (list, tuple, lambda v: np.array(v, dtype=np.float32)):
    src = make(values)
    w = CustomWaveform(src)
    if isinstance(src, np.ndarray):
        src[0] = -5.0
    if not np.array_equal(w.samples.as_array(), values):
        problems.append(f"{type(src).__name__} input is aliased too")

if problems:
    print("FAIL")
    for p in problems:
        print("  ", p)
    sys.exit(1)
print("PASS")
