"""C06 finding 4: the DMM detuning of an atom is multiplied by the SUM of the
weights of all traps within a RELATIVE tolerance of its position.

WeightMap.get_qubit_weight_map() matches atoms to traps with np.isclose(...,
atol=1e-6) but leaves numpy's default rtol=1e-5 in place, so the matching
radius grows with the distance to the origin (1 nm at 100 um). Two distinct
traps (they differ at the 4th decimal, COORD_PRECISION is 6) that lie within
that radius are both matched to each atom, and their weights are added up.
"""
import sys

import numpy as np

from pulser import Register, Sequence
from pulser.devices import MockDevice
from pulser.sampler import sample
from pulser.waveforms import ConstantWaveform

reg = Register({"q0": (100.0, 0.0), "q1": (100.0005, 0.0), "q2": (0.0, 0.0)})
weights = {"q0": 0.25, "q1": 0.5, "q2": 1.0}
det_map = reg.define_detuning_map(weights)

seq = Sequence(reg, MockDevice)
seq.config_detuning_map(det_map, "dmm_0")
seq.add_dmm_detuning(ConstantWaveform(100, -10.0), "dmm_0")

local = sample(seq).to_nested_dict()["Local"]["ground-rydberg"]
ok = True
for q, w in weights.items():
    got = local[q]["det"]
    good = np.allclose(got, -10.0 * w)
    ok &= good
    print(
        f"{q}: weight {w} -> expected det {-10.0 * w}, sampled {got[0]}"
        f" {'ok' if good else 'WRONG'}"
    )
print("PASS" if ok else "FAIL")
sys.exit(0 if ok else 1)
