#!/usr/bin/env python3
"""Confirm a candidate seeded change in a scratch worktree and store it under /verif/seeded/<name>/.

usage: keep_seeded.py <name> <property> <diff> <demo.py> <notes.txt>
Confirms: applies cleanly; demo exits 0 on the clean tree and non-zero with the change; the full test
suite (run against the worktree's sources) still passes; records which checks report the change
(checks are run with --root on the scratch worktree, evidence redirected, /repo untouched).
"""
import json
import os
import shutil
import subprocess
import sys
import tempfile

REPO, VERIF = "/repo", "/verif"


def sh(cmd, cwd=None, env=None, timeout=2400):
    p = subprocess.run(cmd, shell=True, cwd=cwd, env=env, capture_output=True, text=True, timeout=timeout)
    return p.returncode, p.stdout + p.stderr


def main():
    name, prop, diff, demo, notes = sys.argv[1:6]
    skip_tests = "--no-tests" in sys.argv
    wt = tempfile.mkdtemp(prefix="keepwt_", dir="/tmp")
    os.rmdir(wt)
    evd = tempfile.mkdtemp(prefix="keepev_", dir="/tmp")
    rc, o = sh(f"git worktree add -q {wt} HEAD", REPO)
    assert rc == 0, o
    meta = {"name": name, "property": prop, "base_commit": sh("git rev-parse --short HEAD", REPO)[1].strip()}
    try:
        env = dict(os.environ, PYTHONPATH=f"{wt}/pulser-core:{wt}/pulser-simulation")
        rc0, _ = sh(f"/venv/bin/python -W ignore {demo}", wt, env, 900)
        rc, o = sh(f"git apply {diff}", wt)
        if rc != 0:
            print(name, "DOES NOT APPLY", o[-300:])
            return 1
        rc1, o1 = sh(f"/venv/bin/python -W ignore {demo}", wt, env, 900)
        meta["demo"] = {"clean_exit": rc0, "changed_exit": rc1, "changed_output_tail": o1.strip().splitlines()[-2:]}
        if not skip_tests:
            rct, ot = sh("/venv/bin/python -m pytest -q -p no:cacheprovider -n 6 tests 2>&1 | tail -15", wt, env, 2400)
            meta["tests_with_change"] = ot.strip().splitlines()[-1] if ot.strip() else ""
            meta["tests_pass"] = (" passed" in ot) and (" failed" not in ot) and (" error" not in ot.lower())
            if not meta["tests_pass"]:
                # tests/test_sequence_sampler.py::test_draw_samples is flaky under xdist (matplotlib figure count warning)
                # and a few sampling tests depend on the random state left by their predecessors: re-run the failed files serially
                failed = sorted({l.split("::")[0].split()[-1] for l in ot.splitlines() if l.startswith("FAILED ")})
                if failed and len(failed) <= 3:
                    rc2, o2 = sh("/venv/bin/python -m pytest -q -p no:cacheprovider " + " ".join(failed) + " 2>&1 | tail -3", wt, env, 2400)
                    meta["tests_rerun_serial"] = {"files": failed, "result": o2.strip().splitlines()[-1] if o2.strip() else ""}
                    meta["tests_pass"] = (" passed" in o2) and (" failed" not in o2) and (" error" not in o2.lower())
        caught = {}
        man = json.load(open(os.path.join(VERIF, "MANIFEST.json")))
        env2 = dict(os.environ, PSTATIC_EVIDENCE_DIR=evd)
        for c in man["checks"]:
            pid = c["property_id"]
            rc, o = sh(f"python3-vt check.py {pid} --tier quick --root {wt}", VERIF, env2, 600)
            if rc != 0:
                caught[pid] = {"exit": rc, "reports": [l.strip() for l in o.splitlines() if l.startswith(("  rule=", "ANALYSIS-ERROR"))][:8]}
        meta["reported_by"] = caught
    finally:
        sh(f"git worktree remove --force {wt}", REPO)
        shutil.rmtree(evd, ignore_errors=True)
    ok = meta["demo"]["clean_exit"] == 0 and meta["demo"]["changed_exit"] != 0 and (skip_tests or meta.get("tests_pass"))
    meta["confirmed"] = bool(ok)
    if os.path.exists(notes):
        meta["needs_to_manifest"] = open(notes).read().strip()[:1500]
    meta["ran"] = [
        "scratch worktree of /repo HEAD; demo on clean tree; git apply patch.diff; demo again; full test suite with PYTHONPATH on the worktree;",
        "python3-vt check.py <each claimed property> --tier quick --root <worktree> (evidence redirected)",
    ]
    if ok:
        d = os.path.join(VERIF, "seeded", name)
        os.makedirs(d, exist_ok=True)
        shutil.copy(diff, os.path.join(d, "patch.diff"))
        shutil.copy(demo, os.path.join(d, "demo.py"))
        json.dump(meta, open(os.path.join(d, "meta.json"), "w"), indent=1)
    print(name, "confirmed" if ok else "REJECTED", "tests:", meta.get("tests_with_change"), "reported_by:", {k: v["reports"][:1] for k, v in meta.get("reported_by", {}).items()})
    return 0


if __name__ == "__main__":
    sys.exit(main())
