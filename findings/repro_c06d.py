"""C06 finding 3: samples taken from a sequence change when the sequence is
continued, because ChannelSamples.eom_blocks is the schedule's own list of
(mutable) _EOMSettings objects.

The samples below are taken while the channel is in EOM mode, so extending
them must pad the detuning with 'detuning_off'. After the sequence leaves the
EOM mode, the very same samples object pads with zeros instead (and it also
lists EOM blocks that start after its own end).
"""
import sys
import warnings

import numpy as np

from pulser import Pulse, Register, Sequence
from pulser.devices import AnalogDevice
from pulser.sampler import sample

warnings.simplefilter("ignore")

reg = Register({"q0": (0, 0), "q1": (10, 0)})
seq = Sequence(reg, AnalogDevice)
seq.declare_channel("ryd", "rydberg_global")
seq.enable_eom_mode("ryd", amp_on=1.0, detuning_on=0.0, optimal_detuning_off=-10)
seq.add_eom_pulse("ryd", 100, 0.0)
seq.delay(52, "ryd")

samples = sample(seq)  # taken while in EOM mode; 152 ns long
ch = samples.channel_samples["ryd"]
det_off = float(ch.eom_blocks[-1].detuning_off)
before = samples.extend_duration(300).to_nested_dict()["Global"][
    "ground-rydberg"
]["det"]
n_blocks_before = len(ch.eom_blocks)
assert np.all(before[100:] == det_off) and det_off != 0

# The sequence goes on; 'samples' should be unaffected
seq.disable_eom_mode("ryd")
seq.add(Pulse.ConstantPulse(100, 1.0, 0.0, 0.0), "ryd")
seq.enable_eom_mode("ryd", amp_on=2.0, detuning_on=0.0)

after = samples.extend_duration(300).to_nested_dict()["Global"][
    "ground-rydberg"
]["det"]
ok = True
if not np.array_equal(before, after):
    ok = False
    bad = np.flatnonzero(before != after)
    print(
        "extending the same samples now pads the detuning with "
        f"{after[bad[0]]} instead of {before[bad[0]]} "
        f"for t in [{bad[0]}, {bad[-1]}]"
    )
if len(ch.eom_blocks) != n_blocks_before or ch.eom_blocks[0].tf is not None:
    ok = False
    print(
        f"the {ch.duration} ns long samples now hold EOM blocks",
        [(b.ti, b.tf) for b in ch.eom_blocks],
    )
print("PASS" if ok else "FAIL")
sys.exit(0 if ok else 1)
