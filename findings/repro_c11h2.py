"""QutipBackendV2 ignores the eigenstate order of the configured initial state.

A QutipState carries its own eigenstate order ("the order of the eigenstates
matters"). |g> given with eigenstates ("g", "r") is the vector (1, 0); the
backend hands this vector to the emulator, whose order is ("r", "g"), so the
emulation starts (and, with an all-zero drive, ends) in |r>.
An all-zero drive must leave the initial state unchanged and |g> must be
measured as 0.
"""
import sys

from pulser import Pulse, Register, Sequence
from pulser.backend import BitStrings, StateResult
from pulser.devices import MockDevice
from pulser_simulation import QutipBackendV2, QutipConfig, QutipState

reg = Register.from_coordinates([(0, 0), (0, 20)], prefix="q")
seq = Sequence(reg, MockDevice)
seq.declare_channel("ryd", "rydberg_global")
seq.add(Pulse.ConstantPulse(100, 0.0, 0.0, 0.0), "ryd")  # all-zero drive

ok = True
for eigenstates in (("r", "g"), ("g", "r")):
    # q0 in |g>, q1 in |r>
    initial = QutipState.from_state_amplitudes(
        eigenstates=eigenstates, amplitudes={"gr": 1.0}
    )
    config = QutipConfig(
        observables=[StateResult(), BitStrings(num_shots=100)],
        initial_state=initial,
    )
    res = QutipBackendV2(seq, config=config).run()
    final = res.get_result("state", 1.0)
    probs = final.probabilities()
    bits = dict(res.get_result("bitstrings", 1.0))
    print(f"initial |gr> given with eigenstates {eigenstates}: "
          f"final state {probs}, bitstrings {bits}")
    if set(probs) != {"gr"} or set(bits) != {"01"}:
        ok = False

print("PASS" if ok else "FAIL")
sys.exit(0 if ok else 1)
