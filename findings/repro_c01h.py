"""C01: Sequence._modulate_slm_mask_dmm tests the DMM's bottom_detuning / total_bottom_detuning by truthiness: a limit of
exactly 0.0 (legal: the DMM may not detune at all) is treated as undefined, the SLM-mask pulse is given -10 * max_amp,
DMM.validate_pulse refuses it, and a valid pulse on a Global channel raises (after having been appended).
Exit 1 when the defect is present."""
import dataclasses
import sys
import pulser
from pulser.channels.dmm import DMM
from pulser.devices import MockDevice

dev = dataclasses.replace(MockDevice, dmm_objects=(DMM(bottom_detuning=0.0),))
reg = pulser.Register({"q0": (0, 0), "q1": (0, 10)})
seq = pulser.Sequence(reg, dev)
seq.declare_channel("ryd", "rydberg_global")
seq.config_slm_mask(["q0"], "dmm_0")
try:
    seq.add(pulser.Pulse.ConstantPulse(100, 5, 0, 0), "ryd")
except Exception as e:  # noqa: BLE001
    print("FAIL: a valid Rydberg pulse raised", type(e).__name__, e)
    sys.exit(1)
det = seq._schedule["dmm_0"].slots[-1].type.detuning.samples.as_array()
print("SLM-mask detuning:", set(det.tolist()))
sys.exit(0 if set(det.tolist()) == {0.0} else 1)
