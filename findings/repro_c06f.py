"""C06 finding 1: to_nested_dict() adds up the phases of channels that share a
basis, even at times where only one of them is playing a pulse.

Two Global Rydberg channels play one pulse each, one after the other:
  'a': [0, 100)   amp 1, phase pi/2
  'b': [100, 200) amp 2, phase pi
The per-basis view must show phase pi/2 over the first pulse and pi over the
second. The unchanged code shows 3*pi/2 over both (pi/2 + pi), i.e. both
pulses are rendered with a wrong rotation axis. The all_local=True view of the
very same samples is right, so the two views disagree.
"""
import sys

import numpy as np

from pulser import Pulse, Register, Sequence
from pulser.devices import MockDevice
from pulser.sampler import sample

reg = Register({"q0": (0, 0), "q1": (10, 0)})
seq = Sequence(reg, MockDevice)
seq.declare_channel("a", "rydberg_global")
seq.declare_channel("b", "rydberg_global")
seq.add(Pulse.ConstantPulse(100, 1.0, 0.0, np.pi / 2), "a")
seq.add(Pulse.ConstantPulse(100, 2.0, 0.0, np.pi), "b")  # waits for 'a'

samples = sample(seq)
# The per-channel arrays are right
cs_a, cs_b = samples.channel_samples["a"], samples.channel_samples["b"]
assert np.all(cs_a.phase.as_array()[:100] == np.pi / 2)
assert np.all(cs_b.phase.as_array()[100:200] == np.pi)

ok = True
glob = samples.to_nested_dict()["Global"]["ground-rydberg"]
loc = samples.to_nested_dict(all_local=True)["Local"]["ground-rydberg"]["q0"]
for name, view in (("Global view", glob), ("all_local view (q0)", loc)):
    assert np.all(view["amp"][:100] == 1.0) and np.all(view["amp"][100:] == 2.0)
    for (ti, tf, want) in ((0, 100, np.pi / 2), (100, 200, np.pi)):
        got = view["phase"][ti:tf]
        good = np.allclose(got, want)
        ok &= good
        print(
            f"{name}: pulse [{ti},{tf}) phase={want:.4f} -> sampled "
            f"{got[0]:.4f} {'ok' if good else 'WRONG'}"
        )

print("PASS" if ok else "FAIL")
sys.exit(0 if ok else 1)
