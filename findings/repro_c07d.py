"""C07 finding 2: modify_eom_setpoint(correct_phase_drift=True) on a channel
that has nothing on it yet applies a spurious EOM drift correction.

With an empty channel no buffer is added, no time elapses and the detuning
never sat at `detuning_off`, so the drift correction must be zero and the
phase reference must stay at the sum of the (zero) shifts applied. Instead the
old block's drift is evaluated at the `ti` of the last slot, which is the
initial "target" slot with the sentinel ti = -1, i.e. a drift over "-1 ns":
the reference becomes -detuning_off * 1e-3 rad and the first EOM pulse is
scheduled with that phase instead of its programmed one.
"""
import sys
import warnings

import numpy as np

from pulser import Register, Sequence
from pulser.devices import AnalogDevice

warnings.simplefilter("ignore")
TWO_PI = 2 * np.pi


def dist_mod_2pi(a: float, b: float) -> float:
    d = (a - b) % TWO_PI
    return min(d, TWO_PI - d)


reg = Register({"q0": (0, 0), "q1": (0, 10)})
failures = []
for amp_on in (5.0, 12.0):
    seq = Sequence(reg, AnalogDevice)
    seq.declare_channel("ch", "rydberg_global")
    seq.enable_eom_mode("ch", amp_on, 0.0, correct_phase_drift=True)
    ref_before = seq.current_phase_ref("q0", "ground-rydberg")
    det_off_old = float(seq._schedule["ch"].eom_blocks[-1].detuning_off)
    seq.modify_eom_setpoint("ch", amp_on / 2, 0.0, correct_phase_drift=True)
    ref_after = seq.current_phase_ref("q0", "ground-rydberg")
    duration = seq.get_duration()
    seq.add_eom_pulse("ch", 100, 0.0, correct_phase_drift=True)
    pulse_slot = seq._last("ch")
    pulse_phase = float(pulse_slot.type.phase)
    print(
        f"amp_on={amp_on}: old detuning_off={det_off_old:.4f} rad/us, "
        f"elapsed time={duration} ns, ref before={ref_before!r}, "
        f"ref after modify_eom_setpoint={ref_after!r}, first EOM pulse "
        f"[{pulse_slot.ti}, {pulse_slot.tf}] scheduled with phase "
        f"{pulse_phase!r} (programmed 0.0)"
    )
    if duration != 0:
        failures.append("unexpected: a buffer was added on an empty channel")
    if dist_mod_2pi(ref_after, 0.0) > 1e-12:
        failures.append(
            f"amp_on={amp_on}: no time elapsed but the reference moved by "
            f"{ref_after!r} rad (= -detuning_off * 1e-3 = "
            f"{-det_off_old * 1e-3!r})"
        )
    if dist_mod_2pi(pulse_phase, 0.0) > 1e-12:
        failures.append(
            f"amp_on={amp_on}: first pulse at t=0 scheduled with phase "
            f"{pulse_phase!r} instead of 0.0"
        )

if failures:
    print("FAIL")
    for f in failures:
        print("  -", f)
    sys.exit(1)
print("PASS")
