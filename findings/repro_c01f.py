"""C01 finding 3: a detuning EXACTLY at the channel's max_abs_detuning is
rejected whenever the limit's 7th decimal rounds up (the samples are rounded
to 6 decimals but compared with the unrounded limit)."""
import sys
import warnings

import numpy as np

from pulser import Pulse, Register, Sequence
from pulser.channels import Rydberg
from pulser.devices import VirtualDevice

warnings.simplefilter("ignore")
reg = Register.from_coordinates([(0, 0), (0, 10)], prefix="q")
failures = []

for k in range(1, 13):
    lim = 2 * np.pi * k  # limits are customarily given as 2*pi*MHz
    ch = Rydberg.Global(max_abs_detuning=lim, max_amp=10)
    dev = VirtualDevice(
        name="dev", dimensions=2, rydberg_level=60, channel_objects=(ch,)
    )
    seq = Sequence(reg, dev)
    seq.declare_channel("ch", "rydberg_global")
    for det in (lim, -lim):
        assert abs(det) <= ch.max_abs_detuning  # inside the limit
        try:
            seq.add(Pulse.ConstantPulse(100, 1, det, 0), "ch")
        except ValueError as e:
            failures.append(f"detuning {det!r} == limit rejected")
            print(f"max_abs_detuning=2*pi*{k}={lim!r}: detuning {det!r} "
                  f"REJECTED ({e})")
    # Just outside the limit (beyond the 1e-6 tolerance) must be refused
    try:
        seq.add(Pulse.ConstantPulse(100, 1, lim + 2e-6, 0), "ch")
        failures.append(f"detuning {lim}+2e-6 accepted")
    except ValueError:
        pass

if failures:
    print(f"FAIL: {len(failures)} in-limit pulses rejected / out-of-limit "
          "pulses accepted")
    sys.exit(1)
print("PASS")
