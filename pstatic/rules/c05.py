"""C05 -- the emulated Hamiltonian equals the documented formula (narrow)."""
from __future__ import annotations

import ast
import os
import re

from ..absval import abstractor
from ..engine import Engine
from ..model import AnalysisError, dotted, norm
from ..report import Report
from .common import linear_factor, own_nodes, returns

EXPLANATION = (
    "TABLE: the state order used by the emulator (STATES_RANK, EIGENSTATES) agrees with the documented vector convention (docs/source/conventions.md: |r>,|g>,|h>; ground-rydberg r,g; digital g,h) and with the operator labels used to "
    "build the drive: for a basis with ordered eigenstates [a, b] the drive operators are ['sigma_'+b+a, 'sigma_'+a+a] (gr/rr, hg/gg, du/uu); _get_basis_op_matrices names sigma_xy = |x><y| and places basis vector i at position i "
    "of the eigenbasis; the tensor product follows the register order (op_list[k] with k from _qid_index, built by enumerating the register). SIB/PAIR: the Hamiltonian is symmetrised exactly once (ham + ham.dag()) and every "
    "Hermitian (diagonal) contribution -- the detuning coefficient and the van der Waals term -- carries the factor 1/2, the amplitude coefficient is 0.5*amp*exp(-1j*phase); the Global and Local branches build identical coefficient "
    "expressions. GUARD: make_xy_term iff the interaction is 'XY', vdW otherwise; SLM-masked pairs are skipped only in XY; the interaction is built iff 'digital' is not the basis; C6/R^6 and C3(1-3cos^2)/R^3 shapes (powers). "
    "NOT decided: every matrix entry / numeric equality with the formula (runtime)."
)
ASSUMPTIONS = ["structural match of coefficient expressions; the documented convention is read from docs/source/conventions.md"]

HAM = "pulser_simulation.hamiltonian.Hamiltonian"


def run(E: Engine, rep: Report, tier: str) -> dict:
    P = E.P
    chm = P.module("pulser.channels.base_channel")
    eig = P.fold(chm, chm.assigns["EIGENSTATES"])
    rank = list(P.fold(chm, chm.assigns["States"]))
    # ---------------------------------------------------------- TABLE: docs
    doc_path = os.path.join(P.root, "docs", "source", "conventions.md")
    if os.path.exists(doc_path):
        doc = open(doc_path, encoding="utf-8").read()
        m = re.search(r"\|r\\rangle = \(1, 0, 0\)\^T.*\|g\\rangle = \(0, 1, 0\)\^T.*\|h\\rangle = \(0, 0, 1\)\^T", doc)
        rep.check(m is not None, "TABLE", "docs|qutrit-order-r-g-h", "documented qutrit order is (r, g, h)", "docs/source/conventions.md no longer documents the (r, g, h) vector order", "docs/source/conventions.md")
        order3 = [s for s in rank if s in ("r", "g", "h")]
        rep.check(order3 == ["r", "g", "h"], "TABLE", "STATES_RANK|r-g-h", f"STATES_RANK orders {order3}", f"STATES_RANK orders the qutrit states as {order3}, the documentation says r, g, h", E.where_mod(chm.relpath, chm.assigns["States"]))
        gr = re.search(r"`ground-rydberg`: \$\|r\\rangle = \(1, 0\)\^T,~~\|g\\rangle = \(0, 1\)\^T\$", doc)
        dg = re.search(r"`digital`: \$\|g\\rangle = \(1, 0\)\^T,~~\|h\\rangle = \(0, 1\)\^T\$", doc)
        rep.check(gr is not None and eig.get("ground-rydberg") == ["r", "g"], "TABLE", "EIGENSTATES|ground-rydberg", "r, g as documented", f"EIGENSTATES['ground-rydberg'] = {eig.get('ground-rydberg')} vs documentation (r, g)", E.where_mod(chm.relpath, chm.assigns["EIGENSTATES"]))
        rep.check(dg is not None and eig.get("digital") == ["g", "h"], "TABLE", "EIGENSTATES|digital", "g, h as documented", f"EIGENSTATES['digital'] = {eig.get('digital')} vs documentation (g, h)", E.where_mod(chm.relpath, chm.assigns["EIGENSTATES"]))
    else:
        rep.error("docs/source/conventions.md not found")
    rep.check(eig.get("XY") == ["u", "d"], "TABLE", "EIGENSTATES|XY", "u, d", f"EIGENSTATES['XY'] = {eig.get('XY')}", E.where_mod(chm.relpath, chm.assigns["EIGENSTATES"]))
    for b, st in eig.items():
        rep.check([s for s in rank if s in st] == st, "TABLE", f"EIGENSTATES|{b}|consistent-with-STATES_RANK", "listed in rank order", f"EIGENSTATES['{b}'] = {st} is not in STATES_RANK order {rank}", E.where_mod(chm.relpath, chm.assigns["EIGENSTATES"]))
    # op_ids per basis
    ch = E.method(HAM, "_construct_hamiltonian")
    bco = ch.nested.get("build_coeffs_ops")
    if bco is None:
        raise AnalysisError("anchor: build_coeffs_ops not found")
    op_ids = {}
    for n in ast.walk(bco.node):
        if isinstance(n, ast.If) and isinstance(n.test, ast.Compare) and norm(n.test.left) == "basis" and isinstance(n.test.comparators[0], ast.Constant):
            for s in n.body:
                if isinstance(s, ast.Assign) and norm(s.targets[0]) == "op_ids" and isinstance(s.value, ast.List):
                    op_ids[n.test.comparators[0].value] = [e.value for e in s.value.elts if isinstance(e, ast.Constant)]
    for b, st in eig.items():
        a, b2 = st
        want = ["sigma_" + b2 + a, "sigma_" + a + a]
        rep.check(op_ids.get(b) == want, "TABLE", f"build_coeffs_ops|op_ids|{b}", f"{want}", f"drive operators for basis '{b}' are {op_ids.get(b)}, the documented formula needs {want} (|{b2}><{a}| for the drive, |{a}><{a}| for the detuning)", E.where(bco))
    # _get_basis_op_matrices
    gb = E.method(HAM, "_get_basis_op_matrices")
    src = norm(gb.node)
    rep.check("qutip.basis(dim, i) for i, b in enumerate(eigenbasis)" in src, "TABLE", "_get_basis_op_matrices|basis-by-position", "basis vector i <-> i-th eigenstate", "basis vectors are no longer placed by position in the eigenbasis", E.where(gb))
    ok = False
    for n in own_nodes(gb):
        if isinstance(n, ast.Assign) and "op_matrix[proj_name]" in norm(n.targets[0]):
            ok = norm(n.value).replace(" ", "") == "basis[proj0]*basis[proj1].dag()"
    name_ok = any(isinstance(n, ast.Assign) and norm(n.targets[0]) == "proj_name" and norm(n.value).replace(" ", "") == "'sigma_'+proj0+proj1" for n in own_nodes(gb))
    rep.check(ok and name_ok, "TABLE", "_get_basis_op_matrices|sigma_xy=|x><y|", "sigma_xy = |x><y|", "the projector naming changed (sigma_xy must be |x><y|)", E.where(gb))
    ge = E.method(HAM, "_get_eigenbasis")
    rep.check("for state in STATES_RANK if state in eigenbasis" in norm(ge.node), "TABLE", "_get_eigenbasis|rank-order", "eigenbasis sorted by STATES_RANK", "the eigenbasis is no longer ordered by STATES_RANK", E.where(ge))
    # tensor order
    bo = E.method(HAM, "_build_operator")
    s2 = norm(bo.node)
    rep.check("k = self._qid_index[qubit]" in s2 and "op_list[k] = operator" in s2 and "qutip.tensor(op_list)" in s2, "TABLE", "_build_operator|register-tensor-order", "operator placed at the register index of the qubit", "the tensor-product placement of local operators changed", E.where(bo))
    init = E.method(HAM, "__init__")
    rep.check(any("enumerate(self._qdict)" in norm(n) and "_qid_index" in norm(n) for n in own_nodes(init)), "TABLE", "Hamiltonian|_qid_index-from-register-order", "qubit index = position in the register", "_qid_index is no longer the enumeration of the register's qubits", E.where(init))
    rep.floor("TABLE", 12)

    # ---------------------------------------------------------------- SIB
    lists = []
    for n in own_nodes(bco):
        if isinstance(n, ast.Assign) and norm(n.targets[0]) == "coeffs" and isinstance(n.value, ast.List) and len(n.value.elts) == 2:
            lists.append(n)
    if len(lists) != 2:
        raise AnalysisError(f"expected 2 coefficient lists in build_coeffs_ops, found {len(lists)}")
    def canon(e: ast.AST):
        f, rest = linear_factor(e)
        return f, tuple(r.replace("samples_q", "S").replace("samples", "S").replace(" ", "").replace('"', "'") for r in rest)

    g, l = lists
    rep.check([canon(x) for x in g.value.elts] == [canon(x) for x in l.value.elts], "SIB", "build_coeffs_ops|global-local-same-coefficients", "Global and Local branches build the same coefficient expressions", f"Global {[canon(x) for x in g.value.elts]} vs Local {[canon(x) for x in l.value.elts]}", E.where(bco, l))
    (fa, ra), (fd, rd) = canon(g.value.elts[0]), canon(g.value.elts[1])
    exp_ok = False
    for n in ast.walk(g.value.elts[0]):
        if isinstance(n, ast.Call) and (dotted(n.func) or "").split(".")[-1] == "exp" and n.args:
            fe, re_ = canon(n.args[0])
            exp_ok = fe == -1j and re_ == ("S['phase']",)
    rep.check(fa == 0.5 and "S['amp']" in ra and len(ra) == 2 and exp_ok, "SIB", "build_coeffs_ops|amp=0.5*amp*exp(-i*phase)", "Omega/2 e^{-i phi}", f"amplitude coefficient is {fa} * {ra}: the documented drive is (Omega/2) e^(-i phi)", E.where(bco, g))
    rep.check(fd == -0.5 and rd == ("S['det']",), "SIB", "build_coeffs_ops|det=-0.5*det", "-delta/2 before symmetrisation (-> -delta after ham + ham.dag())", f"detuning coefficient is {fd} * {rd}: with the single symmetrisation ham + ham.dag() a Hermitian term must carry -1/2", E.where(bco, g))
    # zip order op_ids <-> coeffs
    zs = [norm(n) for n in own_nodes(bco) if isinstance(n, ast.Call) and (dotted(n.func) or "") == "zip"]
    rep.check(all(("op_ids" in z and "coeffs" in z) for z in zs) and len(zs) == 2, "SIB", "build_coeffs_ops|ops-zipped-with-coeffs", "operators and coefficients paired positionally", f"zip calls: {zs}", E.where(bco))
    # symmetrised exactly once
    syms = [n for n in own_nodes(ch) if isinstance(n, ast.BinOp) and isinstance(n.op, ast.Add) and norm(n.right).endswith(".dag()") and norm(n.right)[:-6] == norm(n.left)]
    rep.check(len(syms) == 1 and norm(syms[0]) == "ham + ham.dag()", "PAIR", "_construct_hamiltonian|symmetrised-once", "ham = ham + ham.dag() exactly once", f"{len(syms)} symmetrisations found", E.where(ch))
    vdw = ch.nested.get("make_vdw_term")
    xy = ch.nested.get("make_xy_term")
    u = [n for n in own_nodes(vdw) if isinstance(n, ast.Assign) and norm(n.targets[0]) == "U"]
    fu, ru = linear_factor(u[0].value) if u else (None, ())
    rep.check(bool(u) and fu == 0.5 and ru == ("1/(dist ** 6)", "self._device.interaction_coeff"), "PAIR", "make_vdw_term|half-C6-over-R6", "U = 0.5 * C6 / R^6 (Hermitian term, halved before symmetrisation)", f"vdW coefficient is {norm(u[0].value) if u else '?'}", E.where(vdw))
    rep.check(any("('sigma_rr', [q1, q2])" in norm(n) for n in own_nodes(vdw)), "PAIR", "make_vdw_term|n_i-n_j", "acts with sigma_rr on both atoms", "the vdW operator is no longer sigma_rr x sigma_rr", E.where(vdw))
    u = [n for n in own_nodes(xy) if isinstance(n, ast.Assign) and norm(n.targets[0]) == "U"]
    us = norm(u[0].value).replace(" ", "") if u else ""
    fx, rx = linear_factor(u[0].value) if u else (None, ())
    rep.check(fx == 1 and rx == ("1 - 3 * cosine ** 2", "1/(dist ** 3)", "self._device.interaction_coeff_xy"), "PAIR", "make_xy_term|C3(1-3cos^2)/R^3", "U = C3 (1 - 3 cos^2) / R^3 on a non-Hermitian product (no 1/2)", f"XY coefficient is {us}", E.where(xy))
    # cos(theta) = (r . B) / (|r| |B|): both norms divide
    cs_ = [n for n in own_nodes(xy) if isinstance(n, ast.Assign) and norm(n.targets[0]) == "cosine"]
    den = set()
    norms = {}
    for n in own_nodes(xy):
        if isinstance(n, ast.Assign) and isinstance(n.value, ast.Call) and (dotted(n.value.func) or "").endswith("linalg.norm") and isinstance(n.targets[0], ast.Name):
            norms[n.targets[0].id] = norm(n.value.args[0])
    for c_ in cs_:
        for sub in ast.walk(c_.value):
            if isinstance(sub, ast.BinOp) and isinstance(sub.op, ast.Div):
                den |= {x.id for x in ast.walk(sub.right) if isinstance(x, ast.Name)}
    normed = {norms[d] for d in den if d in norms}
    rep.check(bool(cs_) and {"diff_vector", "mag_field"} <= normed, "PAIR", "make_xy_term|cosine-normalised-by-both-norms", "cos(theta) = r.B / (|r| |B|)", f"the angle cosine is divided by the norms of {sorted(normed)} only: it must be normalised by both the inter-atomic distance and the magnetic-field norm", E.where(xy))
    rep.check(any("('sigma_ud', [q1]), ('sigma_du', [q2])" in norm(n) for n in own_nodes(xy)), "PAIR", "make_xy_term|exchange-operator", "sigma_ud(q1) sigma_du(q2) (+ h.c. by symmetrisation)", "the XY exchange operator changed", E.where(xy))
    rep.floor("SIB", 4)
    rep.floor("PAIR", 6)

    # -------------------------------------------------------------- GUARD
    mit = ch.nested.get("make_interaction_term")
    ab = abstractor(E.flow(mit))
    sel_ok = False
    for n in own_nodes(mit):
        if isinstance(n, ast.If) and norm(n.test).replace('"', "'") == "self._interaction == 'XY'":
            sel_ok = "make_xy_term" in norm(ast.Module(body=n.body, type_ignores=[])) and "make_vdw_term" in norm(ast.Module(body=n.orelse, type_ignores=[]))
    rep.check(sel_ok, "GUARD", "make_interaction_term|xy-iff-XY", "XY exchange iff the interaction is 'XY', van der Waals otherwise", "the interaction selection changed", E.where(mit))
    skip_ok = False
    for n in own_nodes(mit):
        if isinstance(n, ast.If) and isinstance(n.body[0], ast.Continue):
            t = norm(n.test).replace('"', "'")
            skip_ok = "masked and self._interaction == 'XY' and (q1 in self.samples_obj._slm_mask.targets or q2 in self.samples_obj._slm_mask.targets)" in t and "self._bad_atoms[q1] or self._bad_atoms[q2]" in t
    rep.check(skip_ok, "GUARD", "make_interaction_term|masked-pairs-only-in-xy", "pairs with a masked atom are decoupled only while masked and in XY", "the pair-skipping condition changed", E.where(mit))
    dig_ok = any(isinstance(n, ast.If) and "'digital' not in self.basis_name" in norm(n.test).replace('"', "'") and "effective_size > 1" in norm(n.test) for n in own_nodes(ch))
    rep.check(dig_ok, "GUARD", "_construct_hamiltonian|interaction-iff-not-digital", "interaction built iff the Rydberg/XY states are in the basis", "the condition for building the interaction changed", E.where(ch))
    slm_ok = any(isinstance(n, ast.If) and "_slm_mask.end > 0" in norm(n.test) and "self._interaction == 'XY'" in norm(n.test).replace('"', "'") for n in own_nodes(ch))
    rep.check(slm_ok, "GUARD", "_construct_hamiltonian|time-dependent-mask-only-xy", "the masked/unmasked interaction split exists only with an SLM mask in XY", "the SLM-mask interaction split condition changed", E.where(ch))
    cz = [n for n in own_nodes(ch) if isinstance(n, ast.Assign) and isinstance(n.targets[0], ast.Subscript) and norm(n.targets[0].value) == "coeff" and norm(n.value) == "0"]
    rep.check(bool(cz) and norm(cz[0].targets[0].slice).replace(" ", "") == "0:self.samples_obj._slm_mask.end", "GUARD", "_construct_hamiltonian|unmasked-off-during-mask", "full interaction switched off exactly during [0, mask end)", "the mask interval of the interaction coefficient changed", E.where(ch))
    rep.floor("GUARD", 5)
    return {"op_ids": op_ids}
