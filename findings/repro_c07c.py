"""C07 finding 1: phase references that are equal modulo 2pi are treated as
different because they are compared as exact floats.

The phase reference of an atom is stored as ``(previous + phi) % 2pi``. Two
atoms that received the same total shift through different histories (a shift
by a multiple of 2pi, 0.1 + 0.2 versus 0.3, phi followed by -phi ...) end up
with floats that differ in the last bit. ``Sequence.add()``,
``Sequence.target()`` and ``Sequence.estimate_added_delay()`` put the
references of the targets in a ``set`` and refuse the operation when the set
has more than one element, so a pulse on atoms whose references are the same
(mod 2pi) is never scheduled.
"""
import sys
import warnings

import numpy as np

from pulser import Pulse, Register, Sequence
from pulser.devices import MockDevice

warnings.simplefilter("ignore")
TWO_PI = 2 * np.pi


def dist_mod_2pi(a: float, b: float) -> float:
    d = (a - b) % TWO_PI
    return min(d, TWO_PI - d)


failures = []

# --- Case 1: a shift by exactly 2pi (the identity) on one atom ------------
reg = Register({"q0": (0, 0), "q1": (0, 10)})
seq = Sequence(reg, MockDevice)
seq.declare_channel("g", "rydberg_global")
seq.add(Pulse.ConstantPulse(100, 1.0, 0.0, 0.0, post_phase_shift=-0.3), "g")
seq.phase_shift(TWO_PI, "q0", basis="ground-rydberg")
r0 = seq.current_phase_ref("q0", "ground-rydberg")
r1 = seq.current_phase_ref("q1", "ground-rydberg")
print(f"case 1: refs q0={r0!r} q1={r1!r} (distance mod 2pi = "
      f"{dist_mod_2pi(r0, r1):.1e})")
assert dist_mod_2pi(r0, -0.3) < 1e-12 and dist_mod_2pi(r1, -0.3) < 1e-12
try:
    seq.add(Pulse.ConstantPulse(100, 1.0, 0.0, 0.5), "g")
    scheduled = float(seq._last("g").type.phase)
    if dist_mod_2pi(scheduled, 0.5 - 0.3) > 1e-9:
        failures.append(f"case 1: scheduled phase {scheduled}")
except ValueError as e:
    failures.append(f"case 1: global pulse refused: {e}")

# --- Case 2: 0.1 + 0.2 on one atom, 0.3 on the other, multi-target -------
seq = Sequence(reg, MockDevice)
seq.declare_channel("l", "raman_local", initial_target="q0")
seq.phase_shift(0.1, "q0")
seq.phase_shift(0.2, "q0")
seq.phase_shift(0.3, "q1")
print(f"case 2: refs q0={seq.current_phase_ref('q0')!r} "
      f"q1={seq.current_phase_ref('q1')!r}")
try:
    seq.target(["q0", "q1"], "l")
    seq.add(Pulse.ConstantPulse(100, 1.0, 0.0, 1.0), "l")
    scheduled = float(seq._last("l").type.phase)
    if dist_mod_2pi(scheduled, 1.3) > 1e-9:
        failures.append(f"case 2: scheduled phase {scheduled}")
except ValueError as e:
    failures.append(f"case 2: multi-target refused: {e}")

# --- Case 3: a tiny negative shift wraps the stored reference to 2pi -------
seq = Sequence(reg, MockDevice)
seq.declare_channel("g", "raman_global")
seq.phase_shift(0.3 - (0.1 + 0.2), "q0")  # -5.55e-17
print(f"case 3: refs q0={seq.current_phase_ref('q0')!r} "
      f"q1={seq.current_phase_ref('q1')!r}")
try:
    delay = seq.estimate_added_delay(Pulse.ConstantPulse(100, 1.0, 0.0, 0.0), "g")
    seq.add(Pulse.ConstantPulse(100, 1.0, 0.0, 0.0), "g")
    scheduled = float(seq._last("g").type.phase)
    if dist_mod_2pi(scheduled, 0.0) > 1e-9:
        failures.append(f"case 3: scheduled phase {scheduled}")
except ValueError as e:
    failures.append(f"case 3: global pulse refused: {e}")

# --- Sanity: genuinely different references must still be refused ---------
seq = Sequence(reg, MockDevice)
seq.declare_channel("g", "raman_global")
seq.phase_shift(0.01, "q0")
try:
    seq.add(Pulse.ConstantPulse(100, 1.0, 0.0, 0.0), "g")
    failures.append("sanity: pulse on atoms with different references accepted")
except ValueError:
    pass

if failures:
    print("FAIL")
    for f in failures:
        print("  -", f)
    sys.exit(1)
print("PASS")
