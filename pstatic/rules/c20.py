"""C20 -- observables and results are correct functions of the emulated state (narrow)."""
from __future__ import annotations

import ast

from ..absval import abstractor
from ..engine import Engine
from ..model import AnalysisError, dotted, norm
from ..report import Report
from .. import sym
from .symutil import S, arg, elem_of, has, is_, mentions, sh, unobj
from .common import own_nodes, returns

EXPLANATION = (
    "TT: the storing condition of Observable.__call__ is checked against the documented truth table over the atoms (own = evaluation_times is not None, t in own times, t in default times): it must be "
    "(own and t in own) or (not own and t in default) -- an observable with its own evaluation times is not also evaluated at the configuration's default times. "
    "GUARD: no hard-coded qudit dimension: the zero density matrix accumulated in the stochastic branch of QutipBackendV2.run is sized from the emulator's dimension, not a literal; both branches of run() call every "
    "observable with the same keyword set; Results._store_raw rejects a repeated time and requires ascending times; default observables read their operands from the state/hamiltonian they are given "
    "(Energy: hamiltonian.expect(state); second moment: (hamiltonian @ hamiltonian).expect(state); variance = second moment - energy**2). "
    "The time-matching tolerance is c/total_duration with 0 < c <= 0.5 (half a step: two consecutive solver times never match one requested time). QutipState.probabilities squares ket amplitudes and does not square "
    "the diagonal of a density matrix; QutipOperator.expect returns qutip.expect(op, state) whole (no real/imaginary/absolute part: operators need not be Hermitian). "
    "NOT decided: the numeric values of the observables (runtime)."
    ' Round 4 (added): a bra handed to QutipState is stored as its adjoint (.dag()); QutipState.overlap uses the squared modulus only under a test that both states are kets.'
    ' Round 5 (added): the energy moments are expectation values ((H @ H).expect(state), H.expect(state)), defined for density matrices too;'
    " the stochastic branch of QutipBackendV2.run hands get_hamiltonian(..., noiseless=True) to the observables; in the configuration rebuilt around the emulated noise model the 'noise_model' key follows the ** spread of the user's options (later keys win)."
    ' Round 7 (added after the sixth, smaller round of breaking changes): QutipState.sample passes a cutoff of at most 1e-2 / num_shots to bitstring_probabilities (outcomes below the cutoff are dropped and the rest renormalised).'
)
ASSUMPTIONS = ["the truth table is evaluated over the three atoms of the path condition of the storing call, read off the symbolic normal form (pstatic/sym.py)"]


def _tt(t, env_of) -> bool:
    if t == sym.TRUE:
        return True
    if t[0] == "and":
        return all(_tt(x, env_of) for x in t[1:])
    if t[0] == "or":
        return any(_tt(x, env_of) for x in t[1:])
    if t[0] == "not":
        return not _tt(t[1], env_of)
    v = env_of(t)
    if v is None:
        raise KeyError(sym.show(t))
    return v


def run(E: Engine, rep: Report, tier: str) -> dict:
    P = E.P
    call = E.fn("pulser.backend.observable.Observable.__call__")
    Sc = S(E, call)
    # ----------------------------------------------------------------- TT
    st = [l for l in Sc.log if l.kind == "call" and l.target is not None and l.target[0] == "attr" and l.target[2] == "_store"]
    if not st:
        raise AnalysisError("anchor: storing call of Observable.__call__ not found")
    cond = st[-1].cond
    seen = set()
    tols = set()

    def classify(t):
        """(atom name, polarity) of a leaf of the storing condition."""
        if t[0] == "cmp" and t[1] in ("Is", "IsNot") and sym.NONE in (t[2], t[3]) and ("attr", ("name", "self"), "evaluation_times") in (t[2], t[3]):
            return "own", t[1] == "IsNot"
        if t[0] == "call" and t[1][0] == "attr" and t[1][2] == "is_time_in_evaluation_times":
            tols.update(v for k, v in t[3] if k == "tol")
            return "in_own", True
        if t[0] == "call" and t[1][0] == "attr" and t[1][2] == "is_evaluation_time":
            tols.update(v for k, v in t[3] if k == "tol")
            return "in_default", True
        return None

    ok = True
    bad_rows = []
    try:
        for own in (False, True):
            for in_own in (False, True):
                for in_def in (False, True):
                    if not own and in_own:
                        continue  # t cannot be in non-existing own times
                    vals = {"own": own, "in_own": in_own, "in_default": in_def}

                    def env_of(t):
                        c = classify(t)
                        if c is None:
                            return None
                        seen.add(c[0])
                        return vals[c[0]] if c[1] else not vals[c[0]]

                    got = _tt(cond, env_of)
                    want = (own and in_own) or ((not own) and in_def)
                    if got != want:
                        ok = False
                        bad_rows.append(f"own={own}, t_in_own={in_own}, t_in_default={in_def}: stores={got}, expected {want}")
    except KeyError as e:
        ok = False
        bad_rows.append(f"condition has an atom the rule does not know: {e}")
    rep.check(ok and seen == {"own", "in_own", "in_default"}, "TT", "Observable.__call__|stores-iff-own-times-else-default-times", "stores iff (own and t in own) or (not own and t in default) -- 6 rows",
              f"the storing condition `{sh(cond, 200)}` deviates from the documented behaviour: {bad_rows}", E.where(call, st[-1].node))
    rep.check(len(tols) == 1, "TT", "Observable.__call__|same-tolerance", f"tolerance {[sh(t, 60) for t in tols]}", f"different tolerances {[sh(t, 60) for t in tols]} for own and default times", E.where(call, st[-1].node))
    # the tolerance is at most half a time step (1/total_duration is one ns in relative time): with more, two
    # consecutive solver times can both match one requested evaluation time, and the result is stored twice
    for tol in tols:
        m_ = is_(tol, "Q_c / result.total_duration if result.total_duration else Q_e")
        c_ = m_["Q_c"] if m_ else None
        ok_c = c_ is not None and c_[0] == "const" and isinstance(c_[1], (int, float)) and 0 < c_[1] <= 0.5
        rep.check(ok_c, "TT", "Observable.__call__|tolerance<=half-a-step", "time tolerance = c / total_duration with 0 < c <= 0.5",
                  f"the time-matching tolerance is `{sh(tol, 100)}`: it must be at most half a nanosecond in relative time (c / total_duration with c <= 0.5), otherwise two consecutive solver times match the same requested evaluation time and one requested time gets two stored values", E.where(call, st[-1].node))
    rep.floor("TT", 3)

    # -------------------------------------------------------------- GUARD
    run_ = E.fn("pulser_simulation.qutip_backend.QutipBackendV2.run")
    Sr = S(E, run_)
    zeros = [l for l in Sr.log if l.kind == "call" and l.target is not None and l.target[0] == "attr" and l.target[2] == "zeros"]
    if not zeros:
        rep.ok("GUARD", "QutipBackendV2.run|no-zero-matrix-literal", "no zero matrix is built", E.where(run_))
    for z in zeros:
        shape = arg(z, 0)
        dims = shape[1:] if shape is not None and shape[0] in ("tuple", "list") else (shape,)
        lit = shape is not None and all(x is not None and x[0] == "const" for x in dims)
        rep.check(not lit, "GUARD", f"QutipBackendV2.run|qudit-dimension-not-hard-coded|np.zeros({sh(shape, 20)})", f"accumulator sized by {sh(shape, 60)}",
                  f"`{sh(z.value, 60)}` hard-codes the single-atom dimension: with a three- or four-level basis (two bases addressed, or leakage) the stochastic branch cannot accumulate the density matrices", E.where(run_, z.node))
    # both branches call the observables the same way
    obs_calls = [l for l in Sr.log if l.kind == "call" and l.target is not None and l.target[0] == "elem" and l.target[1] == sym.Pattern("self._config.observables").term]
    kwsets = {tuple(sorted(k for k, _v in c.value[3])) for c in obs_calls}
    branches_ = {tuple(x for x in sym.conj_of(c.cond)) for c in obs_calls}
    rep.check(len(obs_calls) >= 2 and len(branches_) >= 2 and len(kwsets) == 1 and set(next(iter(kwsets))) == {"config", "t", "state", "hamiltonian", "result"} and all(not c.value[2] for c in obs_calls), "GUARD", "QutipBackendV2.run|observables-called-uniformly", "noiseless and stochastic branches call obs(config, t, state, hamiltonian, result)", f"observable call sites differ: {sorted(kwsets)} in {len(branches_)} branch(es)", E.where(run_))
    sr = E.fn("pulser.backend.results.Results._store_raw")
    Ss = S(E, sr)
    times = sym.Pattern("self._times.setdefault(uuid, [])").term
    dup = any(l.kind == "raise" and any(x == sym.mk_cmp("In", ("name", "time"), t_) for x in sym.conj_of(l.cond) for t_ in (times,) + tuple(o for o in sym.subterms(x) if o[0] == "obj" and o[2] == times)) for l in Ss.log)
    asc = any(l.kind == "test" and isinstance(l.node, ast.Assert) and any(is_(x, "Q_t[-1] < time") is not None and unobj(is_(x, "Q_t[-1] < time")["Q_t"]) == times for x in sym.subterms(l.value)) for l in Ss.log)
    rep.check(dup, "GUARD", "Results._store_raw|one-value-per-time", "a second value for the same time is rejected", "Results._store_raw no longer rejects a repeated time", E.where(sr))
    rep.check(asc, "GUARD", "Results._store_raw|ascending-times", "times must be ascending", "Results._store_raw no longer requires ascending times", E.where(sr))
    apps = [l for l in Ss.calls("append")]
    t_app = any(unobj(l.target[1]) == times and arg(l, 0) == ("name", "time") for l in apps)
    v_app = any(is_(unobj(l.target[1]), "self._results.setdefault(uuid, [])") is not None and arg(l, 0) == ("name", "value") for l in apps)
    rep.check(t_app and v_app, "GUARD", "Results._store_raw|paired-append", "time and value appended together", "times and values are no longer appended together (under the same uuid)", E.where(sr))
    # energy observables
    dom = "pulser.backend.default_observables"
    en = E.fn(dom + ".Energy.apply")
    rep.check(is_(S(E, en).ret, "hamiltonian.expect(state)") is not None, "GUARD", "Energy.apply|<H>", "hamiltonian.expect(state)", f"Energy no longer returns hamiltonian.expect(state): {sh(S(E, en).ret, 100)}", E.where(en))
    e2 = E.fn(dom + ".EnergySecondMoment.apply")
    ev = E.fn(dom + ".EnergyVariance.apply")
    r2, rv = S(E, e2).ret, S(E, ev).ret
    M2 = "pm.sqrt(Q_h.overlap(Q_h).real)"
    m2 = has(r2, M2)
    mv = has(rv, M2 + " - state.overlap(Q_h)")
    hs = sym.Pattern("hamiltonian.apply_to(state)").term
    # the moments are expectation values, which are defined for kets AND density matrices: <H^2> = (H @ H).expect(state),
    # variance = <H^2> - <H>^2.  The norm of H|psi> (sqrt(<h|h>) with h = H.apply_to(state)) is <H^2> for kets only: for a
    # density matrix apply_to gives H rho H^dagger and overlap is Tr[AB]
    H2 = "(hamiltonian @ hamiltonian).expect(state)"
    new2 = has(r2, H2) is not None and not mentions(r2, "apply_to")
    newv = has(rv, H2) is not None and has(rv, "hamiltonian.expect(state)") is not None and any(t[0] == "bin" and t[1] == "Pow" and t[3] == ("const", 2) for t in sym.subterms(rv)) and not mentions(rv, "apply_to")
    if m2 is not None or mv is not None:
        rep.violation("GUARD", "Energy moments|defined-for-density-matrices", "EnergySecondMoment / EnergyVariance are computed from h = hamiltonian.apply_to(state) as sqrt(h.overlap(h)) and state.overlap(h): that is <H^2> and <H> only for kets -- for a density matrix the values are sqrt(Tr[(H rho H)^2]) and Tr[rho H rho H] (rho = I/2, H = sigma_z gives 0.707 and 0.207 instead of 1 and 1)", E.where(e2))
    if new2 and newv:
        rep.ok("GUARD", "Energy moments|H-applied-to-the-given-state", "(hamiltonian @ hamiltonian).expect(state) and hamiltonian.expect(state) of the given arguments", E.where(e2))
        rep.ok("SIB", "EnergyVariance|second-moment-minus-squared-mean", "variance = <H^2> - <H>^2 with the second moment's own expression", E.where(ev))
        m2 = mv = None
    rep.check(new2 and newv or (m2 is not None and mv is not None and unobj(m2["Q_h"]) == hs and unobj(mv["Q_h"]) == hs), "GUARD", "Energy moments|H-applied-to-the-given-state" + ("" if not (new2 and newv) else "|expect-form"), "h_state = hamiltonian.apply_to(state) in both", "the energy moments no longer apply the given hamiltonian to the given state", E.where(e2))
    rep.check((new2 and newv) or (m2 is not None and mv is not None), "SIB", "EnergyVariance|second-moment-minus-squared-mean" + ("" if not (new2 and newv) else "|expect-form"), "variance = <second-moment expression> - state.overlap(h_state)", f"EnergyVariance computes `{sh(rv, 160)}` while EnergySecondMoment computes `{sh(r2, 120)}`: the variance must be the second moment minus the squared mean", E.where(ev))
    rep.floor("SIB", 1)
    # H(t) handed to the observables is evaluated on the emulator's own time axis, identically in both branches
    ok = len(obs_calls) >= 2
    why = ""
    for c in obs_calls:
        kw = dict(c.value[3])
        h = kw.get("hamiltonian")
        gh = [x for x in sym.subterms(h) if x[0] == "call" and x[1][0] == "attr" and x[1][2] == "get_hamiltonian"] if h is not None else []
        m = is_(gh[0][2][0], "Q_t * Q_res.total_duration") if gh and gh[0][2] else None
        res = unobj(m["Q_res"]) if m else None
        good = m is not None and m["Q_t"] == kw.get("t") and m["Q_res"] == kw.get("result") and res is not None and res[0] == "call" and dict(res[3]).get("total_duration") == sym.Pattern("self._sim_obj.total_duration_ns").term
        if not good:
            ok, why = False, sh(gh[0] if gh else h, 160)
    # ... and it is H(t) of the SEQUENCE: in the stochastic branch the emulator's current Hamiltonian is the one of the last
    #     random realisation, so the call asks for the noiseless one
    noisy_conds = [set(sym.conj_of(l.cond)) for l in Sr.log if l.kind == "call" and l.target is not None and l.target[0] == "attr" and l.target[2] == "_noisy_runs"]
    n_st = 0
    for c in obs_calls:
        if not any(nc <= set(sym.conj_of(c.cond)) for nc in noisy_conds):
            continue
        n_st += 1
        h = dict(c.value[3]).get("hamiltonian")
        gh = [x for x in sym.subterms(h) if x[0] == "call" and x[1][0] == "attr" and x[1][2] == "get_hamiltonian"] if h is not None else []
        rep.check(bool(gh) and dict(gh[0][3]).get("noiseless") == ("const", True), "GUARD", "QutipBackendV2.run|stochastic-branch-hands-the-noiseless-hamiltonian", "get_hamiltonian(..., noiseless=True) in the multi-run branch",
                  f"the stochastic branch hands `{sh(gh[0], 120) if gh else sh(h, 120)}` to the observables: without noiseless=True that is the Hamiltonian of the last random realisation (amplitude / detuning fluctuations, switched-off atoms), not H(t) of the sequence, so Energy / EnergyVariance depend on the random draw", E.where(run_, c.node))
    if noisy_conds and n_st == 0:
        raise AnalysisError("anchor: no observable call found in the branch of QutipBackendV2.run that calls _noisy_runs")
    from .c11 import rebuilt_config_noise_model_wins

    rebuilt_config_noise_model_wins(E, rep, "GUARD")
    rep.check(ok, "GUARD", "QutipBackendV2.run|hamiltonian-at-emulated-time", "H(t * res.total_duration) with res.total_duration = the emulator's total duration, in both branches",
              f"the Hamiltonian handed to the observables is evaluated at {why}: relative times must be scaled by the emulator's own total duration (which includes modulation fall time), identically in both branches", E.where(run_))
    # several basis states can read as the same bitstring (g and h both read 0 with three levels): probabilities accumulate
    bp = E.fn("pulser_simulation.qutip_state.QutipState.bitstring_probabilities")
    Sp = S(E, bp)
    retd = Sp.ret
    writes = [l for l in Sp.log if l.kind in ("store", "aug") and l.target is not None and l.target[0] == "idx" and l.loops and sym.contains(retd, l.target[1])]
    rep.check(bool(writes) and all(l.kind == "aug" and l.op == "Add" for l in writes), "GUARD", "QutipState.bitstring_probabilities|accumulates", "probabilities of basis states reading as the same bitstring are summed (+=)", "bitstring probabilities are assigned instead of accumulated: with 3+ levels several basis states map to one bitstring and all but one are lost", E.where(bp))
    # Born rule per representation: a ket's probabilities are |amplitude|^2, a density matrix's are its diagonal
    pr = E.fn("pulser_simulation.qutip_state.QutipState.probabilities")
    rp = S(E, pr).ret
    if rp is None:
        raise AnalysisError("anchor: QutipState.probabilities returns nothing")
    squares = [x for x in sym.subterms(rp) if x[0] == "bin" and x[1] == "Pow" and x[3] == ("const", 2)]
    sq_diag = [x for x in squares if any(t[0] == "call" and t[1][0] == "attr" and t[1][2] == "diag" for t in sym.subterms(x[2]))]
    sq_full = [x for x in squares if any(t[0] == "call" and t[1][0] == "attr" and t[1][2] in ("full", "data_as") for t in sym.subterms(x[2]))]
    has_diag = any(t[0] == "call" and t[1][0] == "attr" and t[1][2] == "diag" for t in sym.subterms(rp))
    rep.check(has_diag and not sq_diag, "GUARD", "QutipState.probabilities|density-matrix-diagonal-not-squared", "mixed state: probabilities are the diagonal populations themselves",
              f"the populations of a density matrix are squared (`{sh(sq_diag[0], 100) if sq_diag else 'diag() no longer read'}`): rho_kk already is the probability, squaring skews every non-uniform mixed state", E.where(pr))
    rep.check(bool(sq_full), "GUARD", "QutipState.probabilities|ket-amplitudes-squared", "pure state: probabilities are |amplitude|^2", "the amplitudes of a ket are no longer squared in probabilities()", E.where(pr))
    # operator application on a density matrix is A rho A^dagger
    ap = E.fn("pulser_simulation.qutip_op.QutipOperator.apply_to")
    ra = S(E, ap).ret
    op_, st_ = sym.Pattern("self._operator").term, sym.Pattern("state._state").term
    dag = sym.Pattern("self._operator.dag()").term
    want = sym.mk_ifexp(("attr", st_, "isoper"), ("mul", op_, st_, dag), ("mul", op_, st_))
    rep.check(sym.contains(ra, want), "GUARD", "QutipOperator.apply_to|A-rho-A-dagger", "ket: A|psi>; density matrix: A rho A^dagger", f"applying an operator to a density matrix is no longer A rho A^dagger (the right factor must be the adjoint): {sh(ra, 200)}", E.where(ap))
    ex = E.fn("pulser_simulation.qutip_op.QutipOperator.expect")
    rex = S(E, ex).ret
    rep.check(has(rex, "qutip.expect(self._operator, state._state)") is not None, "GUARD", "QutipOperator.expect|qutip.expect(op,state)", "expectation = qutip.expect(operator, state)", "QutipOperator.expect changed", E.where(ex))
    # ... returned whole: operators need not be Hermitian, so the expectation value is complex
    core = unobj(rex)
    while core[0] == "call" and core[1] in (("name", "complex"), ("attr", ("name", "np"), "complex128")) and len(core[2]) == 1:
        core = unobj(core[2][0])
    lossy = [t for t in sym.subterms(rex) if (t[0] == "attr" and t[2] in ("real", "imag")) or (t[0] == "call" and t[1] in (("name", "abs"), ("name", "float"), ("attr", ("name", "np"), "real"), ("attr", ("name", "np"), "abs"), ("attr", ("name", "np"), "imag")))]
    if is_(core, "qutip.expect(self._operator, state._state)") is not None:
        rep.ok("GUARD", "QutipOperator.expect|complex-value-returned-whole", "the value of qutip.expect is returned unchanged", E.where(ex))
    elif lossy:
        rep.violation("GUARD", "QutipOperator.expect|complex-value-returned-whole", f"QutipOperator.expect returns `{sh(rex, 100)}`: a real/imaginary/absolute part of the expectation value. Operators built from representations, sums, scalings and products need not be Hermitian, so <A> is complex and expect() is no longer linear", E.where(ex))
    else:
        rep.excepted("GUARD", "QutipOperator.expect|complex-value-returned-whole", f"returned value `{sh(rex, 80)}` wraps qutip.expect in a way the rule does not classify: not decided", E.where(ex))
    # a bra handed to QutipState is stored as its ket: the adjoint (conjugate transpose), not the plain transpose
    from .symutil import branches as _br20, mentions as _ment20

    qinit = E.method("pulser_simulation.qutip_state.QutipState", "__init__")
    stores = [l for l in S(E, qinit).logged("store") if l.target is not None and l.target[0] == "attr" and l.target[2] == "_state" and l.target[1] == ("name", "self")]
    if not stores:
        raise AnalysisError("anchor: QutipState.__init__ no longer stores self._state")
    n_bra = 0
    for l in stores:
        for conds, leaf in _br20(unobj(l.value)):
            pos = [c for c in conds + tuple(sym.conj_of(l.cond)) if c[0] != "not" and _ment20(c, "isbra")]
            if not pos:
                continue
            n_bra += 1
            leaf = unobj(leaf)
            rep.check(leaf[0] == "call" and leaf[1][0] == "attr" and leaf[1][2] == "dag", "GUARD", "QutipState.__init__|bra-stored-as-adjoint", "a bra is converted with .dag()",
                      f"a bra is stored as `{sh(leaf, 60)}`: the ket of <psi| is its adjoint (conjugate transpose); a transpose without conjugation flips the sign of every imaginary amplitude, so overlaps and expectation values of complex states change", E.where(qinit, l.node))
    if n_bra == 0:
        rep.excepted("GUARD", "QutipState.__init__|bra-stored-as-adjoint", "no branch on `isbra` found: bra handling is written in a form the rule does not classify (not decided)", E.where(qinit))
    # overlap: |<a|b>|^2 for two kets, Tr(rho sigma) / <psi|rho|psi> as soon as one side is a density matrix -- the
    # squared-modulus form is taken only when BOTH states are kets
    ov = E.method("pulser_simulation.qutip_state.QutipState", "overlap")
    rov = S(E, ov).ret
    n_sq = 0
    def _has_pow(t):
        return any(x[0] == "bin" and x[1] == "Pow" for x in sym.subterms(t))

    for t_if in [t for t in sym.subterms(rov) if t[0] == "ifexp"] if rov is not None else []:
        a_, b_ = _has_pow(t_if[2]), _has_pow(t_if[3])
        if a_ == b_:
            continue
        lits = list(sym.conj_of(t_if[1] if a_ else sym.mk_not(t_if[1])))

        def is_ket(who):
            st_t = sym.Pattern(f"{who}._state").term
            # (the stored state is a ket or an operator: `not isoper` is the same test)
            return any(x == ("attr", st_t, "isket") or x == sym.mk_not(("attr", st_t, "isoper")) or x == sym.mk_cmp("NotEq", ("attr", st_t, "type"), ("const", "oper")) or x == sym.mk_cmp("Eq", ("attr", st_t, "type"), ("const", "ket")) or x == sym.mk_cmp("Eq", ("const", "ket"), ("attr", st_t, "type")) for x in lits)

        n_sq += 1
        rep.check(is_ket("self") and is_ket("other"), "GUARD", f"QutipState.overlap|squared-modulus-only-for-two-kets|{n_sq}", "|<a|b>|^2 is used under `self._state.isket and other._state.isket`",
                  f"the overlap is squared under `{' and '.join(sh(x, 60) for x in lits if _ment20(x, 'isket', 'type', 'isoper')) or 'no ket test'}`: for two density matrices Tr(rho sigma) already is the overlap, squaring it changes every value strictly between 0 and 1", E.where(ov))
    if n_sq == 0:
        rep.excepted("GUARD", "QutipState.overlap|squared-modulus-only-for-two-kets", "no squared alternative found in the returned value (not decided)", E.where(ov))
    # sampling: the probabilities handed to the multinomial draw are cut off far below one shot's weight -- probabilities()
    # drops what is below the cutoff and renormalises, so with a cutoff of 1/num_shots every outcome expected less than once
    # is never sampled and its weight moves to the frequent outcomes
    smp = E.method("pulser_simulation.qutip_state.QutipState", "sample")
    cuts = [dict(l.value[3]).get("cutoff") for l in S(E, smp, inline=False).calls("bitstring_probabilities")]
    cuts = [c for c in cuts if c is not None]
    if not cuts:
        rep.excepted("GUARD", "QutipState.sample|cutoff-far-below-one-shot", "no cutoff passed to bitstring_probabilities: not decided", E.where(smp))
    for c in cuts:
        ns_inv = ("inv", ("name", "num_shots"))
        fac = None
        if c == ns_inv:
            fac = 1.0
        elif c[0] == "mul" and ns_inv in c[1:]:
            fac = 1.0
            for y in c[1:]:
                if y == ns_inv:
                    continue
                if y[0] == "const" and isinstance(y[1], (int, float)):
                    fac *= y[1]
                elif y[0] == "inv" and y[1][0] == "const" and isinstance(y[1][1], (int, float)) and y[1][1] != 0:
                    fac /= y[1][1]
                else:
                    fac = None
                    break
        if fac is None:
            rep.excepted("GUARD", "QutipState.sample|cutoff-far-below-one-shot", f"cutoff `{sh(c, 60)}` is not of the form c / num_shots: not decided", E.where(smp))
        else:
            rep.check(fac <= 1e-2, "GUARD", "QutipState.sample|cutoff-far-below-one-shot", f"cutoff = {fac:g} / num_shots", f"QutipState.sample cuts the probabilities at {fac:g} / num_shots: outcomes expected less than {fac:g} times in the whole sample are removed and the rest renormalised, so rare bitstrings (p = 0.01 with 50 shots) are never drawn and the frequent ones are over-represented -- the sampled distribution no longer follows the state's probabilities", E.where(smp))
    rep.floor("GUARD", 16)
    return {"atoms": sorted(seen)}
