"""C13 finding 1: a REFUSED declare_channel() leaves the channel declared.

On a device without reusable channels each channel can be declared once and a
name can be used once. A declare_channel() call that raises (bad
initial_target) must not count as that one declaration.
"""
import sys
import warnings

from pulser import Pulse, Register, Sequence
from pulser.devices import DigitalAnalogDevice

warnings.simplefilter("ignore")
reg = Register.from_coordinates([(0, 0), (0, 6)], prefix="q")
problems = []


def refused_declaration(seq, **kwargs):
    try:
        seq.declare_channel("ch", "raman_local", **kwargs)
    except ValueError:
        return
    problems.append(f"declare_channel({kwargs}) was expected to raise")


# 1) unknown qubit, empty target, too many targets
for bad in ("not_a_qubit", [], ["q0", "q1"]):
    seq = Sequence(reg, DigitalAnalogDevice)
    refused_declaration(seq, initial_target=bad)
    if seq.declared_channels:
        problems.append(
            f"initial_target={bad!r}: refused call left "
            f"{list(seq.declared_channels)} declared, recorded calls: "
            f"{[c.name for c in seq._calls[1:]]}"
        )
    if "raman_local" not in seq.available_channels:
        problems.append(
            f"initial_target={bad!r}: 'raman_local' is no longer available"
        )
    # The first SUCCESSFUL declaration of the name / of the channel
    for name in ("ch", "other"):
        try:
            seq.declare_channel(name, "raman_local", initial_target="q0")
            break
        except ValueError as e:
            problems.append(
                f"initial_target={bad!r}: first valid declaration "
                f"declare_channel({name!r}, 'raman_local', 'q0') refused: {e}"
            )
    else:
        # The half-declared channel is usable but is not part of the
        # recorded sequence
        seq.target("q0", "ch")
        seq.add(Pulse.ConstantPulse(100, 1, 0, 0), "ch")
        try:
            seq.build()
        except Exception as e:
            problems.append(
                f"initial_target={bad!r}: live sequence has a pulse on 'ch' "
                f"but replaying its recorded calls fails: {e!r}"
            )

# 2) the refused call must not switch the sequence's mode either
seq = Sequence(reg, DigitalAnalogDevice)
seq.config_slm_mask(["q0"])
refused_declaration(seq, initial_target="not_a_qubit")
if seq.declared_channels:
    problems.append(
        "refused call after config_slm_mask() left "
        f"{list(seq.declared_channels)} declared (mode switched to Ising and "
        "SLM DMM configured)"
    )

if problems:
    print("FAIL")
    for p in problems:
        print(" -", p)
    sys.exit(1)
print("PASS")
