"""C01 finding 1: the pulse is validated BEFORE it is lengthened to the next
clock multiple; the lengthened (re-sampled) pulse that is actually scheduled
is never checked against the channel limits."""
import sys
import warnings

import numpy as np

from pulser import Pulse, Register, Sequence
from pulser.channels import Rydberg
from pulser.devices import AnalogDevice, VirtualDevice
from pulser.waveforms import BlackmanWaveform, InterpolatedWaveform

warnings.simplefilter("ignore")
reg = Register.from_coordinates([(0, 0), (0, 10)], prefix="q")
failures = []


def scheduled_pulse(seq, ch):
    return seq._schedule[ch][-1].type


# (a) AnalogDevice (clock 4 ns, max_amp = 4*pi): peak grows when resampled
seq = Sequence(reg, AnalogDevice)
seq.declare_channel("ch", "rydberg_global")
ch_obj = seq.declared_channels["ch"]
wf = InterpolatedWaveform(
    18, [0, 11.2, 11.2, 0], interpolator="interp1d", kind="cubic"
)
assert wf.samples.as_array().max() <= ch_obj.max_amp  # valid as given
try:
    seq.add(Pulse.ConstantDetuning(wf, 0, 0), "ch")
except ValueError as e:
    print("(a) rejected:", e)
else:
    p = scheduled_pulse(seq, "ch")
    peak = float(np.max(p.amplitude.samples.as_array()))
    print(f"(a) scheduled {p.duration} ns, peak {peak} vs max_amp "
          f"{ch_obj.max_amp}")
    if peak > ch_obj.max_amp:
        failures.append("(a) scheduled amplitude above channel max_amp")

# (b) min_avg_amp: fixed-area Blackman gets a lower average once lengthened
ch = Rydberg.Global(
    max_abs_detuning=20, max_amp=10, clock_period=4, min_duration=16,
    max_duration=1000, min_avg_amp=1.0,
)
dev = VirtualDevice(
    name="dev", dimensions=2, rydberg_level=60, channel_objects=(ch,)
)
seq = Sequence(reg, dev)
seq.declare_channel("ch", "rydberg_global")
wf = BlackmanWaveform(17, 17.5e-3)  # average 1.029 >= 1.0 as given
try:
    seq.add(Pulse.ConstantDetuning(wf, 0, 0), "ch")
except ValueError as e:
    print("(b) rejected:", e)
else:
    p = scheduled_pulse(seq, "ch")
    avg = float(np.mean(p.amplitude.samples.as_array()))
    print(f"(b) scheduled {p.duration} ns, average amp {avg} vs min_avg_amp "
          f"{ch.min_avg_amp}")
    if 0 < avg < ch.min_avg_amp:
        failures.append("(b) scheduled average amplitude below min_avg_amp")

# (c) non-finite samples: Blackman(1) -> Blackman(2) is 0 * inf = NaN
ch = Rydberg.Global(max_abs_detuning=20, max_amp=10, clock_period=2)
dev = VirtualDevice(
    name="dev", dimensions=2, rydberg_level=60, channel_objects=(ch,)
)
seq = Sequence(reg, dev)
seq.declare_channel("ch", "rydberg_global")
try:
    seq.add(Pulse.ConstantDetuning(BlackmanWaveform(1, 5e-3), 0, 0), "ch")
except ValueError as e:
    print("(c) rejected:", e)
else:
    p = scheduled_pulse(seq, "ch")
    samples = p.amplitude.samples.as_array()
    print(f"(c) scheduled {p.duration} ns, samples {samples}")
    if not np.all(np.isfinite(samples)):
        failures.append("(c) scheduled amplitude samples are not finite")

if failures:
    print("FAIL:", "; ".join(failures))
    sys.exit(1)
print("PASS")
