"""C19: "Defining a register from trap IDs places each qubit exactly on that
trap, looking those coordinates up returns the same IDs" and "trap IDs depend
only on the set of coordinates".  Traps.__init__ validates a float64 copy of
the input but then stores the caller's own object, so (a) float32 input is
rounded in float32 and the layout cannot find its own traps, and (b) the
layout silently follows later changes of the caller's array / list."""
import sys

import numpy as np

from pulser.register.register_layout import RegisterLayout

ok = True


def check(label, cond):
    global ok
    print(f"  {label}: {'ok' if cond else 'WRONG'}")
    ok = ok and bool(cond)


pts = [[0.1, 0.0], [1.3, 0.0], [0.7, 2.1]]
ref = RegisterLayout(pts)

print("(a) float32 coordinates")
lay32 = RegisterLayout(np.array(pts, dtype=np.float32))
check("same layout as the float64 one", lay32 == ref)
check("coords are multiples of 1e-6",
      np.array_equal(lay32.coords, np.round(lay32.coords, 6)))
reg = lay32.define_register(2, 0, 1)
try:
    back = lay32.get_traps_from_coordinates(
        *[c.as_array() for c in reg.qubits.values()]
    )
    check(f"register coords -> trap ids {back} == [2, 0, 1]",
          back == [2, 0, 1])
except ValueError as e:
    check(f"looking up the register's coordinates raised: {e}", False)
try:
    back = lay32.get_traps_from_coordinates(*lay32.coords)
    check(f"layout.coords -> trap ids {back}", back == [0, 1, 2])
except ValueError as e:
    check(f"looking up the layout's own coords raised: {e}", False)

print("(b) caller changes its array / list after building the layout")
arr = np.array([[0.0, 0.0], [1.0, 0.0], [2.0, 0.0]])
lay = RegisterLayout(arr)
twin = RegisterLayout(arr.copy())
arr[0] = [1.0, 0.0]  # would be a duplicated trap -> rejected by __init__
check("layout still has traps x = 0, 1, 2",
      np.array_equal(lay.coords, [[0, 0], [1, 0], [2, 0]]))
check("layout still equals its twin", lay == twin)
lst = [[0.0, 0.0], [1.0, 0.0], [2.0, 0.0]]
lay = RegisterLayout(lst)
lst[0][0] = 7.0
check("layout built from a list still has traps x = 0, 1, 2",
      np.array_equal(lay.coords, [[0, 0], [1, 0], [2, 0]]))

print("PASS" if ok else "FAIL")
sys.exit(0 if ok else 1)
